"""C05 -- Literal rendering is equivalent to binding and cannot inject SQL (sanitiser discipline)."""

from __future__ import annotations

import ast
import re
from typing import Dict, List, Optional, Tuple

from ..astutil import call_name, calls_in, dotted, name_stores, returns_of, unparse, walk_local, walk_stmts
from ..index import ClassInfo, FuncInfo
from ..report import Registry, chain, sub

R = Registry(
    "C05",
    title="Literal rendering is equivalent to binding and cannot inject SQL",
    decides=(
        "taint discipline of every literal_processor implementation (core types, TypeDecorator, all dialect "
        "overrides): the processed value reaches the returned SQL text only through an enumerated sanitiser "
        "(quote doubling before quote wrapping, int()/float()/Decimal validation, duck-typed date/number "
        "APIs, delegation to another literal processor, selection between constants); dialects that enable "
        "backslash escapes double backslashes in the text rendered by super() -- for every value, on every path on "
        "which the flag can be set (only `not flag` / `no backslash in the text` outcomes may bypass it) -- and "
        "return the doubled text; percent-doubling sites agree; render_literal_value never hands None to a "
        "processor unless the type evaluates None, and raises CompileError when no processor exists; every site "
        "that short-circuits a typed None to SQL NULL (literal coercion, render_literal_value, "
        "render_literal_bindparam) requires `not type.should_evaluate_none`, as the bound path does; a validation "
        "by a regular expression counts as a sanitiser only when the language it accepts (bounded model check of "
        "the pattern with the match method actually used) consists of SQL numeric literals; the type handed to the "
        "literal renderer in the compiler classes is never obtained through an accessor that strips a "
        "TypeDecorator, so the literal is processed by the same type as the bound parameter."
    ),
    not_decided="equality of literal-rendered and bound execution results on a backend; DBAPI-level quoting; what a "
                "type's bind processor and literal processor do with None (only that both are consulted).",
)

# abstract levels, worst to best
RAW, QSAFE, SAFE = 0, 1, 2
NAMES = {RAW: "RAW", QSAFE: "QUOTE-DOUBLED", SAFE: "SAFE"}

DUCK_METHODS = {"isoformat", "strftime", "total_seconds", "timetuple", "toordinal", "utcoffset", "timestamp", "as_integer_ratio", "bit_length"}
DUCK_ATTRS = {"hex", "year", "month", "day", "hour", "minute", "second", "microsecond", "days", "seconds", "microseconds", "int", "real", "numerator"}
PROC_SOURCES = {"literal_processor", "string_literal_processor", "_cached_literal_processor",
                "_literal_processor_date", "_literal_processor_datetime", "_literal_processor_time",
                "_literal_processor_portion"}
# `'%s' % bp(value)` in SQLite date types: the bind processor formats date parts with %d-style fields and raises
# TypeError for anything that is not a date/time object (read and confirmed).
BIND_PROC_AS_SANITISER = {
    "dialects/sqlite/base.py::_DateTimeMixin.literal_processor":
        "SQLite DATE/TIME/DATETIME bind processors accept only date/time objects (TypeError otherwise) and render "
        "integer fields through the storage format",
}
USER_HOOK = {
    "sql/type_api.py::TypeDecorator.literal_processor":
        "process_literal_param is the documented user hook whose return value *is* the rendered literal when the impl "
        "type has no literal processor; its content is the application's responsibility",
}


# ---------------------------------------------------------------------- validation by a regular expression
_RE_FLAG_NAMES = {"I": re.I, "IGNORECASE": re.I, "X": re.X, "VERBOSE": re.X, "A": re.A, "ASCII": re.A,
                  "S": re.S, "DOTALL": re.S, "M": re.M, "MULTILINE": re.M, "U": re.U, "UNICODE": re.U}
_MATCH_METHODS = ("match", "fullmatch", "search")
_NUM_ALPHABET = ("1", "+", "-", ".", "e", "E", " ", "'", ";", "a", "_", "\n", "(", "/")


def _is_sql_numeric_literal(s: str) -> bool:
    """<signed numeric literal> of SQL: [sign] (digits [. [digits]] | . digits) [E [sign] digits]; surrounding
    white space is harmless in an unquoted position."""
    s = s.strip(" \t\r\n")
    i, n = 0, len(s)
    if i < n and s[i] in "+-":
        i += 1
    d0 = i
    while i < n and s[i].isdigit() and s[i].isascii():
        i += 1
    intd = i - d0
    frac = 0
    if i < n and s[i] == ".":
        i += 1
        f0 = i
        while i < n and s[i].isdigit() and s[i].isascii():
            i += 1
        frac = i - f0
    if intd == 0 and frac == 0:
        return False
    if i < n and s[i] in "eE":
        i += 1
        if i < n and s[i] in "+-":
            i += 1
        e0 = i
        while i < n and s[i].isdigit() and s[i].isascii():
            i += 1
        if i == e0:
            return False
    return i == n


_RX_VERDICTS: Dict[Tuple[str, int, str], Optional[str]] = {}


def _regex_admits_non_numeric(pattern: str, flags: int, method: str) -> Optional[str]:
    """Bounded model check of a validating regular expression: every string over a numeric / SQL-metacharacter
    alphabet (length <= 4) that `re.<method>` accepts must be an SQL numeric literal.  -> None, or a witness."""
    k = (pattern, flags, method)
    if k in _RX_VERDICTS:
        return _RX_VERDICTS[k]
    import itertools
    try:
        rx = re.compile(pattern, flags)
    except re.error as e:
        _RX_VERDICTS[k] = f"the pattern does not compile ({e})"
        return _RX_VERDICTS[k]
    fn = getattr(rx, method)
    witness = None
    for n in range(0, 5):
        for tup in itertools.product(_NUM_ALPHABET, repeat=n):
            t = "".join(tup)
            if fn(t) and not _is_sql_numeric_literal(t):
                witness = t
                break
        if witness is not None:
            break
    _RX_VERDICTS[k] = None if witness is None else (
        f"`{method}()` of /{pattern}/ accepts {witness!r}, which is not a numeric literal"
        + (" (the pattern is only matched as a prefix: use fullmatch() / anchor the end)" if method in ("match", "search") else ""))
    return _RX_VERDICTS[k]


class _Interp:
    """Tiny abstract interpreter for the inner `process(value)` closures."""

    def __init__(self, ctx, outer: FuncInfo, fn: ast.FunctionDef, procs: Dict[str, str], nonnull: set, hooks: set):
        self.ctx, self.outer, self.fn = ctx, outer, fn
        self.procs, self.nonnull, self.hooks = procs, nonnull, hooks
        self.returns: List[Tuple[int, ast.AST, str]] = []
        self.return_envs: List[Dict[str, int]] = []
        self.matches: Dict[str, set] = {}  # local holding a match object -> names the match validated
        self.weak: List[str] = []  # regex validations that were found wanting (for the message)
        self.param = fn.args.args[0].arg if fn.args.args else "value"

    # -- expressions
    def ev(self, e, env) -> int:
        if isinstance(e, ast.Constant):
            return SAFE
        if isinstance(e, ast.Name):
            return env.get(e.id, SAFE)  # closure constants / format strings are not value-derived
        if isinstance(e, ast.Attribute):
            base = self.ev(e.value, env)
            if base == SAFE:
                return SAFE
            return SAFE if e.attr in DUCK_ATTRS else RAW
        if isinstance(e, ast.Subscript):
            return self.ev(e.value, env)
        if isinstance(e, ast.IfExp):
            return min(self.ev(e.body, env), self.ev(e.orelse, env))
        if isinstance(e, ast.BoolOp):
            return min(self.ev(v, env) for v in e.values)
        if isinstance(e, ast.JoinedStr):
            return self._fstring(e, env)
        if isinstance(e, ast.BinOp) and isinstance(e.op, ast.Mod) and isinstance(e.left, ast.Constant) and isinstance(e.left.value, str):
            args = e.right.elts if isinstance(e.right, ast.Tuple) else [e.right]
            return self._format(e.left.value, args, env)
        if isinstance(e, ast.BinOp):
            l, r = self.ev(e.left, env), self.ev(e.right, env)
            m = min(l, r)
            return SAFE if m == SAFE else RAW  # concatenating a merely quote-doubled piece loses the wrapping proof
        if isinstance(e, (ast.ListComp, ast.GeneratorExp)):
            env2 = dict(env)
            for g in e.generators:
                lv = self.ev(g.iter, env)
                for n in ast.walk(g.target):
                    if isinstance(n, ast.Name):
                        env2[n.id] = lv
            return self.ev(e.elt, env2)
        if isinstance(e, ast.Call):
            return self._call(e, env)
        if isinstance(e, (ast.Tuple, ast.List)):
            return min([self.ev(x, env) for x in e.elts] or [SAFE])
        return RAW

    def _call(self, c: ast.Call, env) -> int:
        nm = call_name(c) or ""
        short = nm.rsplit(".", 1)[-1]
        args = [self.ev(a, env) for a in c.args] + [self.ev(k.value, env) for k in c.keywords]
        worst = min(args) if args else SAFE
        if isinstance(c.func, ast.Name):
            if c.func.id in self.procs:
                return SAFE  # delegation to a literal processor: a complete, sanitised literal
            if c.func.id in self.hooks:
                return RAW
            if c.func.id in ("int", "float", "len", "bool", "abs", "round", "ord", "hash"):
                return SAFE
            if c.func.id in ("str", "repr", "bytes", "list", "tuple", "map", "sorted", "format"):
                return worst
            if c.func.id == "Decimal":
                return SAFE
            if worst != SAFE:
                lv = self._follow(c, env)
                if lv is not None:
                    return lv
            return SAFE if worst == SAFE else RAW
        if isinstance(c.func, ast.Attribute):
            if nm in ("decimal.Decimal", "dt.datetime", "uuid.UUID", "_python_UUID"):
                return SAFE
            recv = self.ev(c.func.value, env)
            if short == "replace" and len(c.args) == 2 and all(isinstance(a, ast.Constant) and isinstance(a.value, str) for a in c.args):
                a, b = c.args[0].value, c.args[1].value
                if a == "'" and b == "''":
                    return max(recv, QSAFE)
                if "'" not in a and "'" not in b:
                    return recv
                return RAW if recv != SAFE else (SAFE if "'" not in b else RAW)
            if short in DUCK_METHODS:
                return SAFE
            if short == "join":
                return min(recv, worst)
            if short in ("split", "strip", "lstrip", "rstrip", "lower", "upper", "format", "zfill", "ljust", "rjust", "title"):
                lv = min(recv, worst)
                return lv if lv != QSAFE else RAW
            if short in ("decode", "encode"):
                return RAW if recv != SAFE else SAFE
            if short == "_apply_item_processor" and len(c.args) >= 2 and isinstance(c.args[1], ast.Name) and c.args[1].id in self.procs:
                return SAFE
            if recv == SAFE and worst == SAFE:
                return SAFE
            if recv == SAFE:
                lv = self._follow(c, env)
                if lv is not None:
                    return lv
            return RAW
        return RAW

    # -- extracted helpers: a local function of the enclosing literal_processor, a module-level function or a
    #    method of the type (`self._quote(value)`) is interpreted with its parameters bound to the levels of the
    #    arguments; its result is the worst of what it returns.  Anything not resolvable stays RAW (as before).
    depth = 0

    def _follow(self, c: ast.Call, env) -> Optional[int]:
        tgt = self._resolve_target(c)
        if tgt is None:
            return None
        target, params = tgt
        env2 = {}
        for p, a in zip(params, c.args):
            env2[p] = self.ev(a, env)
        for k in c.keywords:
            if k.arg in params:
                env2[k.arg] = self.ev(k.value, env)
        sub_ = _Interp(self.ctx, self.outer, target, self.procs, self.nonnull, self.hooks)
        sub_.depth = self.depth + 1
        sub_._block(target.body, env2)
        for w in sub_.weak:
            if w not in self.weak:
                self.weak.append(w)
        if not sub_.returns:
            return None
        return min(r[0] for r in sub_.returns)

    def _resolve_target(self, c: ast.Call):
        """(FunctionDef, parameter names without self) of a helper worth following, else None."""
        if self.depth >= 2 or any(k.arg is None for k in c.keywords) or any(isinstance(a, ast.Starred) for a in c.args):
            return None
        target = None
        skip_self = False
        if isinstance(c.func, ast.Name):
            for n in ast.walk(self.outer.node):
                if isinstance(n, ast.FunctionDef) and n.name == c.func.id and n is not self.fn and n is not self.outer.node:
                    target = n
                    break
            if target is None:
                r = self.ctx.index.resolve(self.outer.module, c.func.id)
                if isinstance(r, FuncInfo) and r.cls is None:
                    target = r.node
        elif isinstance(c.func, ast.Attribute) and isinstance(c.func.value, ast.Name) and c.func.value.id in ("self", "cls") \
                and self.outer.cls is not None:
            r = self.ctx.index.resolve_method(self.outer.cls, c.func.attr)
            if r is not None and r.node is not self.outer.node:
                target = r.node
                skip_self = not any("staticmethod" in d for d in r.decorators)
        if target is None or sum(1 for x in ast.walk(target) if isinstance(x, ast.stmt)) > 15 \
                or any(isinstance(x, (ast.Yield, ast.YieldFrom, ast.Global, ast.Nonlocal)) for x in ast.walk(target)):
            return None
        params = [a.arg for a in target.args.posonlyargs + target.args.args]
        if skip_self and params:
            params = params[1:]
        return target, params

    def _placeholders(self, pieces: List[Tuple[str, Optional[ast.AST]]], env) -> int:
        """pieces: (literal text, expr or None) in order; an expr inside single quotes needs >= QSAFE, outside
        needs SAFE.  Result SAFE when every placeholder is fine, else RAW."""
        inside = False
        ok = True
        for text, expr in pieces:
            for ch in text:
                if ch == "'":
                    inside = not inside
            if expr is not None:
                lv = self.ev(expr, env)
                if inside:
                    ok = ok and lv >= QSAFE
                else:
                    ok = ok and lv == SAFE
        return SAFE if ok else RAW

    def _fstring(self, e: ast.JoinedStr, env) -> int:
        pieces, cur = [], ""
        for v in e.values:
            if isinstance(v, ast.Constant):
                cur += str(v.value)
            else:
                pieces.append((cur, v.value))
                cur = ""
        pieces.append((cur, None))
        return self._placeholders(pieces, env)

    def _format(self, fmt: str, args, env) -> int:
        parts = re.split(r"%(?:\([^)]*\))?[-#0 +]*\d*(?:\.\d+)?([sdrfi])", fmt)
        texts, kinds = parts[0::2], parts[1::2]
        if len(kinds) != len(args):
            if len(args) == 1 and isinstance(args[0], ast.Dict):
                return min([self.ev(v, env) for v in args[0].values] or [SAFE]) if False else RAW
            return RAW
        pieces = []
        for t, k, a in zip(texts, kinds, args):
            if k in ("d", "f", "i"):
                pieces.append((t, ast.Constant(value=0)))  # numeric conversion: TypeError for non-numbers
            else:
                pieces.append((t, a))
        pieces.append((texts[-1], None))
        return self._placeholders(pieces, env)

    # -- validation by a compiled regular expression -------------------------------------------------------
    def _const_str(self, e) -> Optional[str]:
        if isinstance(e, ast.Constant) and isinstance(e.value, str):
            return e.value
        if isinstance(e, ast.BinOp) and isinstance(e.op, ast.Add):
            l, r = self._const_str(e.left), self._const_str(e.right)
            return l + r if l is not None and r is not None else None
        return None

    def _flags(self, e) -> Optional[int]:
        if e is None:
            return 0
        if isinstance(e, ast.Constant) and isinstance(e.value, int):
            return e.value
        if isinstance(e, ast.BinOp) and isinstance(e.op, ast.BitOr):
            l, r = self._flags(e.left), self._flags(e.right)
            return l | r if l is not None and r is not None else None
        d = dotted(e) or ""
        if d.startswith("re.") and d[3:] in _RE_FLAG_NAMES:
            return int(_RE_FLAG_NAMES[d[3:]])
        return None

    def _compiled_pattern(self, e, depth=0) -> Optional[Tuple[str, int]]:
        """(pattern, flags) of an expression that denotes `re.compile(<constant>[, flags])`: the call itself, a
        closure / module constant bound exactly once to it, or a class attribute read off self."""
        if depth > 3:
            return None
        if isinstance(e, ast.Call) and (call_name(e) or "") == "re.compile" and e.args:
            pat = self._const_str(e.args[0])
            fl = self._flags(e.args[1] if len(e.args) > 1 else next((k.value for k in e.keywords if k.arg == "flags"), None))
            return (pat, fl) if pat is not None and fl is not None else None
        if isinstance(e, ast.Name):
            for scope in (self.fn, self.outer.node):
                vals = [v for n, v, st in name_stores(scope, into_nested=False) if n == e.id]
                if vals:
                    return self._compiled_pattern(vals[0], depth + 1) if len(vals) == 1 and vals[0] is not None else None
            vals = self.outer.module.assigns.get(e.id) or []
            return self._compiled_pattern(vals[0], depth + 1) if len(vals) == 1 else None
        if isinstance(e, ast.Attribute) and isinstance(e.value, ast.Name) and e.value.id in ("self", "cls") \
                and self.outer.cls is not None:
            _owner, vals = self.ctx.index.class_attr_nodes(self.outer.cls, e.attr)
            return self._compiled_pattern(vals[0], depth + 1) if len(vals) == 1 else None
        return None

    def _match_subjects(self, c) -> Optional[set]:
        """`<compiled>.fullmatch(x)` / `re.fullmatch(<constant>, x)` (match/search alike) whose accepted language
        is numeric: the local names x is made of (`x`, `str(x)`).  None: not such a call / language too wide."""
        if not (isinstance(c, ast.Call) and isinstance(c.func, ast.Attribute) and c.func.attr in _MATCH_METHODS):
            return None
        method = c.func.attr
        if dotted(c.func.value) == "re":
            if len(c.args) < 2:
                return None
            pat = self._const_str(c.args[0])
            fl = self._flags(c.args[2] if len(c.args) > 2 else next((k.value for k in c.keywords if k.arg == "flags"), None))
            cp = (pat, fl) if pat is not None and fl is not None else None
            subject = c.args[1]
        else:
            cp = self._compiled_pattern(c.func.value)
            subject = c.args[0] if c.args else None
        if cp is None or subject is None:
            return None
        while isinstance(subject, ast.Call) and isinstance(subject.func, ast.Name) and subject.func.id == "str" and len(subject.args) == 1:
            subject = subject.args[0]
        if not isinstance(subject, ast.Name):
            return None
        bad = _regex_admits_non_numeric(cp[0], cp[1], method)
        if bad is not None:
            if bad not in self.weak:
                self.weak.append(bad)
            return None
        return {subject.id}

    def _proved(self, test, outcome: bool) -> set:
        """Local names that are known to hold a numeric literal when `test` evaluates to `outcome`."""
        if isinstance(test, ast.UnaryOp) and isinstance(test.op, ast.Not):
            return self._proved(test.operand, not outcome)
        if isinstance(test, ast.BoolOp):
            if (isinstance(test.op, ast.And) and outcome) or (isinstance(test.op, ast.Or) and not outcome):
                out = set()
                for v in test.values:
                    out |= self._proved(v, outcome)
                return out
            return set()
        if isinstance(test, ast.Compare) and len(test.ops) == 1 and isinstance(test.comparators[0], ast.Constant) \
                and test.comparators[0].value is None and isinstance(test.ops[0], (ast.Is, ast.IsNot)):
            truthy = outcome if isinstance(test.ops[0], ast.IsNot) else not outcome
            return self._proved(test.left, True) if truthy else set()
        if isinstance(test, ast.NamedExpr):
            return self._proved(test.value, outcome)
        if not outcome:
            return set()
        if isinstance(test, ast.Name):
            return set(self.matches.get(test.id, ()))
        return self._match_subjects(test) or set()

    def _validator_call(self, c: ast.Call, env) -> set:
        """A bare call statement `helper(x)` of a followed helper that returns normally only when its parameter
        holds a numeric literal (every normal exit is dominated by a successful validation): names proved."""
        tgt = self._resolve_target(c)
        if tgt is None:
            return set()
        target, params = tgt
        argmap = {}
        for p_, a in zip(params, c.args):
            if isinstance(a, ast.Name):
                argmap[p_] = a.id
        for k in c.keywords:
            if k.arg in params and isinstance(k.value, ast.Name):
                argmap[k.arg] = k.value.id
        if not argmap:
            return set()
        sub_ = _Interp(self.ctx, self.outer, target, self.procs, self.nonnull, self.hooks)
        sub_.depth = self.depth + 1
        env2 = {p_: env.get(n, SAFE) for p_, n in argmap.items()}
        fall = sub_._block(target.body, dict(env2))
        exits = list(sub_.return_envs) + ([fall] if fall is not None else [])
        for w in sub_.weak:
            if w not in self.weak:
                self.weak.append(w)
        if not exits:
            return set()
        return {n for p_, n in argmap.items() if env2[p_] != SAFE and all(e.get(p_, SAFE) == SAFE for e in exits)}

    # -- statements
    def run(self):
        env = {self.param: RAW}
        self._block(self.fn.body, env)

    def _block(self, stmts, env) -> Optional[Dict[str, int]]:
        """Returns the fall-through env or None if every path returned/raised."""
        for i, st in enumerate(stmts):
            if isinstance(st, ast.Return):
                lv = self.ev(st.value, env) if st.value is not None else SAFE
                self.returns.append((lv, st, ""))
                self.return_envs.append(dict(env))
                return None
            if isinstance(st, ast.Raise):
                return None
            if isinstance(st, ast.Assign):
                lv = self.ev(st.value, env)
                subj = self._match_subjects(st.value) if isinstance(st.value, ast.Call) else None
                for t in st.targets:
                    for n in ast.walk(t):
                        if isinstance(n, ast.Name):
                            env[n.id] = lv
                            self.matches.pop(n.id, None)
                            for ms in self.matches.values():
                                ms.discard(n.id)  # re-bound after it was matched: the match says nothing any more
                            if subj and isinstance(t, ast.Name) and n.id not in subj:
                                self.matches[n.id] = set(subj)
            elif isinstance(st, ast.AnnAssign) and st.value is not None and isinstance(st.target, ast.Name):
                env[st.target.id] = self.ev(st.value, env)
            elif isinstance(st, ast.AugAssign) and isinstance(st.target, ast.Name):
                env[st.target.id] = min(env.get(st.target.id, SAFE), self.ev(st.value, env))
            elif isinstance(st, ast.Expr):
                # validating call that raises for anything non-numeric dominates what follows
                v = st.value
                if isinstance(v, ast.Call) and (call_name(v) or "") in ("decimal.Decimal", "Decimal", "int", "float") and v.args \
                        and isinstance(v.args[0], ast.Name):
                    env[v.args[0].id] = SAFE
                elif isinstance(v, ast.Call):
                    for n_ in self._validator_call(v, env):
                        env[n_] = SAFE
            elif isinstance(st, ast.If):
                t = st.test
                # `if P:` on a processor that can never be None: only the body is feasible
                always = isinstance(t, ast.Name) and t.id in self.nonnull
                # outcome of a validating regular expression: the matched local is a numeric literal on that branch
                env_t, env_f = dict(env), dict(env)
                for n_ in self._proved(t, True):
                    env_t[n_] = SAFE
                for n_ in self._proved(t, False):
                    env_f[n_] = SAFE
                e1 = self._block(st.body, env_t)
                e2 = None if always else self._block(st.orelse, env_f) if st.orelse else env_f
                if always and st.orelse:
                    e2 = None
                if e1 is None and e2 is None:
                    return None
                if e1 is None:
                    env = e2
                elif e2 is None:
                    env = e1
                else:
                    env = {k: min(e1.get(k, SAFE), e2.get(k, SAFE)) for k in set(e1) | set(e2)}
            elif isinstance(st, (ast.For, ast.While, ast.With, ast.Try)):
                body_env = self._block(st.body, dict(env))
                if body_env is not None:
                    env = {k: min(env.get(k, SAFE), body_env.get(k, SAFE)) for k in set(env) | set(body_env)}
                if isinstance(st, ast.Try):
                    # handlers / else / finally can return (or rebind) as well: `except KeyError: return value`
                    for blk in [h.body for h in st.handlers] + [st.orelse, st.finalbody]:
                        if not blk:
                            continue
                        e2 = self._block(blk, dict(env))
                        if e2 is not None:
                            env = {k: min(env.get(k, SAFE), e2.get(k, SAFE)) for k in set(env) | set(e2)}
        return env


def _never_none(ctx, f: FuncInfo) -> bool:
    """Does the literal_processor implementation return a function on every path?"""
    rets = returns_of(f.node)
    if not rets:
        return False
    for r in rets:
        if r.value is None or (isinstance(r.value, ast.Constant) and r.value.value is None):
            return False
    return True


def _string_family_never_none(ctx) -> bool:
    base = ctx.index.cls("sql/sqltypes.py::String")
    for c in [base] + ctx.index.subclasses(base):
        f = ctx.index.resolve_method(c, "literal_processor")
        if f is None or not _never_none(ctx, f):
            if f is not None and f.cls is not None and f.cls.name in ("TypeEngine",):
                return False
            if f is not None and not _never_none(ctx, f):
                return False
    return True


def _analyse_outer(ctx, f: FuncInfo, string_nonnull: bool, int_nonnull: bool, seen=None, param_nonnull=()):
    """Analyse one literal_processor-like function.  Yields (key, ok, msg, loc)."""
    seen = seen if seen is not None else set()
    if f.key in seen:
        return
    seen.add(f.key)
    ctx.functions_analysed.add(f.key)
    procs: Dict[str, str] = {}
    nonnull = set()
    hooks = set()
    stores = sorted(name_stores(f.node, into_nested=False), key=lambda x: (x[2].lineno, x[2].col_offset))
    for n, v, st in stores + stores:
        if v is None:
            continue
        if isinstance(v, ast.Call):
            nm = call_name(v) or ""
            short = nm.rsplit(".", 1)[-1]
            if short in PROC_SOURCES:
                procs[n] = nm
                if short == "string_literal_processor" and string_nonnull:
                    nonnull.add(n)
                if nm.startswith("super().") and f.cls is not None:
                    mro = ctx.index.mro(f.cls)
                    for k in mro[1:]:
                        if short in k.methods:
                            if _never_none(ctx, k.methods[short]):
                                nonnull.add(n)
                            break
                if "_integer." in nm and int_nonnull:
                    nonnull.add(n)
            elif short == "bind_processor" and f.key in BIND_PROC_AS_SANITISER:
                procs[n] = nm
        elif isinstance(v, ast.Name) and v.id in procs:
            procs[n] = procs[v.id]
            if v.id in nonnull:
                nonnull.add(n)
        elif isinstance(v, ast.Name) and v.id in hooks:
            hooks.add(n)
        elif isinstance(v, ast.Attribute) and v.attr in ("process_literal_param", "process_bind_param"):
            hooks.add(n)
    # parameters that are processors (helper functions such as PG JSONPathType._processor(dialect, super_proc))
    for p in f.params:
        if p.endswith("_proc") or p in ("super_proc", "item_proc"):
            procs[p] = "param"
            if p in param_nonnull:
                nonnull.add(p)
    # early `if P is None: return None` makes P non-null afterwards
    for st in f.node.body:
        if isinstance(st, ast.If) and isinstance(st.test, ast.Compare) and isinstance(st.test.left, ast.Name) \
                and isinstance(st.test.ops[0], ast.Is) and isinstance(st.test.comparators[0], ast.Constant) \
                and st.test.comparators[0].value is None and any(isinstance(s, ast.Return) for s in st.body):
            nonnull.add(st.test.left.id)
    inner = [n for n in ast.walk(f.node) if isinstance(n, ast.FunctionDef) and n is not f.node and n.name.startswith("process")]
    for i, fn in enumerate(inner):
        it = _Interp(ctx, f, fn, procs, nonnull, hooks)
        it.run()
        key = f"{f.key}:process#{i}" if len(inner) > 1 else f"{f.key}:process"
        if not it.returns:
            yield key, True, "no return (raises)", f"{f.module.path}:{fn.lineno}"
            continue
        worst = min(it.returns, key=lambda r: r[0])
        lv, node, _ = worst
        if lv == SAFE:
            yield key, True, f"{len(it.returns)} return(s), every value-derived part sanitised", f"{f.module.path}:{fn.lineno}"
        else:
            hooked = f.key in USER_HOOK and any(
                isinstance(n, ast.Call) and isinstance(n.func, ast.Name) and n.func.id in hooks for n in ast.walk(node))
            if hooked:
                yield key, True, "exception: " + USER_HOOK[f.key], f"{f.module.path}:{fn.lineno}"
            else:
                yield key, False, (
                    f"`{unparse(node)[:90]}` returns text in which the processed value is {NAMES[lv]}"
                    + (" but not wrapped in quotes" if lv == QSAFE else
                       ": it reaches the SQL string without quote doubling / numeric conversion / delegation to a literal processor")
                    + ("".join(f"; the validation by a regular expression does not establish a numeric literal: {w}" for w in it.weak[:2]))
                ), f"{f.module.path}:{node.lineno}"
    # delegation in the outer function itself: `return self._literal_processor_x(dialect)` / `self._processor(...)`
    for r in returns_of(f.node):
        v = r.value
        if isinstance(v, ast.Call) and isinstance(v.func, ast.Attribute) and isinstance(v.func.value, ast.Name) \
                and v.func.value.id == "self" and f.cls is not None:
            tgt = ctx.index.resolve_method(f.cls, v.func.attr)
            if tgt is None:
                # mixin helper defined on a sibling base: search subclasses' MROs
                for sc in ctx.index.subclasses(f.cls):
                    tgt = ctx.index.resolve_method(sc, v.func.attr)
                    if tgt is not None:
                        break
            if tgt is not None and tgt.node is not f.node:
                # processor arguments handed to the helper: non-null when they come from the String family
                pn = set()
                tparams = [p for p in tgt.params if p not in ("self", "cls")]
                for i, a in enumerate(v.args):
                    if isinstance(a, ast.Call) and (call_name(a) or "").rsplit(".", 1)[-1] == "string_literal_processor" \
                            and string_nonnull and i < len(tparams):
                        pn.add(tparams[i])
                yield from _analyse_outer(ctx, tgt, string_nonnull, int_nonnull, seen, pn)


@R.rule("C05-R1", floor=30, template="T-FLOW",
        desc="in every literal processor the value reaches the returned SQL only through an enumerated sanitiser")
def r1(ctx):
    string_nonnull = _string_family_never_none(ctx)
    integer = ctx.index.cls("sql/sqltypes.py::Integer")
    int_nonnull = all(
        _never_none(ctx, ctx.index.resolve_method(c, "literal_processor")) for c in [integer] + ctx.index.subclasses(integer)
    )
    ctx.check(string_nonnull, "sql/sqltypes.py::String.literal_processor:never-None",
              "a String literal_processor implementation can return None (guarded delegations `if proc:` would fall "
              "through to the raw value)", "String family always returns a processor")
    seen = set()
    n = 0
    for f in sorted(ctx.index.all_functions(), key=lambda x: x.key):
        if f.name != "literal_processor" or f.module.relpath.startswith("testing") or f.is_overload or f.type_only:
            continue
        for key, ok, msg, loc in _analyse_outer(ctx, f, string_nonnull, int_nonnull, seen):
            n += 1
            ctx.check(ok, key, msg, msg, loc)
    ctx.require(n >= 25, f"only {n} literal processor closures analysed")


# ---------------------------------------------------------------------- small propositional helper
_NEG_CMP = {ast.IsNot: ast.Is, ast.NotEq: ast.Eq, ast.NotIn: ast.In}


def _bool_leaves(test: ast.expr, subst: Optional[Dict[str, ast.expr]] = None, out=None) -> List[str]:
    """Leaf propositions (normalised text) of the and/or/not skeleton of a condition.  `x is not y`,
    `x != y`, `x not in y` are the negations of the leaves `x is y`, `x == y`, `x in y`.  A bare local name
    that is bound exactly once in the function (`subst`) stands for the expression it was bound to."""
    out = [] if out is None else out
    if isinstance(test, ast.UnaryOp) and isinstance(test.op, ast.Not):
        return _bool_leaves(test.operand, subst, out)
    if isinstance(test, ast.BoolOp):
        for v in test.values:
            _bool_leaves(v, subst, out)
        return out
    if subst and isinstance(test, ast.Name) and test.id in subst:
        return _bool_leaves(subst[test.id], subst, out)
    if isinstance(test, ast.Constant):
        return out
    if isinstance(test, ast.Compare) and len(test.ops) == 1 and type(test.ops[0]) in _NEG_CMP:
        test = ast.Compare(left=test.left, ops=[_NEG_CMP[type(test.ops[0])]()], comparators=test.comparators)
    t = unparse(test)
    if t not in out:
        out.append(t)
    return out


def _bool_eval(test: ast.expr, asg: Dict[str, bool], subst: Optional[Dict[str, ast.expr]] = None) -> bool:
    if isinstance(test, ast.UnaryOp) and isinstance(test.op, ast.Not):
        return not _bool_eval(test.operand, asg, subst)
    if isinstance(test, ast.BoolOp):
        vals = [_bool_eval(v, asg, subst) for v in test.values]
        return all(vals) if isinstance(test.op, ast.And) else any(vals)
    if subst and isinstance(test, ast.Name) and test.id in subst:
        return _bool_eval(subst[test.id], asg, subst)
    if isinstance(test, ast.Constant):
        return bool(test.value)
    if isinstance(test, ast.Compare) and len(test.ops) == 1 and type(test.ops[0]) in _NEG_CMP:
        pos = ast.Compare(left=test.left, ops=[_NEG_CMP[type(test.ops[0])]()], comparators=test.comparators)
        return not asg[unparse(pos)]
    return asg[unparse(test)]


def _assignments(leaves: List[str]):
    import itertools
    for bits in itertools.product((False, True), repeat=len(leaves)):
        yield dict(zip(leaves, bits))


def _single_bindings(fn: ast.AST) -> Dict[str, ast.expr]:
    """Local names bound exactly once in the function by a plain `name = <expr>` (aliases of a condition)."""
    seen: Dict[str, List] = {}
    for n, v, st in name_stores(fn, into_nested=False):
        seen.setdefault(n, []).append(v)
    params = {a.arg for a in fn.args.args + fn.args.kwonlyargs + fn.args.posonlyargs} if hasattr(fn, "args") else set()
    return {n: vs[0] for n, vs in seen.items() if len(vs) == 1 and vs[0] is not None and n not in params
            and isinstance(vs[0], (ast.Attribute, ast.Compare, ast.BoolOp, ast.UnaryOp))}


def _outcome_implies(guards: List[Tuple[ast.expr, bool]], subst, holds) -> bool:
    """Do the branch outcomes `guards` (a conjunction of (test, outcome)) imply `holds(assignment)` -- for every
    truth assignment of the leaf propositions under which all tests take the given outcome?"""
    leaves: List[str] = []
    for t, pol in guards:
        _bool_leaves(t, subst, leaves)
    if len(leaves) > 12:
        return False
    for asg in _assignments(leaves):
        if all(_bool_eval(t, asg, subst) == pol for t, pol in guards) and not holds(asg):
            return False
    return True


def _is_backslash_doubling(cc: ast.Call) -> bool:
    return (call_name(cc) or "").endswith(".replace") and len(cc.args) == 2 and isinstance(cc.args[0], ast.Constant) \
        and cc.args[0].value == "\\" and isinstance(cc.args[1], ast.Constant) and cc.args[1].value == "\\\\"


def _doubling_receiver(ctx, f: FuncInfo, cc: ast.Call) -> Optional[ast.expr]:
    """The text whose backslashes `cc` doubles: the receiver of `X.replace("\\", "\\\\")`, or the argument of a
    helper (method of the compiler / module-level function) with one text parameter all of whose returns are that
    parameter with its backslashes doubled.  None: not a doubling."""
    if _is_backslash_doubling(cc):
        return cc.func.value
    tgt, skip = None, 0
    if isinstance(cc.func, ast.Attribute) and isinstance(cc.func.value, ast.Name) and cc.func.value.id in ("self", "cls") \
            and f.cls is not None:
        tgt = ctx.index.resolve_method(f.cls, cc.func.attr)
        skip = 0 if tgt is not None and any("staticmethod" in d for d in tgt.decorators) else 1
    elif isinstance(cc.func, ast.Name):
        r = ctx.index.resolve(f.module, cc.func.id)
        tgt = r if isinstance(r, FuncInfo) and r.cls is None else None
    if tgt is None or tgt.node is f.node or len(cc.args) != 1 or cc.keywords:
        return None
    params = [a.arg for a in tgt.node.args.posonlyargs + tgt.node.args.args][skip:]
    rets = returns_of(tgt.node)
    if len(params) != 1 or not rets:
        return None
    for r in rets:
        v = r.value
        if not (isinstance(v, ast.Call) and _is_backslash_doubling(v) and isinstance(v.func.value, ast.Name) and v.func.value.id == params[0]):
            return None
    if any(n == params[0] for n, _v, _st in name_stores(tgt.node)):
        return None
    return cc.args[0]


def _check_backslash_override(ctx, f: FuncInfo) -> Tuple[bool, str, Optional[List[str]]]:
    """`render_literal_value` of a dialect with backslash escapes.  Necessary clauses:
      (a) every path that obtains the generic rendering from super() reaches the normal exit through the
          backslash doubling -- the only branch outcomes that may bypass it are those that imply that
          `_backslash_escapes` is false or that the rendered text contains no backslash;
      (b) the doubling is applied to the text returned by super() (not to the Python value), after that call;
      (c) what is returned afterwards is the doubled text."""
    from ..astutil import own_exprs
    g = ctx.cfg(f)
    fn = f.node
    subst = _single_bindings(fn)
    sup = g.find_calls("render_literal_value")
    sup = [s for s in sup if any((call_name(c) or "").startswith("super().") for part in own_exprs(g.nodes[s].stmt)
                                 for c in calls_in(part))] if sup else []
    def doubled(cc):
        return _doubling_receiver(ctx, f, cc)

    rep = [n.id for n in g.nodes if n.stmt is not None and isinstance(n.stmt, ast.stmt) and n.kind == "stmt" and any(
        doubled(cc) is not None for part in own_exprs(n.stmt) for cc in calls_in(part))]
    if not sup:
        return False, "does not call super().render_literal_value()", None
    if not rep:
        return False, "does not double backslashes", None

    # receiver of the doubling / where its result goes
    recv_names, result_names = set(), set()
    for r in rep:
        st = g.nodes[r].stmt
        for part in own_exprs(st):
            for cc in calls_in(part):
                if doubled(cc) is not None:
                    rv = doubled(cc)
                    if isinstance(rv, ast.Name):
                        recv_names.add(rv.id)
                    elif not (isinstance(rv, ast.Call) and (call_name(rv) or "").startswith("super().")):
                        return False, f"backslash doubling applied to `{unparse(rv)[:50]}`, not to the text rendered by super()", None
        if isinstance(st, ast.Assign) and len(st.targets) == 1 and isinstance(st.targets[0], ast.Name):
            result_names.add(st.targets[0].id)
        elif isinstance(st, ast.Return):
            pass
        else:
            return False, f"result of the backslash doubling is discarded (`{unparse(st)[:60]}`)", None

    def flag_leaf(t: str) -> bool:
        return t.endswith("._backslash_escapes") or t == "_backslash_escapes"

    def text_leaf(t: str) -> bool:
        return any(t == f"'\\\\' in {n}" for n in recv_names)

    def bypass_ok(test: ast.expr, outcome: bool) -> bool:
        return _outcome_implies(
            [(test, outcome)], subst,
            lambda asg: any((flag_leaf(k) or text_leaf(k)) and v is False for k, v in asg.items()))

    def edge_ok(a, b, lab):
        if lab == "exc":
            return False
        n = g.nodes[a]
        if n.kind == "test" and lab in ("true", "false") and bypass_ok(n.stmt.test, lab == "true"):
            return False
        return True

    # (b) the receiver holds the super() rendering
    for nm in recv_names:
        stores = [(v, st) for n, v, st in name_stores(fn, into_nested=False) if n == nm]
        for v, st in stores:
            from_super = isinstance(v, ast.Call) and (call_name(v) or "").startswith("super().") and \
                (call_name(v) or "").endswith("render_literal_value")
            rv_ = doubled(v) if isinstance(v, ast.Call) else None
            from_self = (isinstance(v, ast.Call) and isinstance(v.func, ast.Attribute) and isinstance(v.func.value, ast.Name)
                         and v.func.value.id in recv_names and v.func.attr == "replace") or \
                (isinstance(rv_, ast.Name) and rv_.id in recv_names)
            if not (from_super or from_self):
                return False, (f"backslash doubling is applied to `{nm}`, which is also bound to `{unparse(v)[:50] if v is not None else '?'}` "
                               f"(not the text rendered by super())"), None
        if not any(isinstance(v, ast.Call) and (call_name(v) or "").startswith("super().") for v, st in stores):
            return False, f"backslash doubling is applied to `{nm}`, which is not the text rendered by super() (e.g. the Python value)", None
    for r in rep:
        w = g.always_preceded(r, sup)
        if w is not None:
            return False, "backslash doubling can run before / without the generic rendering by super()", w
    # (a) no bypass while the flag may be set
    live = g.reachable([g.entry], edge_ok=edge_ok)
    for s in sup:
        if s in rep or s not in live:
            continue
        w = g.must_pass([s], [g.exit], rep, edge_ok=edge_ok)
        if w is not None:
            tests = [unparse(g.nodes[a].stmt.test)[:80] for a in g.reachable([s], avoid=rep, edge_ok=edge_ok)
                     if g.nodes[a].kind == "test"]
            return False, ("the text rendered by super() can be returned without backslash doubling although "
                           "_backslash_escapes may be set"
                           + (f": the doubling is additionally conditioned by `{tests[0]}`, which does not follow from "
                              f"the flag (the rendered text of any value type can contain a backslash)" if tests else "")), w
    # (c) the doubled text is what is returned
    after = g.reachable(rep, edge_ok=lambda a, b, lab: lab != "exc")
    for nid in after:
        st = g.nodes[nid].stmt
        if isinstance(st, ast.Return) and nid not in rep:
            ok = isinstance(st.value, ast.Name) and st.value.id in (result_names | recv_names) and st.value.id in result_names
            if not ok:
                return False, f"after doubling the backslashes `{unparse(st)[:60]}` returns something else", None
    # the flag must be consulted at all (doubling unconditionally would corrupt literals when the flag is off)
    for r in rep:
        gs = g.edge_guards(r)
        if not _outcome_implies(gs, subst, lambda asg: any(flag_leaf(k) and v is True for k, v in asg.items())):
            return False, "backslash doubling is not conditioned on _backslash_escapes", None
    return True, "super() rendering -> doubling under the flag on every path -> returned", None


@R.rule("C05-R2", floor=6, template="T-SIBLING",
        desc="dialects with backslash escapes double backslashes in the text rendered by super(), for every value, "
             "on every path where the flag can be set; the percent-doubling sites agree")
def r2(ctx):
    # every dialect class that assigns _backslash_escapes must have a compiler overriding render_literal_value
    for c in ctx.index.all_classes():
        if "_backslash_escapes" in c.assigns and c.module.relpath.startswith("dialects/"):
            comp_cls = None
            for k in ctx.index.mro(c):
                if "statement_compiler" in k.assigns:
                    r = ctx.index.resolve(k.module, unparse(k.assigns["statement_compiler"][-1]))
                    if isinstance(r, ClassInfo):
                        comp_cls = r
                    break
            ctx.require(comp_cls is not None, f"cannot resolve statement_compiler of {c.key}")
            f = comp_cls.methods.get("render_literal_value")
            key = f"{comp_cls.key}.render_literal_value"
            if f is None:
                ctx.violation(key, f"{c.name} supports backslash escapes but its compiler does not override "
                                   f"render_literal_value: a `\\'` in a string literal would end the literal", comp_cls.loc)
                continue
            ctx.functions_analysed.add(f.key)
            ok, why, witness = _check_backslash_override(ctx, f)
            ctx.check(ok, key, f"{comp_cls.name}.render_literal_value: {why}", why, f.loc, witness)
    # percent doubling sites
    sites = [
        ("sql/sqltypes.py::String.literal_processor", "string literals"),
        ("sql/compiler.py::SQLCompiler.escape_literal_column", "literal columns"),
        ("sql/compiler.py::SQLCompiler.post_process_text", "text()"),
        ("sql/compiler.py::IdentifierPreparer._escape_identifier", "identifiers"),
    ]
    for key, what in sites:
        f = ctx.func(key)
        ok = _percent_doubled_under_flag(ctx, f)
        ctx.check(ok, key + ":double-percents", f"{what}: `%` is not doubled under _double_percents (pyformat/format "
                                                f"drivers would treat it as a placeholder)", "doubles % under the flag", f.loc)


def _percent_doubled_under_flag(ctx, f: FuncInfo) -> bool:
    """Is there a `.replace("%", "%%")` in `f` (or in a closure defined in it) that runs exactly under a positive
    outcome of the `_double_percents` flag?  The condition is read from the enclosing if / ternary / `and` structure
    AND from the dominating branch outcomes of the CFG (early returns, inverted tests), after substituting
    single-assignment aliases of the flag."""
    from ..astutil import enclosing_stmt, guard_atoms, lexical_guards
    from . import _helpers_rob_c3 as RC
    pm = f.module.parents()
    subst = RC.pure_alias_bindings(f.node)
    scopes = [f.node] + [n for n in ast.walk(f.node) if isinstance(n, (ast.FunctionDef, ast.Lambda)) and n is not f.node]
    for scope in scopes:
        if not isinstance(scope, ast.Lambda):
            subst = dict(subst, **RC.pure_alias_bindings(scope))
    for cc in calls_in(f.node, into_nested=True):
        if not ((call_name(cc) or "").endswith(".replace") and len(cc.args) == 2
                and isinstance(cc.args[0], ast.Constant) and cc.args[0].value == "%"
                and isinstance(cc.args[1], ast.Constant) and cc.args[1].value == "%%"):
            continue
        # innermost function scope of the call
        scope = f.node
        cur = cc
        while cur is not None and cur is not f.node:
            cur = pm.get(cur)
            if isinstance(cur, (ast.FunctionDef, ast.AsyncFunctionDef)):
                scope = cur
                break
        guards = [(RC.substitute(t, subst), pol) for t, pol in lexical_guards(pm, cc, stop=scope)]
        st = enclosing_stmt(pm, cc)
        if st is not None:
            g = ctx.cfg(scope)
            for nid in g.nodes_for(st)[:1]:
                guards += [(RC.substitute(t, subst), pol) for t, pol in g.edge_guards(nid)]
        if any(a.endswith("_double_percents") and pol for a, pol in guard_atoms(guards)):
            return True
    return False


def _is_compile_error(ctx, f: FuncInfo, e: ast.expr, depth=0) -> bool:
    """Is the raised expression a CompileError -- constructed in place, or by a helper (method of the compiler /
    module-level function) all of whose returns construct one?"""
    if isinstance(e, ast.Call):
        nm = call_name(e) or ""
        if nm.rsplit(".", 1)[-1] == "CompileError":
            return True
        tgt = None
        if isinstance(e.func, ast.Attribute) and isinstance(e.func.value, ast.Name) and e.func.value.id in ("self", "cls") \
                and f.cls is not None:
            tgt = ctx.index.resolve_method(f.cls, e.func.attr)
        elif isinstance(e.func, ast.Name):
            r = ctx.index.resolve(f.module, e.func.id)
            tgt = r if isinstance(r, FuncInfo) else None
        if tgt is not None and depth < 2:
            rets = [r.value for r in returns_of(tgt.node)]
            return bool(rets) and all(v is not None and _is_compile_error(ctx, tgt, v, depth + 1) for v in rets)
    return False


def _processor_names(fn: ast.AST) -> set:
    """Locals of `fn` that hold the type's literal processor: bound from a call of one of PROC_SOURCES, or an
    alias of such a local."""
    names: set = set()
    stores = sorted(name_stores(fn, into_nested=False), key=lambda x: (x[2].lineno, x[2].col_offset))
    for n, v, st in stores + stores:
        if isinstance(v, ast.Call) and (call_name(v) or "").rsplit(".", 1)[-1] in PROC_SOURCES:
            names.add(n)
        elif isinstance(v, ast.Name) and v.id in names:
            names.add(n)
        elif isinstance(v, ast.NamedExpr):
            pass
    for n in ast.walk(fn):
        if isinstance(n, ast.NamedExpr) and isinstance(n.target, ast.Name) and isinstance(n.value, ast.Call) \
                and (call_name(n.value) or "").rsplit(".", 1)[-1] in PROC_SOURCES:
            names.add(n.target.id)
    return names


@R.rule("C05-R3", floor=3, template="T-PATH",
        desc="render_literal_value: NULL keyword for None before any processor; the processor is applied only where it "
             "is known to exist; without a processor every path raises CompileError; nothing else is rendered")
def r3(ctx):
    from ..astutil import own_exprs
    from . import _helpers_rob_c3 as RC
    f = ctx.func("sql/compiler.py::SQLCompiler.render_literal_value")
    g = ctx.cfg(f)
    pnames = _processor_names(f.node)
    ctx.require(pnames, "render_literal_value no longer obtains a literal processor from the type")

    def proc_calls_in(node):
        return [c for c in calls_in(node) if isinstance(c.func, ast.Name) and c.func.id in pnames]

    proc_nodes = [n.id for n in g.nodes if n.stmt is not None and n.kind in ("stmt", "test")
                  and any(proc_calls_in(part) for part in own_exprs(n.stmt))]
    ctx.require(proc_nodes, "render_literal_value no longer applies the literal processor to the value")
    pcall = [c for part in own_exprs(g.nodes[proc_nodes[0]].stmt) for c in proc_calls_in(part)][0]
    ctx.require(pcall.args and isinstance(pcall.args[0], ast.Name), "processor(...) is not called with the value parameter")
    vname = pcall.args[0].id
    handle = _type_handle(f, vname)
    ctx.require(handle is not None, "render_literal_value: no type parameter found for the value")
    subst = RC.pure_alias_bindings(f.node)
    # the truth of `P` / `P is None` for the processor local P (aliases of P share the leaf of the first name)
    canon = sorted(pnames)[0]

    class _Canon(ast.NodeTransformer):
        def visit_Name(self, node):
            return ast.copy_location(ast.Name(id=canon, ctx=node.ctx), node) if node.id in pnames else node

        def visit_NamedExpr(self, node):
            if isinstance(node.target, ast.Name) and node.target.id in pnames:
                return ast.copy_location(ast.Name(id=canon, ctx=ast.Load()), node)
            return self.generic_visit(node)

    def norm(test):
        import copy
        return ast.fix_missing_locations(_Canon().visit(copy.deepcopy(RC.substitute(test, subst))))

    def satisfiable_with(fixed):
        def satisfiable(test, outcome):
            test = norm(test)
            leaves = _bool_leaves(test)
            free = [l for l in leaves if l not in fixed]
            if len(free) > 12:
                return True
            for asg in _assignments(free):
                asg.update({k: v for k, v in fixed.items() if k in leaves})
                if _bool_eval(test, asg) == outcome:
                    return True
            return False

        def edge_ok(a, b, lab):
            n = g.nodes[a]
            if n.kind == "test" and lab in ("true", "false"):
                return satisfiable(n.stmt.test, lab == "true")
            return lab != "exc"
        return edge_ok

    # (a) processor(value) must not be reachable for `value is None` unless the type evaluates None itself:
    #     follow only branch outcomes that are satisfiable together with  value is None  and
    #     not <type>.should_evaluate_none  (the other leaf propositions are free).
    none_world = satisfiable_with({f"{vname} is None": True, vname: False, f"{handle}.should_evaluate_none": False,
                                   f"{handle} is None": False})
    w = g.witness([g.entry], proc_nodes, edge_ok=none_world)
    ctx.check(w is None, f.key + ":none-first", "processor(value) is reachable for value None although the type does not "
                                                 "evaluate None (NULL must be rendered by the compiler)",
              "None handled before the processor (unless the type evaluates None)", f.loc,
              None if w is None else g.describe_path(w))
    # (b) the processor is applied only where the dominating branch outcomes imply that it exists
    #     (`if processor:` / `if not processor: raise` / `if processor is None: raise` / nested / early return)
    unguarded = []
    for nid in proc_nodes:
        guards = [(norm(t), pol) for t, pol in g.edge_guards(nid)]
        if not _outcome_implies(guards, None, lambda asg: asg.get(canon) is True or asg.get(f"{canon} is None") is False):
            unguarded.append(nid)
    ctx.check(not unguarded, f.key + ":processor-guard",
              "processor(value) is applied on a path on which the type may have no literal processor (None is called)",
              "applied only where the processor exists", f.loc)
    # (c) only processor(value) / the NULL rendering are returned (directly or through a local that holds nothing
    #     else); where no processor exists, every path ends in `raise CompileError`
    def rendered_ok(e, depth=0):
        if e is None:
            return False
        if isinstance(e, ast.Call) and isinstance(e.func, ast.Name) and e.func.id in pnames:
            return True
        if _is_null_rendering(ctx, f.module, e, f.cls):
            return True
        if isinstance(e, ast.Name) and depth < 3:
            vals = [v for n, v, st in name_stores(f.node, into_nested=False) if n == e.id]
            return bool(vals) and all(rendered_ok(v, depth + 1) for v in vals)
        if isinstance(e, ast.IfExp):
            return rendered_ok(e.body, depth) and rendered_ok(e.orelse, depth)
        return False

    bad = [unparse(r.value)[:60] if r.value is not None else "None" for r in returns_of(f.node) if not rendered_ok(r.value)]
    pstores = [nid for n, v, st in name_stores(f.node, into_nested=False) if n in pnames and isinstance(st, ast.stmt)
               for nid in g.nodes_for(st)] + \
        [n.id for n in g.nodes if n.stmt is not None and n.kind in ("stmt", "test") and any(
            isinstance(x, ast.NamedExpr) and isinstance(x.target, ast.Name) and x.target.id in pnames
            for part in own_exprs(n.stmt) for x in ast.walk(part))]
    ctx.require(pstores, "render_literal_value: the statement that obtains the processor was not located in the CFG")
    no_proc_world = satisfiable_with({canon: False, f"{canon} is None": True})
    reach = g.reachable(pstores, edge_ok=no_proc_world)
    falls_out = g.exit in reach
    raises = [g.nodes[i].stmt for i in reach if isinstance(g.nodes[i].stmt, ast.Raise) and g.nodes[i].stmt.exc is not None]
    compile_error = any(_is_compile_error(ctx, f, r.exc) for r in raises)
    ctx.check(not bad and not falls_out and compile_error, f.key + ":no-fallback",
              f"render_literal_value has a fall-through rendering {bad} / returns without a processor, or raises no "
              f"CompileError for a missing processor",
              "only processor(value) / NULL are rendered; CompileError otherwise", f.loc)


# ---------------------------------------------------------------------- None -> SQL NULL short-circuits
def _is_null_rendering(ctx, mod, e: Optional[ast.expr], cls=None, depth=0) -> bool:
    """Does the returned expression stand for the SQL NULL keyword / Null() element?  (A parameterless helper
    method of the same class all of whose returns are the NULL rendering counts as one.)"""
    if e is None:
        return False
    if isinstance(e, ast.Call) and isinstance(e.func, ast.Attribute) and isinstance(e.func.value, ast.Name) \
            and e.func.value.id in ("self", "cls") and cls is not None and depth < 2 and e.func.attr != "process":
        tgt = ctx.index.resolve_method(cls, e.func.attr)
        if tgt is not None:
            rets = [r.value for r in returns_of(tgt.node)]
            return bool(rets) and all(_is_null_rendering(ctx, tgt.module, v, tgt.cls, depth + 1) for v in rets)
        return False
    if isinstance(e, ast.Constant):
        return e.value == "NULL"
    if isinstance(e, ast.Call):
        nm = call_name(e) or ""
        if "()" not in nm and nm:
            r = ctx.index.resolve(mod, nm)
            if isinstance(r, ClassInfo) and r.key == "sql/elements.py::Null":
                return True
            if isinstance(r, FuncInfo) and r.cls is not None and r.cls.key == "sql/elements.py::Null":
                return True
            if isinstance(r, FuncInfo) and r.key == "sql/_elements_constructors.py::null":
                return True
        if nm.rsplit(".", 1)[-1] == "process" and e.args:
            return _is_null_rendering(ctx, mod, e.args[0], cls, depth)
        return False
    if isinstance(e, (ast.Name, ast.Attribute)):
        d = dotted(e) or ""
        if d and "()" not in d:
            r = ctx.index.resolve(mod, d)
            if isinstance(r, tuple) and r[0] == "value" and r[2] == "NULLTYPE":
                return True
    return False


def _type_handle(f: FuncInfo, v_text: str) -> Optional[str]:
    """The expression through which `f` can see the SQL type of the value `v_text`:
    `P.type` for a value `P.value`/`P.effective_value` when f reads P.type; a parameter annotated as / named like
    a TypeEngine for a value that is itself a parameter.  None: an untyped constant coercion (not in the family)."""
    a = f.node.args
    allargs = a.posonlyargs + a.args + a.kwonlyargs
    if "." in v_text:
        base, attr = v_text.rsplit(".", 1)
        if attr in ("value", "effective_value") and base in {x.arg for x in allargs}:
            for n in ast.walk(f.node):
                if isinstance(n, ast.Attribute) and n.attr == "type" and dotted(n.value) == base:
                    return base + ".type"
        return None
    if v_text not in {x.arg for x in allargs}:
        return None
    for x in allargs:
        ann = unparse(x.annotation) if x.annotation is not None else ""
        if x.arg != v_text and ("TypeEngine" in ann or x.arg in ("type_", "param_type")):
            return x.arg
    return None


@R.rule("C05-R4", floor=3, template="T-SIBLING",
        desc="every site that short-circuits a typed None value to the SQL NULL keyword / Null() does so only when "
             "the type does not evaluate None itself (`not <type>.should_evaluate_none`), as the bound path does")
def r4(ctx):
    from ..astutil import test_atoms
    from . import _helpers_rob_c3 as RC
    mods = [m for m in ctx.index.all_modules() if m.relpath.startswith(("sql/", "dialects/", "engine/", "orm/"))]
    ctx.require(len(mods) >= 100, f"only {len(mods)} modules in scope")
    n_sites = 0
    for m in mods:
        for f in sorted(ctx.index.all_functions(m), key=lambda x: x.key):
            if f.type_only or f.is_overload:
                continue
            rets = [r for r in returns_of(f.node) if _is_null_rendering(ctx, m, r.value, f.cls)]
            if not rets:
                continue
            g = ctx.cfg(f)
            subst = _single_bindings(f.node)
            aliases = RC.pure_alias_bindings(f.node)
            for k, r in enumerate(rets):
                nodes = g.nodes_for(r)
                if not nodes:
                    continue
                guards = g.edge_guards(nodes[0])
                # value(s) whose None-ness is implied by the guards
                vs = []
                for t, pol in guards:
                    for atom, ap in test_atoms(RC.substitute(t, aliases), pol):
                        if ap and atom.endswith(" is None"):
                            vs.append(atom[: -len(" is None")])
                handle = None
                for v in vs:
                    handle = _type_handle(f, v)
                    if handle:
                        vname = v
                        break
                if not handle:
                    continue
                n_sites += 1
                ctx.functions_analysed.add(f.key)
                key = f"{f.key}:none-to-null" + (f"#{k}" if len(rets) > 1 else "")
                leaf = handle + ".should_evaluate_none"
                leaves: List[str] = []
                for t, pol in guards:
                    _bool_leaves(t, subst, leaves)
                respects = leaf in leaves and _outcome_implies(
                    guards, subst,
                    lambda asg: not (asg.get(leaf) is True and asg.get(handle + " is None", False) is False))
                ctx.check(
                    respects, key,
                    f"`{unparse(r)[:70]}` renders SQL NULL for `{vname} is None` without requiring "
                    f"`not {leaf}`: for a type that evaluates None (JSON null, evaluates_none(), a TypeDecorator "
                    f"mapping None) the bound parameter is processed by the type but the literal is NULL "
                    f"(guards: {[(unparse(t)[:60], p) for t, p in guards]})",
                    f"NULL short-circuit only when not {leaf}", f"{m.path}:{r.lineno}")
    ctx.require(n_sites >= 3, f"only {n_sites} typed None->NULL short-circuit sites found")


# ---------------------------------------------------------------------- the type handed to the literal renderer
def _unwrapping_accessors(ctx):
    """(attributes of a TypeDecorator that hold the type it wraps, methods of TypeDecorator that return it).
    Read off the class: the wrapped-type attributes are what `load_dialect_impl` -- the documented "which type do I
    wrap" hook -- returns off self, and whatever is assigned in one statement with them; an accessor *unwraps* when
    it is annotated to return a TypeEngine and one of its returns is computed from such an attribute or from
    `load_dialect_impl()` (and not from a copy of the decorator itself)."""
    from ._helpers_rob_c2 import Scope
    td = ctx.index.cls("sql/type_api.py::TypeDecorator")
    hook = td.methods.get("load_dialect_impl")
    ctx.require(hook is not None and hook.params, "TypeDecorator.load_dialect_impl vanished")
    me = hook.params[0]
    wrapped = {r.value.attr for r in returns_of(hook.node)
               if isinstance(r.value, ast.Attribute) and isinstance(r.value.value, ast.Name) and r.value.value.id == me}
    ctx.require(wrapped, "TypeDecorator.load_dialect_impl does not return an attribute of the decorator")
    grew = True
    while grew:
        grew = False
        for f in td.methods.values():
            for st in walk_stmts(f.node.body):
                if isinstance(st, ast.Assign) and len(st.targets) > 1:
                    attrs = {t.attr for t in st.targets if isinstance(t, ast.Attribute)}
                    if attrs & wrapped and not attrs <= wrapped:
                        wrapped |= attrs
                        grew = True
    unwrap = {hook.name}
    for nm, f in sorted(td.methods.items()):
        ann = unparse(f.node.returns) if f.node.returns is not None else ""
        if "TypeEngine" not in ann or nm in unwrap or f.type_only or f.is_overload:
            continue
        sc = Scope(ctx, f)
        for r in returns_of(f.node):
            if r.value is None:
                continue
            at = sc.node_of(r.value)
            if at is None:
                continue
            d = sc.deps(r.value, at)
            if any(a in d for a in [f"self.{w}" for w in wrapped] + ["call:self." + hook.name, "call:." + hook.name]) \
                    and not any(a.startswith("call:self._copy") or a.startswith("call:self.copy") for a in d):
                unwrap.add(nm)
    return wrapped, unwrap


def _helper_unwraps(ctx, sc, call, at, unwrap, wrapped, depth=0):
    """Unwrapping accessors on the provenance of what a same-module helper returns (followed two levels)."""
    from ._helpers_rob_c2 import Scope
    tgt = sc.resolve_callee(call, at)
    if tgt is None or depth > 1:
        return []
    hs = Scope(ctx, tgt)
    out = []
    for r in returns_of(tgt.node):
        if r.value is None:
            continue
        rat = hs.node_of(r.value)
        if rat is None:
            continue
        out += [a + f" (in {tgt.qualname})" for a in hs.deps(r.value, rat)
                if a.startswith("call:") and a.rsplit(".", 1)[-1] in unwrap]
        for x in [r.value] + [x for kind, x, _n in hs.origins(r.value, rat) if kind == "expr"]:
            for n in ast.walk(x):
                if isinstance(n, ast.Attribute) and n.attr in wrapped and not (
                        isinstance(n.value, ast.Name) and hs.is_self(n.value, rat)):
                    out.append(f"attribute .{n.attr} (in {tgt.qualname})")
                elif isinstance(n, ast.Call) and n is not r.value:
                    out += _helper_unwraps(ctx, hs, n, rat, unwrap, wrapped, depth + 1)
    return out


def _enclosing_comprehensions(pm, node, stop):
    out = []
    cur = pm.get(node)
    while cur is not None and cur is not stop:
        if isinstance(cur, (ast.ListComp, ast.SetComp, ast.GeneratorExp, ast.DictComp)):
            out.append(cur)
        cur = pm.get(cur)
    return list(reversed(out))


@R.rule("C05-R5", floor=25, template="T-FLOW (provenance of the type argument)",
        desc="the type handed to the literal renderer is the parameter's own type, the one whose bind processor "
             "processes the bound form: in every compiler class, the type argument of render_literal_value() (and the "
             "receiver of a literal-processor lookup) is never computed through an accessor that strips a "
             "TypeDecorator (`_unwrapped_dialect_impl`, `load_dialect_impl`, `.impl`, `.impl_instance` ...)")
def r5(ctx):
    from ._helpers_rob_c2 import Scope
    wrapped, unwrap = _unwrapping_accessors(ctx)
    ctx.ok("sql/type_api.py::TypeDecorator:unwrapping-accessors",
           f"wrapped-type attributes {sorted(wrapped)}; accessors returning the wrapped type {sorted(unwrap)}")
    roots = [ctx.index.cls("sql/compiler.py::Compiled"), ctx.index.cls("sql/compiler.py::TypeCompiler")]
    classes = []
    for rt in roots:
        for c in [rt] + ctx.index.subclasses(rt):
            if c not in classes and not c.module.relpath.startswith("testing"):
                classes.append(c)
    renderer = ctx.func("sql/compiler.py::SQLCompiler.render_literal_value")
    rparams = [p for p in renderer.params if p != "self"]
    ctx.require(len(rparams) >= 2, "render_literal_value no longer takes (value, type)")
    tparam = rparams[1]
    n_sites = 0
    for cls in sorted(classes, key=lambda c: c.key):
        for fn in sorted(cls.methods.values(), key=lambda f: f.key):
            if fn.type_only or fn.is_overload:
                continue
            sites = []  # (call, type expression, what)
            for c in calls_in(fn.node, into_nested=True):
                if not isinstance(c.func, ast.Attribute):
                    continue
                if c.func.attr == renderer.name:
                    t = c.args[1] if len(c.args) > 1 and not any(isinstance(a, ast.Starred) for a in c.args[:2]) else \
                        next((k.value for k in c.keywords if k.arg == tparam), None)
                    if t is not None:
                        sites.append((c, t, f"type argument of {renderer.name}()"))
                elif c.func.attr in ("_cached_literal_processor", "literal_processor") and fn.name != c.func.attr:
                    sites.append((c, c.func.value, f"receiver of .{c.func.attr}()"))
            if not sites:
                continue
            try:
                sc = Scope(ctx, fn)
            except Exception as e:  # pragma: no cover - CFG construction of an exotic function
                ctx.error(f"{fn.key}: cannot build a scope ({e})")
            pm = fn.module.parents()
            for k, (c, t, what) in enumerate(sites):
                at = sc.node_of(c)
                if at is None:
                    continue  # nested def: not part of this function's CFG
                n_sites += 1
                cenv = None
                for comp in _enclosing_comprehensions(pm, c, fn.node):
                    cenv = sc.comp_env(comp, at, False, cenv)
                deps = sc.deps(t, at, False, cenv)
                via = sorted(a for a in deps if a.startswith("call:") and a.rsplit(".", 1)[-1] in unwrap)
                # wrapped-type attributes read directly (or through getattr) in the expressions that define the
                # type argument; helpers called there are followed (also from inside a comprehension)
                exprs = [t] + [x for kind, x, _n in sc.origins(t, at) if kind == "expr"]
                for x in exprs:
                    for n in ast.walk(x):
                        if isinstance(n, ast.Attribute) and n.attr in wrapped and not (
                                isinstance(n.value, ast.Name) and sc.is_self(n.value, at)):
                            via.append("attribute ." + n.attr)
                        elif isinstance(n, ast.Call) and isinstance(n.func, ast.Name) and n.func.id == "getattr" \
                                and len(n.args) >= 2 and isinstance(n.args[1], ast.Constant) \
                                and n.args[1].value in (wrapped | unwrap):
                            via.append("attribute ." + str(n.args[1].value))
                        elif isinstance(n, ast.Call):
                            via.extend(_helper_unwraps(ctx, sc, n, at, unwrap, wrapped))
                key = f"{fn.key}:literal-type" + (f"#{k}" if len(sites) > 1 else "")
                ctx.check(
                    not via, key,
                    f"`{unparse(c)[:80]}`: the {what} `{unparse(t)[:60]}` is computed through {sorted(set(via))}, which "
                    f"strips a TypeDecorator (it yields the wrapped impl type): the literal is rendered without the "
                    f"decorator's process_literal_param / process_bind_param while the bound form of the same "
                    f"parameter is processed by them -- literal_binds / literal_execute and bound execution select "
                    f"different rows",
                    f"{what} `{unparse(t)[:50]}`: no unwrapping accessor on its provenance", f"{fn.module.path}:{c.lineno}")
    ctx.require(n_sites >= 20, f"only {n_sites} literal rendering sites found in the compiler classes")


# ---------------------------------------------------------------------- self-test battery
T = "sql/sqltypes.py"
R.mutant("string-no-quote-doubling", T, sub("    def literal_processor(self, dialect):\n        def process(value):\n            value = value.replace(\"'\", \"''\")\n\n            if dialect.identifier_preparer._double_percents:",
                                            "    def literal_processor(self, dialect):\n        def process(value):\n            if dialect.identifier_preparer._double_percents:"), "C05-R1")
R.mutant("integer-no-int", T, sub("            return str(int(value))", "            return str(value)"), "C05-R1")
R.mutant("numeric-no-validation", T, sub("            decimal.Decimal(value)\n            return str(value)", "            return str(value)"), "C05-R1")
R.mutant("binary-no-quote-doubling", T, sub("            ).replace(\"'\", \"''\")\n            return \"'%s'\" % value", "            )\n            return \"'%s'\" % value"), "C05-R1")
R.mutant("uuid-no-quote-doubling", T, sub("""return f\"\"\"'{value.replace("-", "").replace("'", "''")}'\"\"\"""", """return f\"\"\"'{value.replace("-", "")}'\"\"\""""), "C05-R1")
R.mutant("enum-skips-parent", T, sub("        parent_processor = super().literal_processor(dialect)\n\n        def process(value):\n            value = self._db_value_for_elem(value)\n            if parent_processor:\n                value = parent_processor(value)\n            return value",
                                     "        parent_processor = super().literal_processor(dialect)\n\n        def process(value):\n            value = self._db_value_for_elem(value)\n            return \"'%s'\" % value"), "C05-R1")
R.mutant("mssql-unicode-no-doubling", "dialects/mssql/base.py", sub("        def process(value):\n            value = value.replace(\"'\", \"''\")\n\n            if dialect.identifier_preparer._double_percents:\n                value = value.replace(\"%\", \"%%\")\n\n            return \"N'%s'\" % value",
                                                                  "        def process(value):\n            if dialect.identifier_preparer._double_percents:\n                value = value.replace(\"%\", \"%%\")\n\n            return \"N'%s'\" % value"), "C05-R1")
R.mutant("mysql-no-backslash-doubling", "dialects/mysql/base.py", sub("        if self.dialect._backslash_escapes:\n            value = value.replace(\"\\\\\", \"\\\\\\\\\")\n        return value\n\n    # override native_boolean",
                                                                      "        return value\n\n    # override native_boolean"), "C05-R2")
R.mutant("pg-backslash-before-super", "dialects/postgresql/base.py", sub("        value = super().render_literal_value(value, type_)\n\n        if self.dialect._backslash_escapes:\n            value = value.replace(\"\\\\\", \"\\\\\\\\\")\n        return value",
                                                                         "        if self.dialect._backslash_escapes:\n            value = value.replace(\"\\\\\", \"\\\\\\\\\")\n        return super().render_literal_value(value, type_)"), "C05-R2")
R.mutant("literal-column-no-percent", "sql/compiler.py", sub("    def escape_literal_column(self, text):\n        if self.preparer._double_percents:\n            text = text.replace(\"%\", \"%%\")\n        return text",
                                                            "    def escape_literal_column(self, text):\n        return text"), "C05-R2")
R.mutant("render-literal-str-fallback", "sql/compiler.py", sub("        else:\n            raise exc.CompileError(\n                f\"No literal value renderer is available for literal value \"",
                                                              "        elif isinstance(value, str):\n            return \"'%s'\" % value\n        else:\n            raise exc.CompileError(\n                f\"No literal value renderer is available for literal value \""), "C05-R3")
R.mutant("render-literal-none-after-processor", "sql/compiler.py", sub("        if value is None and not type_.should_evaluate_none:", "        if False and value is None and not type_.should_evaluate_none:"), "C05-R3")
R.mutant("benign-string-rename", T, sub("    def literal_processor(self, dialect):\n        def process(value):\n            value = value.replace(\"'\", \"''\")\n\n            if dialect.identifier_preparer._double_percents:\n                value = value.replace(\"%\", \"%%\")\n\n            return \"'%s'\" % value",
                                        "    def literal_processor(self, dialect):\n        def process(value):\n            v2 = value.replace(\"'\", \"''\")\n\n            if dialect.identifier_preparer._double_percents:\n                v2 = v2.replace(\"%\", \"%%\")\n\n            return \"'\" \"%s'\" % v2"), None)
R.mutant("benign-integer-local", T, sub("            return str(int(value))", "            n = int(value)\n            return str(n)"), None)
# -- seeds (independent adversarial patches, see /verif/seeded/C05_*) and neighbours
MY = "dialects/mysql/base.py"
_MY_OLD = "        value = super().render_literal_value(value, type_)\n        if self.dialect._backslash_escapes:\n            value = value.replace(\"\\\\\", \"\\\\\\\\\")\n        return value\n\n    # override native_boolean"
R.mutant("seed2-mysql-doubling-only-for-str-values", MY, sub(
    _MY_OLD,
    "        rendered = super().render_literal_value(value, type_)\n        if isinstance(value, str) and self.dialect._backslash_escapes:\n            rendered = rendered.replace(\"\\\\\", \"\\\\\\\\\")\n        return rendered\n\n    # override native_boolean"), "C05-R2")
R.mutant("mysql-doubling-result-discarded", MY, sub(
    _MY_OLD,
    "        value = super().render_literal_value(value, type_)\n        if self.dialect._backslash_escapes:\n            value.replace(\"\\\\\", \"\\\\\\\\\")\n        return value\n\n    # override native_boolean"), "C05-R2")
R.mutant("mysql-doubling-on-python-value", MY, sub(
    _MY_OLD,
    "        rendered = super().render_literal_value(value, type_)\n        if self.dialect._backslash_escapes and value is not None:\n            value = value.replace(\"\\\\\", \"\\\\\\\\\")\n        return rendered\n\n    # override native_boolean"), "C05-R2")
R.mutant("mysql-doubling-only-for-string-types", MY, sub(
    _MY_OLD,
    "        value = super().render_literal_value(value, type_)\n        if not type_._is_type_decorator and self.dialect._backslash_escapes:\n            value = value.replace(\"\\\\\", \"\\\\\\\\\")\n        return value\n\n    # override native_boolean"), "C05-R2")
R.mutant("benign-mysql-doubling-skipped-when-no-backslash", MY, sub(
    _MY_OLD,
    "        value = super().render_literal_value(value, type_)\n        if self.dialect._backslash_escapes and \"\\\\\" in value:\n            value = value.replace(\"\\\\\", \"\\\\\\\\\")\n        return value\n\n    # override native_boolean"), None)
R.mutant("benign-mysql-early-return-and-alias", MY, sub(
    _MY_OLD,
    "        rendered = super().render_literal_value(value, type_)\n        escapes = self.dialect._backslash_escapes\n        if not escapes:\n            return rendered\n        return rendered.replace(\"\\\\\", \"\\\\\\\\\")\n\n    # override native_boolean"), None)
_RLV_OLD = "        if value is None and not type_.should_evaluate_none:\n"
R.mutant("seed1-render-literal-value-null-for-evaluates-none", "sql/compiler.py", sub(_RLV_OLD, "        if value is None:\n"), "C05-R4")
R.mutant("literal-coercion-null-for-evaluates-none", "sql/coercions.py", sub(
    "            and not is_crud\n            and (type_ is None or not type_.should_evaluate_none)\n", "            and not is_crud\n"), "C05-R4")
R.mutant("render-literal-value-inverted-evaluates-none", "sql/compiler.py", sub(_RLV_OLD, "        if value is None and type_.should_evaluate_none:\n"), "C05-R4")
R.mutant("benign-render-literal-value-alias-nested", "sql/compiler.py", sub(
    _RLV_OLD + "            # issue #10535 - handle NULL in the compiler without placing\n            # this onto each type, except for \"evaluate None\" types\n            # (e.g. JSON)\n            return self.process(elements.Null._instance())\n",
    "        type_handles_none = type_.should_evaluate_none\n        if value is None:\n            if not type_handles_none:\n                return self.process(elements.Null._instance())\n"), None)

# ---------------------------------------------------------------------- rob-C3: robustness battery
# Behaviour-preserving refactoring families that must stay silent, and neighbours that must fire.
_RLV_TAIL_OLD = (
    "        processor = type_._cached_literal_processor(self.dialect)\n"
    "        if processor:\n"
    "            try:\n"
    "                return processor(value)\n"
    "            except Exception as e:\n"
    "                raise exc.CompileError(\n"
    "                    f\"Could not render literal value \"\n"
    "                    f'\"{sql_util._repr_single_value(value)}\" '\n"
    "                    f\"with datatype \"\n"
    "                    f\"{type_}; see parent stack trace for \"\n"
    "                    \"more detail.\"\n"
    "                ) from e\n"
    "\n"
    "        else:\n"
    "            raise exc.CompileError(\n"
    "                f\"No literal value renderer is available for literal value \"\n"
    "                f'\"{sql_util._repr_single_value(value)}\" '\n"
    "                f\"with datatype {type_}\"\n"
    "            )\n"
)
_RLV_NO_RENDERER = (
    "exc.CompileError(\n"
    "                f\"No literal value renderer is available for literal value \"\n"
    "                f'\"{sql_util._repr_single_value(value)}\" '\n"
    "                f\"with datatype {type_}\"\n"
    "            )\n"
)
_RLV_TRY = (
    "        try:\n"
    "            %s\n"
    "        except Exception as e:\n"
    "            raise exc.CompileError(\n"
    "                f\"Could not render literal value \"\n"
    "                f'\"{sql_util._repr_single_value(value)}\" '\n"
    "                f\"with datatype {type_}; see parent stack trace for more detail.\"\n"
    "            ) from e\n"
)
# family: inverted if/else + early raise (stored refactor rfC_14)
R.mutant("benign-rlv-guard-raise-then-try", "sql/compiler.py", sub(
    _RLV_TAIL_OLD,
    "        processor = type_._cached_literal_processor(self.dialect)\n"
    "        if not processor:\n            raise " + _RLV_NO_RENDERER + "\n" + _RLV_TRY % "return processor(value)"), None)
# family: `is None` test, renamed local, result through a local returned after the try
R.mutant("benign-rlv-is-none-raise-result-local", "sql/compiler.py", sub(
    _RLV_TAIL_OLD,
    "        literal_proc = type_._cached_literal_processor(self.dialect)\n"
    "        if literal_proc is None:\n            raise " + _RLV_NO_RENDERER + "\n" + _RLV_TRY % "rendered = literal_proc(value)"
    + "        return rendered\n"), None)
# family: alias of the processor + boolean local used as the guard
R.mutant("benign-rlv-alias-and-boolean-local", "sql/compiler.py", sub(
    _RLV_TAIL_OLD,
    "        processor = type_._cached_literal_processor(self.dialect)\n"
    "        proc = processor\n"
    "        has_renderer = proc is not None\n"
    "        if has_renderer:\n"
    "            try:\n"
    "                return proc(value)\n"
    "            except Exception as e:\n"
    "                raise exc.CompileError(\n"
    "                    f\"Could not render literal value with datatype {type_}\"\n"
    "                ) from e\n"
    "        raise " + _RLV_NO_RENDERER), None)
# family: walrus
R.mutant("benign-rlv-walrus", "sql/compiler.py", sub(
    _RLV_TAIL_OLD,
    "        if (processor := type_._cached_literal_processor(self.dialect)) is None:\n            raise " + _RLV_NO_RENDERER + "\n"
    + _RLV_TRY % "return processor(value)"), None)
# family: extracted helper that builds the error
R.mutant("benign-rlv-error-built-by-helper", "sql/compiler.py", chain(
    sub(_RLV_TAIL_OLD,
        "        processor = type_._cached_literal_processor(self.dialect)\n"
        "        if not processor:\n            raise self._no_literal_renderer(value, type_)\n\n" + _RLV_TRY % "return processor(value)"),
    sub("    def _truncate_bindparam(self, bindparam):\n",
        "    def _no_literal_renderer(self, value, type_):\n        return " + _RLV_NO_RENDERER.replace("\n    ", "\n") + "\n"
        "    def _truncate_bindparam(self, bindparam):\n")), None)
# breaking neighbours
R.mutant("rlv-processor-applied-without-guard", "sql/compiler.py",
         sub("        if processor:\n            try:\n                return processor(value)\n",
             "        if processor or value is not None:\n            try:\n                return processor(value)\n"), "C05-R3")
R.mutant("rlv-guard-on-the-wrong-polarity", "sql/compiler.py", sub(
    _RLV_TAIL_OLD,
    "        processor = type_._cached_literal_processor(self.dialect)\n"
    "        if processor:\n            raise " + _RLV_NO_RENDERER + "\n" + _RLV_TRY % "return processor(value)"), "C05-R3")
R.mutant("rlv-missing-processor-renders-null", "sql/compiler.py",
         sub("        else:\n            raise exc.CompileError(\n                f\"No literal value renderer is available for literal value \"\n"
             "                f'\"{sql_util._repr_single_value(value)}\" '\n                f\"with datatype {type_}\"\n            )\n",
             "        else:\n            return self.process(elements.Null._instance())\n"), "C05-R3")
R.mutant("rlv-missing-processor-falls-off", "sql/compiler.py",
         sub("        else:\n            raise exc.CompileError(\n                f\"No literal value renderer is available for literal value \"\n"
             "                f'\"{sql_util._repr_single_value(value)}\" '\n                f\"with datatype {type_}\"\n            )\n",
             "        else:\n            util.warn(\"No literal value renderer is available\")\n"), "C05-R3")

# -- R2 percent doubling: the flag may be aliased, tested negatively with an early return, or used in a ternary
_ELC_OLD = "    def escape_literal_column(self, text):\n        if self.preparer._double_percents:\n            text = text.replace(\"%\", \"%%\")\n        return text\n"
R.mutant("benign-percent-early-return", "sql/compiler.py", sub(
    _ELC_OLD, "    def escape_literal_column(self, text):\n        if not self.preparer._double_percents:\n            return text\n        return text.replace(\"%\", \"%%\")\n"), None)
R.mutant("benign-percent-ternary-alias", "sql/compiler.py", sub(
    _ELC_OLD, "    def escape_literal_column(self, text):\n        double = self.preparer._double_percents\n        return text.replace(\"%\", \"%%\") if double else text\n"), None)
R.mutant("percent-doubling-when-flag-off", "sql/compiler.py", sub(
    _ELC_OLD, "    def escape_literal_column(self, text):\n        if not self.preparer._double_percents:\n            text = text.replace(\"%\", \"%%\")\n        return text\n"), "C05-R2")
R.mutant("percent-doubling-early-return-inverted", "sql/compiler.py", sub(
    _ELC_OLD, "    def escape_literal_column(self, text):\n        if self.preparer._double_percents:\n            return text\n        return text.replace(\"%\", \"%%\")\n"), "C05-R2")

# -- R1: extracted helpers (local function, module-level function, method of the type) and early returns
_STR_OLD = ("    def literal_processor(self, dialect):\n        def process(value):\n            value = value.replace(\"'\", \"''\")\n\n"
            "            if dialect.identifier_preparer._double_percents:\n                value = value.replace(\"%\", \"%%\")\n\n"
            "            return \"'%s'\" % value\n\n        return process\n")
R.mutant("benign-string-quote-doubling-in-local-helper", T, sub(
    _STR_OLD,
    "    def literal_processor(self, dialect):\n        def _double_quotes(text):\n            return text.replace(\"'\", \"''\")\n\n"
    "        def process(value):\n            escaped = _double_quotes(value)\n            if not dialect.identifier_preparer._double_percents:\n"
    "                return \"'%s'\" % escaped\n            return \"'%s'\" % escaped.replace(\"%\", \"%%\")\n\n        return process\n"), None)
R.mutant("benign-string-quote-doubling-in-method", T, sub(
    _STR_OLD,
    "    @staticmethod\n    def _sql_quote(text):\n        doubled = text.replace(\"'\", \"''\")\n        return f\"'{doubled}'\"\n\n"
    "    def literal_processor(self, dialect):\n        double_percents = dialect.identifier_preparer._double_percents\n\n"
    "        def process(value):\n            if double_percents:\n                value = value.replace(\"%\", \"%%\")\n"
    "            return self._sql_quote(value)\n\n        return process\n"), None)
R.mutant("string-helper-without-quote-doubling", T, sub(
    _STR_OLD,
    "    @staticmethod\n    def _sql_quote(text):\n        return f\"'{text}'\"\n\n"
    "    def literal_processor(self, dialect):\n        def process(value):\n            if dialect.identifier_preparer._double_percents:\n"
    "                value = value.replace(\"%\", \"%%\")\n            return self._sql_quote(value)\n\n        return process\n"), "C05-R1")
R.mutant("string-local-helper-strips-instead-of-doubling", T, sub(
    _STR_OLD,
    "    def literal_processor(self, dialect):\n        def _double_quotes(text):\n            return text.strip(\"'\")\n\n"
    "        def process(value):\n            escaped = _double_quotes(value)\n            if dialect.identifier_preparer._double_percents:\n"
    "                escaped = escaped.replace(\"%\", \"%%\")\n            return \"'%s'\" % escaped\n\n        return process\n"), "C05-R1")

# -- R4: the NULL rendering through a helper method, the None test through a boolean local
R.mutant("benign-rlv-null-rendered-by-helper-and-boolean-local", "sql/compiler.py", chain(
    sub(_RLV_OLD + "            # issue #10535 - handle NULL in the compiler without placing\n            # this onto each type, except for \"evaluate None\" types\n            # (e.g. JSON)\n            return self.process(elements.Null._instance())\n",
        "        is_null = value is None\n        if is_null and not type_.should_evaluate_none:\n            return self._render_null_keyword()\n"),
    sub("    def _truncate_bindparam(self, bindparam):\n",
        "    def _render_null_keyword(self):\n        return self.process(elements.Null._instance())\n\n    def _truncate_bindparam(self, bindparam):\n")), None)
R.mutant("rlv-null-by-helper-for-evaluates-none", "sql/compiler.py", chain(
    sub(_RLV_OLD + "            # issue #10535 - handle NULL in the compiler without placing\n            # this onto each type, except for \"evaluate None\" types\n            # (e.g. JSON)\n            return self.process(elements.Null._instance())\n",
        "        is_null = value is None\n        if is_null:\n            return self._render_null_keyword()\n"),
    sub("    def _truncate_bindparam(self, bindparam):\n",
        "    def _render_null_keyword(self):\n        return self.process(elements.Null._instance())\n\n    def _truncate_bindparam(self, bindparam):\n")), "C05-R4")

# -- R2 backslashes: the doubling extracted into a helper method
R.mutant("benign-mysql-doubling-in-a-helper-method", MY, sub(
    _MY_OLD,
    "        rendered = super().render_literal_value(value, type_)\n        if self.dialect._backslash_escapes:\n"
    "            rendered = self._double_backslashes(rendered)\n        return rendered\n\n"
    "    @staticmethod\n    def _double_backslashes(text):\n        return text.replace(\"\\\\\", \"\\\\\\\\\")\n\n    # override native_boolean"), None)
R.mutant("mysql-helper-doubles-the-python-value", MY, sub(
    _MY_OLD,
    "        rendered = super().render_literal_value(value, type_)\n        if self.dialect._backslash_escapes and value is not None:\n"
    "            value = self._double_backslashes(value)\n        return rendered\n\n"
    "    @staticmethod\n    def _double_backslashes(text):\n        return text.replace(\"\\\\\", \"\\\\\\\\\")\n\n    # override native_boolean"), "C05-R2")

# ---------------------------------------------------------------------- str2-a: round 2 seeds and neighbours
_IN_SCALAR = ("                        be_left,\n                        self.render_literal_value(value, parameter.type),\n"
              "                        be_right,\n")
_IN_PLAIN = ("                replacement_expression = \", \".join(\n"
             "                    self.render_literal_value(value, parameter.type)\n"
             "                    for value in values\n                )\n")
# seed C05_3: the IN-list literal renderer re-uses the unwrapped dialect impl computed for the tuple/null flags
R.mutant("r5-seed3-in-list-rendered-with-unwrapped-impl", "sql/compiler.py", chain(
    sub(_IN_SCALAR, _IN_SCALAR.replace("parameter.type", "typ_dialect_impl")),
    sub(_IN_PLAIN, _IN_PLAIN.replace("parameter.type", "typ_dialect_impl"))), "C05-R5")
R.mutant("r5-bindparam-literal-rendered-with-impl-attribute", "sql/compiler.py",
         sub("            return self.render_literal_value(value, bindparam.type)\n",
             "            literal_type = bindparam.type\n"
             "            literal_type = getattr(literal_type, \"impl_instance\", literal_type)\n"
             "            return self.render_literal_value(value, literal_type)\n"), "C05-R5")
R.mutant("r5-in-list-type-from-helper-that-unwraps", "sql/compiler.py", chain(
    sub(_IN_PLAIN, _IN_PLAIN.replace("parameter.type", "self._in_list_literal_type(parameter)")),
    sub("    def _literal_execute_expanding_parameter(self, name, parameter, values):\n",
        "    def _in_list_literal_type(self, parameter):\n"
        "        declared = parameter.type\n"
        "        return declared.load_dialect_impl(self.dialect)\n\n"
        "    def _literal_execute_expanding_parameter(self, name, parameter, values):\n")), "C05-R5")
# benign: alias of the declared type / rendering extracted into a helper / the unwrapped impl still used for flags
R.mutant("benign-in-list-declared-type-alias", "sql/compiler.py", chain(
    sub("        typ_dialect_impl = parameter.type._unwrapped_dialect_impl(self.dialect)\n\n        if not values:\n            # empty IN expression.  note we don't need to use\n",
        "        declared_type = parameter.type\n        typ_dialect_impl = declared_type._unwrapped_dialect_impl(self.dialect)\n\n"
        "        if not values:\n            # empty IN expression.  note we don't need to use\n"),
    sub(_IN_SCALAR, _IN_SCALAR.replace("parameter.type", "declared_type")),
    sub(_IN_PLAIN, _IN_PLAIN.replace("parameter.type", "declared_type"))), None)
R.mutant("benign-in-list-element-rendering-helper", "sql/compiler.py", chain(
    sub(_IN_PLAIN, "                replacement_expression = \", \".join(\n"
        "                    self._render_in_element(value, parameter)\n"
        "                    for value in values\n                )\n"),
    sub("    def _literal_execute_expanding_parameter(self, name, parameter, values):\n",
        "    def _render_in_element(self, element, owner):\n"
        "        element_type = owner.type\n"
        "        return self.render_literal_value(element, element_type)\n\n"
        "    def _literal_execute_expanding_parameter(self, name, parameter, values):\n")), None)

# seed C05_4: Decimal() validation of the Numeric literal replaced by a regular expression matched as a prefix
_NUM_OLD = "            decimal.Decimal(value)\n            return str(value)\n"
_NUM_RX = "[+-]?(?:\\d+\\.?\\d*|\\.\\d+)(?:[eE][+-]?\\d+)?"
def _num_regex_variant(method, pattern=_NUM_RX, flags=""):
    return chain(
        sub("    def literal_processor(self, dialect):\n        def process(value):\n            # the value is rendered into the SQL string directly and\n",
            "    def literal_processor(self, dialect):\n        import re\n\n        numeric_literal = re.compile(\n            r\"" + pattern + "\"" + flags + "\n        )\n\n"
            "        def process(value):\n            # the value is rendered into the SQL string directly and\n"),
        sub(_NUM_OLD, "            value = str(value)\n            if not numeric_literal." + method + "(value):\n"
            "                raise ValueError(f\"not a numeric literal: {value!r}\")\n            return value\n"))
R.mutant("r1-seed4-numeric-validated-by-prefix-match", T, _num_regex_variant("match"), "C05-R1")
R.mutant("r1-numeric-regex-fullmatch-but-too-wide", T, _num_regex_variant("fullmatch", "[0-9eE+. -]+"), "C05-R1")
R.mutant("benign-numeric-validated-by-fullmatch", T, _num_regex_variant("fullmatch"), None)
R.mutant("benign-numeric-validated-by-anchored-match", T, _num_regex_variant("match", _NUM_RX + "\\Z"), None)
R.mutant("benign-numeric-match-object-local-inverted-branch", T, chain(
    sub("    def literal_processor(self, dialect):\n        def process(value):\n            # the value is rendered into the SQL string directly and\n",
        "    _NUMERIC_LITERAL = re.compile(r\"" + _NUM_RX + "\")\n\n"
        "    def literal_processor(self, dialect):\n        def process(value):\n            # the value is rendered into the SQL string directly and\n"),
    sub("import pickle\n", "import pickle\nimport re\n"),
    sub(_NUM_OLD, "            text = str(value)\n            found = self._NUMERIC_LITERAL.fullmatch(text)\n"
        "            if found is not None:\n                return text\n"
        "            raise ValueError(f\"not a numeric literal: {text!r}\")\n")), None)
R.mutant("benign-numeric-validation-in-a-helper", T, chain(
    sub("    def literal_processor(self, dialect):\n        def process(value):\n            # the value is rendered into the SQL string directly and\n",
        "    @staticmethod\n    def _require_numeric_literal(text):\n"
        "        if re.fullmatch(r\"" + _NUM_RX + "\", text) is None:\n"
        "            raise ValueError(f\"not a numeric literal: {text!r}\")\n\n"
        "    def literal_processor(self, dialect):\n        def process(value):\n            # the value is rendered into the SQL string directly and\n"),
    sub("import pickle\n", "import pickle\nimport re\n"),
    sub(_NUM_OLD, "            text = str(value)\n            self._require_numeric_literal(text)\n            return text\n")), None)
R.mutant("r1-numeric-validation-helper-searches", T, chain(
    sub("    def literal_processor(self, dialect):\n        def process(value):\n            # the value is rendered into the SQL string directly and\n",
        "    @staticmethod\n    def _require_numeric_literal(text):\n"
        "        if re.search(r\"" + _NUM_RX + "\", text) is None:\n"
        "            raise ValueError(f\"not a numeric literal: {text!r}\")\n\n"
        "    def literal_processor(self, dialect):\n        def process(value):\n            # the value is rendered into the SQL string directly and\n"),
    sub("import pickle\n", "import pickle\nimport re\n"),
    sub(_NUM_OLD, "            text = str(value)\n            self._require_numeric_literal(text)\n            return text\n")), "C05-R1")
