"""C08 -- LIKE based string operators with autoescape (escaping chain + family agreement)."""

from __future__ import annotations

import ast

from ..astutil import call_name, calls_in, dotted, returns_of, unparse, walk_local, walk_stmts
from ..index import ClassInfo, FuncInfo
from ..report import Registry, sub
from ._helpers_rules_a import Mini, Unsupported, str_constants, strings_over

R = Registry(
    "C08",
    title="LIKE-based string operators with autoescape match literal semantics",
    decides=(
        "the autoescape replacement chain of operators._escaped_like_impl produces, for every class of "
        "escape character (defaulted, ordinary, '%', '_'), a LIKE pattern that decodes to exactly the "
        "literal operand (bounded model check over all operands up to length 3 on a wildcard/escape "
        "alphabet) and forwards the escape character; the 12 {not_}{i}{startswith,endswith,contains}_op "
        "functions and the 6 ColumnOperators methods agree with their names; the 12 compiler visitors "
        "place the '%' literal by stem, lower-case exactly the i-variants and delegate to the LIKE "
        "visitor of the same polarity; every terminal LIKE/ILIKE visitor (base and dialect overrides) "
        "renders the keyword of its name and an ESCAPE clause from binary.modifiers['escape']."
    ),
    not_decided="rows matched on a backend (collation, case folding, backend LIKE grammar deviations).",
)

OPS = "sql/operators.py"
COMP = "sql/compiler.py"
STEMS = ("startswith", "endswith", "contains")
WILDCARDS = ("%", "_")


# ---------------------------------------------------------------------------------------- R1
def _like_decode(pattern: str, esc: str):
    """Decode a LIKE pattern under ESCAPE `esc` (SQL standard): list of ('lit'|'wild', ch) or an
    error string."""
    out = []
    i = 0
    while i < len(pattern):
        c = pattern[i]
        if c == esc:
            if i + 1 >= len(pattern):
                return "dangling escape character at end of pattern"
            nxt = pattern[i + 1]
            if nxt not in (esc,) + WILDCARDS:
                return f"escape character followed by ordinary character {nxt!r}"
            out.append(("lit", nxt))
            i += 2
        elif c in WILDCARDS:
            out.append(("wild", c))
            i += 1
        else:
            out.append(("lit", c))
            i += 1
    return out


@R.rule("C08-R1", floor=6, template="T-PATH/T-FLOW (bounded model of the extracted replace chain)",
        desc="_escaped_like_impl: on the autoescape path the statements applied to the operand yield a "
             "pattern that decodes (under the forwarded escape character) to the literal operand, for "
             "each class of escape character; without autoescape operand and escape pass unchanged; "
             "every return forwards the escape")
def r1(ctx):
    f = ctx.func(f"{OPS}::_escaped_like_impl")
    ctx.require(len(f.params) >= 4, "_escaped_like_impl no longer has (fn, other, escape, autoescape)")
    p_fn, p_other, p_escape, p_auto = f.params[:4]

    def hook(call, env, mini):
        if isinstance(call.func, ast.Name) and call.func.id == p_fn:
            args = [mini.ev(a, env) for a in call.args]
            kws = {}
            for k in call.keywords:
                if k.arg is None:
                    raise Unsupported(f"**kwargs in `{unparse(call)}`")
                kws[k.arg] = mini.ev(k.value, env)
            return ("fn", tuple(args), kws)
        return NotImplemented

    def run(s, e, auto):
        mini = Mini(call_hook=hook, what="_escaped_like_impl")
        env = {p_fn: "<fn>", p_other: s, p_escape: e, p_auto: auto}
        kind, val, node = mini.run(f.node.body, env)
        ctx.require(kind == "return" and isinstance(val, tuple) and val and val[0] == "fn",
                    f"_escaped_like_impl({s!r}, escape={e!r}, autoescape={auto}) does not end in a call of "
                    f"its `{p_fn}` parameter (got {kind})")
        _, args, kws = val
        return args, kws

    # structural: every return forwards the escape variable
    rets = returns_of(f.node)
    ctx.require(rets, "no return in _escaped_like_impl")
    good = True
    for r in rets:
        v = r.value
        ok = (isinstance(v, ast.Call) and isinstance(v.func, ast.Name) and v.func.id == p_fn
              and any(k.arg == "escape" and isinstance(k.value, ast.Name) and k.value.id == p_escape
                      for k in v.keywords)
              and v.args and isinstance(v.args[0], ast.Name) and v.args[0].id == p_other)
        good = good and ok
    ctx.check(good, f.key + ":forward",
              f"a return does not call {p_fn}({p_other}, escape={p_escape})",
              f"every return is {p_fn}({p_other}, escape={p_escape})", f.loc)

    # autoescape off: identity
    bad = None
    for e in (None, "/", "%"):
        for s in ("a%b_c/", ""):
            args, kws = run(s, e, False)
            if args != (s,) or kws.get("escape", "<missing>") != e:
                bad = f"operand {s!r}, escape={e!r} -> fn{args}, {kws}"
    ctx.check(bad is None, f.key + ":autoescape-off",
              f"without autoescape the operand/escape are not passed through unchanged: {bad}",
              "operand and escape unchanged when autoescape is false", f.loc)

    # autoescape on: model check per escape class
    classes = [("default", None), ("ordinary", "^"), ("%", "%"), ("_", "_")]
    for label, e in classes:
        key = f"{f.key}:escape={label}"
        witness = None
        n = 0
        _args0, kws0 = run("", e, True)
        eff = kws0.get("escape")
        if not (isinstance(eff, str) and len(eff) == 1):
            ctx.violation(key, f"with escape={e!r} the forwarded escape is {eff!r}, not a single character", f.loc)
            continue
        if e is None and eff in WILDCARDS:
            ctx.violation(key, f"default escape character {eff!r} is a wildcard", f.loc)
            continue
        if e is not None and eff != e:
            ctx.violation(key, f"explicit escape {e!r} is replaced by {eff!r}", f.loc)
            continue
        alphabet = []
        for ch in ("%", "_", eff, "/", "a"):
            if ch not in alphabet:
                alphabet.append(ch)
        for s in strings_over(alphabet, 3):
            n += 1
            args, kws = run(s, e, True)
            if len(args) != 1 or not isinstance(args[0], str) or kws.get("escape") != eff:
                witness = f"operand {s!r}: forwarded {args}, {kws}"
                break
            dec = _like_decode(args[0], eff)
            if isinstance(dec, str):
                witness = f"operand {s!r} -> pattern {args[0]!r} ESCAPE {eff!r}: {dec}"
                break
            if any(k == "wild" for k, _ in dec):
                witness = (f"operand {s!r} -> pattern {args[0]!r} ESCAPE {eff!r}: "
                           f"{[c for k, c in dec if k == 'wild'][0]!r} is left as an active wildcard")
                break
            lit = "".join(c for _, c in dec)
            if lit != s:
                witness = f"operand {s!r} -> pattern {args[0]!r} ESCAPE {eff!r} matches the literal {lit!r} instead"
                break
        ctx.check(witness is None, key,
                  f"autoescape with escape character class {label!r} does not yield a literal pattern: {witness}",
                  f"{n} operands over {alphabet} decode to themselves (escape {eff!r})", f.loc,
                  [witness] if witness else None)


# ---------------------------------------------------------------------------------------- R2
def _op_names():
    for stem in STEMS:
        for ci in ("", "i"):
            for neg in ("", "not_"):
                yield neg, ci, stem, f"{neg}{ci}{stem}_op"


@R.rule("C08-R2", floor=18, template="T-SIBLING",
        desc="each {not_}{i}{stem}_op calls _escaped_like_impl(a.<i><stem>, b, escape, autoescape), "
             "inverted exactly for not_; each ColumnOperators.<i><stem>() operates with <i><stem>_op and "
             "forwards escape/autoescape")
def r2(ctx):
    m = ctx.index.module(OPS)
    impl = ctx.func(f"{OPS}::_escaped_like_impl")
    for neg, ci, stem, name in _op_names():
        f = ctx.func(f"{OPS}::{name}")
        key = f.key
        rets = returns_of(f.node)
        ctx.require(len(rets) == 1 and rets[0].value is not None, f"{name}: expected a single return")
        v = rets[0].value
        inverted = False
        while isinstance(v, ast.UnaryOp) and isinstance(v.op, (ast.Invert, ast.Not)):
            inverted = not inverted
            v = v.operand
        if not (isinstance(v, ast.Call) and ctx.index.resolve(m, call_name(v) or "") is impl):
            ctx.violation(key, f"{name} does not return a call of _escaped_like_impl", f.loc)
            continue
        # bind arguments to the implementation's parameters
        bound = dict(zip(impl.params, v.args))
        for k in v.keywords:
            if k.arg:
                bound[k.arg] = k.value
        a, b = f.params[0], f.params[1]
        fnarg = bound.get(impl.params[0])
        problems = []
        if not (isinstance(fnarg, ast.Attribute) and isinstance(fnarg.value, ast.Name) and fnarg.value.id == a):
            problems.append(f"first argument `{unparse(fnarg)}` is not a bound method of `{a}`")
        elif fnarg.attr != ci + stem:
            problems.append(f"uses {a}.{fnarg.attr} instead of {a}.{ci}{stem}")
        o = bound.get(impl.params[1])
        if not (isinstance(o, ast.Name) and o.id == b):
            problems.append(f"operand argument is `{unparse(o)}`, not `{b}`")
        for pname in ("escape", "autoescape"):
            x = bound.get(pname)
            if not (isinstance(x, ast.Name) and x.id == pname and pname in f.params):
                problems.append(f"`{pname}` is not forwarded")
        if inverted != bool(neg):
            problems.append("result is inverted" if inverted else "result is not inverted")
        ctx.check(not problems, key, f"{name}: " + "; ".join(problems),
                  f"-> {'~' if neg else ''}_escaped_like_impl({a}.{ci}{stem}, ...)", f.loc)
    co = ctx.index.cls(f"{OPS}::ColumnOperators")
    for stem in STEMS:
        for ci in ("", "i"):
            meth = co.methods.get(ci + stem)
            key = f"{OPS}::ColumnOperators.{ci}{stem}"
            if meth is None:
                ctx.violation(key, "method not defined", co.loc)
                continue
            ctx.functions_analysed.add(meth.key)
            rets = returns_of(meth.node)
            ctx.require(len(rets) == 1, f"{key}: expected one return")
            v = rets[0].value
            problems = []
            if not (isinstance(v, ast.Call) and dotted(v.func) == "self.operate" and v.args):
                problems.append("does not return self.operate(...)")
            else:
                tgt = ctx.index.resolve(m, dotted(v.args[0]) or "")
                if not (isinstance(tgt, FuncInfo) and tgt.name == f"{ci}{stem}_op"):
                    problems.append(f"operates with `{unparse(v.args[0])}` instead of {ci}{stem}_op")
                starkw = [k for k in v.keywords if k.arg is None]
                kwarg = meth.node.args.kwarg.arg if meth.node.args.kwarg else None
                fw = {k.arg: k.value for k in v.keywords if k.arg}
                for pname in ("escape", "autoescape"):
                    explicit = isinstance(fw.get(pname), ast.Name) and fw[pname].id == pname and pname in meth.params
                    via_kw = (kwarg is not None and pname not in meth.params
                              and any(isinstance(k.value, ast.Name) and k.value.id == kwarg for k in starkw))
                    if not (explicit or via_kw):
                        problems.append(f"`{pname}` is not forwarded to operate()")
            ctx.check(not problems, key, "; ".join(problems), f"-> self.operate({ci}{stem}_op, ..)", meth.loc)


# ---------------------------------------------------------------------------------------- R3
def _parse_visit(name: str):
    """visit_{not_}{i}{stem}_op_binary -> (neg, ci, stem) or None."""
    if not (name.startswith("visit_") and name.endswith("_op_binary")):
        return None
    core = name[len("visit_"):-len("_op_binary")]
    neg = core.startswith("not_")
    if neg:
        core = core[4:]
    for stem in STEMS + ("like",):
        if core == stem:
            return neg, False, stem
        if core == "i" + stem:
            return neg, True, stem
    return None


def _is_ci_wrap(node):
    return isinstance(node, ast.Call) and (call_name(node) or "").rsplit(".", 1)[-1] == "ilike_case_insensitive" \
        and len(node.args) == 1


def _shape(expr, fn: FuncInfo, pnames, bnames):
    """Concatenation shape of the new right operand: list of 'P' (percent literal), 'R' (binary.right),
    'r' (binary.right wrapped case-insensitively); None if not understood."""
    if _is_ci_wrap(expr):
        inner = _shape(expr.args[0], fn, pnames, bnames)
        if inner == ["R"]:
            return ["r"]
        return None
    if isinstance(expr, ast.Name) and expr.id in pnames:
        return ["P"]
    if isinstance(expr, ast.Attribute):
        d = dotted(expr)
        if d == "self._like_percent_literal":
            return ["P"]
        if isinstance(expr.value, ast.Name) and expr.value.id in bnames and expr.attr == "right":
            return ["R"]
        return None
    if isinstance(expr, ast.Call) and isinstance(expr.func, ast.Attribute) and len(expr.args) == 1 and not expr.keywords:
        recv = _shape(expr.func.value, fn, pnames, bnames)
        arg = _shape(expr.args[0], fn, pnames, bnames)
        if recv is None or arg is None:
            return None
        if expr.func.attr == "concat":
            return recv + arg
        if expr.func.attr == "_rconcat":
            return arg + recv
        return None
    if isinstance(expr, ast.BinOp) and isinstance(expr.op, ast.Add):
        l, r = _shape(expr.left, fn, pnames, bnames), _shape(expr.right, fn, pnames, bnames)
        if l is None or r is None:
            return None
        return l + r
    return None


EXPECTED_SHAPE = {"contains": ["P", "X", "P"], "startswith": ["X", "P"], "endswith": ["P", "X"]}


def _delegation(fn: FuncInfo):
    """[(neg, ci, stem, call)] for `return self.visit_<like family>(...)`; [] if none."""
    out = []
    for r in returns_of(fn.node):
        v = r.value
        if isinstance(v, ast.Call) and isinstance(v.func, ast.Attribute) and isinstance(v.func.value, ast.Name) \
                and v.func.value.id == "self":
            p = _parse_visit(v.func.attr)
            if p:
                out.append(p + (v,))
    return out


def _binary_names(fn: FuncInfo):
    """names that denote the (cloned) binary expression inside the visitor."""
    b = fn.params[1] if len(fn.params) > 1 else "binary"
    names = {b}
    for n in walk_local(fn.node):
        if isinstance(n, ast.Assign) and len(n.targets) == 1 and isinstance(n.targets[0], ast.Name):
            v = n.value
            if isinstance(v, ast.Call) and isinstance(v.func, ast.Attribute) and v.func.attr == "_clone" \
                    and isinstance(v.func.value, ast.Name) and v.func.value.id in names:
                names.add(n.targets[0].id)
    return names


def _check_stem_visitor(ctx, cls: ClassInfo, fn: FuncInfo, neg, ci, stem):
    key = f"{cls.key}.{fn.name}"
    problems = []
    bnames = _binary_names(fn)
    pnames = set()
    for n in walk_local(fn.node):
        if isinstance(n, ast.Assign) and len(n.targets) == 1 and isinstance(n.targets[0], ast.Name) \
                and dotted(n.value) == "self._like_percent_literal":
            pnames.add(n.targets[0].id)
    dels = _delegation(fn)
    rets = returns_of(fn.node)
    if not dels or len(dels) != len(rets):
        ctx.require(False, f"{key}: does not delegate to a visit_*like_op_binary method (unknown idiom)")
    for dneg, dci, dstem, call in dels:
        if dstem != "like":
            problems.append(f"delegates to {call.func.attr} (not a LIKE visitor)")
        if dneg != neg:
            problems.append(f"delegates to {call.func.attr}: NOT polarity differs from the method name")
        if dci != ci:
            problems.append(f"delegates to {call.func.attr}: case-insensitivity differs from the method name")
        if not (call.args and isinstance(call.args[0], ast.Name) and call.args[0].id in bnames):
            problems.append("does not pass the rewritten binary expression on")
    right = [(n, n.value) for n in walk_local(fn.node)
             if isinstance(n, ast.Assign) and len(n.targets) == 1 and isinstance(n.targets[0], ast.Attribute)
             and isinstance(n.targets[0].value, ast.Name) and n.targets[0].value.id in bnames]
    rights = [v for n, v in right if n.targets[0].attr == "right"]
    lefts = [v for n, v in right if n.targets[0].attr == "left"]
    if len(rights) != 1:
        ctx.require(False, f"{key}: expected exactly one assignment to <binary>.right")
    shape = _shape(rights[0], fn, pnames, bnames)
    ctx.require(shape is not None, f"{key}: right operand `{unparse(rights[0])}` is not a concat/_rconcat shape")
    want = [("r" if ci else "R") if t == "X" else t for t in EXPECTED_SHAPE[stem]]
    if shape != want:
        pretty = {"P": "'%'", "R": "right", "r": "lower(right)"}
        problems.append("pattern is " + " || ".join(pretty[t] for t in shape)
                        + ", expected " + " || ".join(pretty[t] for t in want))
    if ci:
        okl = len(lefts) == 1 and _is_ci_wrap(lefts[0]) and isinstance(lefts[0].args[0], ast.Attribute) \
            and lefts[0].args[0].attr == "left"
        if not okl:
            problems.append("left operand is not wrapped in ilike_case_insensitive")
    elif lefts:
        problems.append("left operand is rewritten in a case-sensitive variant")
    ctx.check(not problems, key, "; ".join(problems),
              f"{'NOT ' if neg else ''}{'I' if ci else ''}LIKE with pattern shape {shape}", fn.loc)


def _escape_helper(ctx, cls: ClassInfo, call: ast.Call, esc_vars):
    """`self.<m>(.., <escape var>, ..)` -> (FuncInfo of m resolved through the MRO of cls, name of the
    parameter that receives the escape variable), else None."""
    f = call.func
    if not (isinstance(f, ast.Attribute) and isinstance(f.value, ast.Name) and f.value.id == "self"):
        return None
    m = ctx.index.resolve_method(cls, f.attr)
    if m is None or f.attr == "render_literal_value":
        return None
    params = [p for p in m.params if p != "self"]
    for i, a in enumerate(call.args):
        if isinstance(a, ast.Name) and a.id in esc_vars and i < len(params):
            return m, params[i]
    for k in call.keywords:
        if k.arg and isinstance(k.value, ast.Name) and k.value.id in esc_vars and k.arg in params:
            return m, k.arg
    return None


def _check_like_visitor(ctx, cls: ClassInfo, fn: FuncInfo, neg, ci):
    key = f"{cls.key}.{fn.name}"
    problems = []
    dels = _delegation(fn)
    rets = returns_of(fn.node)
    ctx.require(rets, f"{key}: no return")
    if dels:
        ctx.require(len(dels) == len(rets), f"{key}: mixes delegation and direct rendering")
        bnames = _binary_names(fn)
        for dneg, dci, dstem, call in dels:
            if dstem != "like" or dneg != neg:
                problems.append(f"delegates to {call.func.attr}: NOT polarity / family differs")
            if dci and not ci:
                problems.append(f"case-sensitive visitor delegates to {call.func.attr}")
            if ci and not dci:
                # both operands must be lower-cased on the path where the operator is the plain ilike op
                wraps = {n.targets[0].attr for n in walk_local(fn.node)
                         if isinstance(n, ast.Assign) and len(n.targets) == 1
                         and isinstance(n.targets[0], ast.Attribute)
                         and isinstance(n.targets[0].value, ast.Name) and n.targets[0].value.id in bnames
                         and _is_ci_wrap(n.value) and isinstance(n.value.args[0], ast.Attribute)
                         and n.value.args[0].attr == n.targets[0].attr}
                if wraps != {"left", "right"}:
                    problems.append(f"delegates to the case-sensitive {call.func.attr} but lower-cases only {sorted(wraps)}")
                else:
                    # guard must name the operator of this very method
                    own = f"{'not_' if neg else ''}ilike_op"
                    tests = [unparse(n.test) for n in walk_local(fn.node) if isinstance(n, ast.If)]
                    if tests and not any(t.replace("operators.", "").endswith(f"is {own}") for t in tests):
                        problems.append(f"lower-casing is guarded by `{tests[0]}`, not by `operator is {own}`")
        ctx.check(not problems, key, "; ".join(problems), f"delegates to {dels[0][3].func.attr}", fn.loc)
        return
    # terminal renderer
    kw_consts = [s for r in rets for s in str_constants(r.value)]
    template = [s for s in kw_consts if "LIKE" in s.upper() and "ESCAPE" not in s.upper()]
    ctx.require(template, f"{key}: no LIKE template string in the return expression")
    words = template[0].upper().replace("%S", " ").split()
    want = (["NOT"] if neg else []) + (["ILIKE"] if ci else ["LIKE"])
    if words != want:
        problems.append(f"renders `{' '.join(words)}`, the method name requires `{' '.join(want)}`")
    # ESCAPE clause fed from binary.modifiers['escape'] through render_literal_value
    esc_vars = set()
    for n in walk_local(fn.node):
        if isinstance(n, ast.Assign) and len(n.targets) == 1 and isinstance(n.targets[0], ast.Name):
            v = n.value
            src = None
            if isinstance(v, ast.Call) and (call_name(v) or "").endswith(".modifiers.get") and v.args:
                src = v.args[0]
            elif isinstance(v, ast.Subscript) and (dotted(v.value) or "").endswith(".modifiers"):
                src = v.slice
            if isinstance(src, ast.Constant) and src.value == "escape":
                esc_vars.add(n.targets[0].id)
    has_kw = any("ESCAPE" in s.upper() for s in kw_consts)
    rendered = False
    for r in rets:
        for c in calls_in(r.value):
            if (call_name(c) or "").endswith("render_literal_value") and c.args \
                    and isinstance(c.args[0], ast.Name) and c.args[0].id in esc_vars:
                rendered = True
            # an extracted helper `self.h(escape)` whose return renders " ESCAPE " + render_literal_value(<its param>)
            h = _escape_helper(ctx, cls, c, esc_vars)
            if h is not None:
                hfn, hparam = h
                ctx.functions_analysed.add(hfn.key)
                hconsts = [s for hr in returns_of(hfn.node) for s in str_constants(hr.value)]
                if any("ESCAPE" in s.upper() for s in hconsts):
                    has_kw = True
                    for hc in calls_in(hfn.node):
                        if (call_name(hc) or "").endswith("render_literal_value") and hc.args \
                                and isinstance(hc.args[0], ast.Name) and hc.args[0].id == hparam:
                            rendered = True
                    memo = [d for d in hfn.decorators if "memoized" in d or d.split(".")[-1] in ("cache", "lru_cache")]
                    if memo and any("memoized" in d for d in memo):
                        problems.append(
                            f"ESCAPE clause comes from `{hfn.name}`, which is decorated `@{memo[0]}`: that memoiser "
                            "ignores the arguments, so the first escape character rendered by this compiler is "
                            "reused for every later LIKE of the statement")
    if not esc_vars:
        problems.append("does not read binary.modifiers['escape']")
    if not has_kw:
        problems.append("renders no ESCAPE clause")
    elif not rendered:
        problems.append("ESCAPE clause is not rendered from the escape modifier via render_literal_value()")
    ctx.check(not problems, key, "; ".join(problems), f"`{' '.join(want)}` + ESCAPE from modifiers", fn.loc)


@R.rule("C08-R3", floor=21, template="T-SIBLING",
        desc="compiler visitors of the LIKE family (base SQLCompiler and every dialect override): percent "
             "placement by stem, lower() on exactly the i-variants, delegation to the LIKE visitor of the "
             "same polarity, keyword and ESCAPE clause of terminal visitors, '%' literal, and dialects "
             "that do not lower() the operand render ILIKE themselves")
def r3(ctx):
    base = ctx.index.cls(f"{COMP}::SQLCompiler")
    classes = [base] + sorted(ctx.index.subclasses(base), key=lambda c: c.key)
    names = []
    for stem in STEMS + ("like",):
        for ci in ("", "i"):
            for neg in ("", "not_"):
                names.append(f"visit_{neg}{ci}{stem}_op_binary")
    for nm in names:
        if nm not in base.methods:
            ctx.violation(f"{base.key}.{nm}", "visitor not defined on the base compiler", base.loc)
    for cls in classes:
        for nm in names:
            fn = cls.methods.get(nm)
            if fn is None:
                continue
            ctx.functions_analysed.add(fn.key)
            neg, ci, stem = _parse_visit(nm)
            if stem == "like":
                _check_like_visitor(ctx, cls, fn, neg, ci)
            else:
                _check_stem_visitor(ctx, cls, fn, neg, ci, stem)
    # the percent literal
    pl = base.methods.get("_like_percent_literal")
    ctx.require(pl is not None, "SQLCompiler._like_percent_literal vanished")
    consts = [s for r in returns_of(pl.node) for s in str_constants(r.value)]
    ctx.check("'%'" in consts, pl.key, f"_like_percent_literal renders {consts}, not the SQL literal '%'",
              "literal_column(\"'%'\")", pl.loc)
    # who does not lower() must render ILIKE
    for cls in classes:
        fn = cls.methods.get("visit_ilike_case_insensitive_operand")
        if fn is None:
            continue
        ctx.functions_analysed.add(fn.key)
        lowers = any("lower(" in s.lower() for r in returns_of(fn.node) for s in str_constants(r.value))
        key = f"{cls.key}.visit_ilike_case_insensitive_operand"
        if lowers:
            ctx.ok(key, "applies lower()")
            continue
        missing = []
        for nm, want in (("visit_ilike_op_binary", "ILIKE"), ("visit_not_ilike_op_binary", "NOT ILIKE")):
            m = ctx.index.resolve_method(cls, nm)
            terminal = m is not None and not _delegation(m) and any(
                "ILIKE" in s.upper() for r in returns_of(m.node) for s in str_constants(r.value))
            if not terminal:
                missing.append(nm)
        ctx.check(not missing, key,
                  f"operand is not lower-cased but {missing} do(es) not render ILIKE (case-insensitivity lost)",
                  "no lower(); ILIKE rendered natively", fn.loc)


# ---------------------------------------------------------------------------------------- self test
R.mutant("r1-swap-replace-steps", OPS,
         sub('        if escape not in ("%", "_"):\n            other = other.replace(escape, escape + escape)\n\n'
             '        other = other.replace("%", escape + "%").replace("_", escape + "_")\n',
             '        other = other.replace("%", escape + "%").replace("_", escape + "_")\n\n'
             '        if escape not in ("%", "_"):\n            other = other.replace(escape, escape + escape)\n'),
         "C08-R1")
R.mutant("r1-drop-underscore", OPS,
         sub('other = other.replace("%", escape + "%").replace("_", escape + "_")',
             'other = other.replace("%", escape + "%")'), "C08-R1")
R.mutant("r1-escape-not-forwarded", OPS, sub("    return fn(other, escape=escape)\n", "    return fn(other)\n"), "C08-R1")
R.mutant("r1-default-is-wildcard", OPS, sub('            escape = "/"\n', '            escape = "%"\n'), "C08-R1")
R.mutant("r2-wrong-stem", OPS,
         sub("    return _escaped_like_impl(a.istartswith, b, escape, autoescape)",
             "    return _escaped_like_impl(a.startswith, b, escape, autoescape)"), "C08-R2")
R.mutant("r2-not-variant-not-inverted", OPS,
         sub("    return ~_escaped_like_impl(a.endswith, b, escape, autoescape)",
             "    return _escaped_like_impl(a.endswith, b, escape, autoescape)"), "C08-R2")
R.mutant("r2-method-drops-autoescape", OPS,
         sub("            iendswith_op, other, escape=escape, autoescape=autoescape\n",
             "            iendswith_op, other, escape=escape\n"), "C08-R2")
R.mutant("r3-rconcat-to-concat", COMP,
         sub("        binary.right = percent._rconcat(ilike_case_insensitive(binary.right))\n"
             "        return self.visit_not_ilike_op_binary(binary, operator, **kw)",
             "        binary.right = percent.concat(ilike_case_insensitive(binary.right))\n"
             "        return self.visit_not_ilike_op_binary(binary, operator, **kw)"), "C08-R3")
R.mutant("r3-not-like-drops-escape", COMP,
         sub('        return "%s NOT LIKE %s" % (\n            binary.left._compiler_dispatch(self, **kw),\n'
             '            binary.right._compiler_dispatch(self, **kw),\n        ) + (\n'
             '            " ESCAPE " + self.render_literal_value(escape, sqltypes.STRINGTYPE)\n'
             '            if escape is not None\n            else ""\n        )\n',
             '        return "%s NOT LIKE %s" % (\n            binary.left._compiler_dispatch(self, **kw),\n'
             '            binary.right._compiler_dispatch(self, **kw),\n        )\n'), "C08-R3")
R.mutant("r3-not-contains-delegates-positive", COMP,
         sub("        binary.right = percent.concat(binary.right).concat(percent)\n"
             "        return self.visit_not_like_op_binary(binary, operator, **kw)",
             "        binary.right = percent.concat(binary.right).concat(percent)\n"
             "        return self.visit_like_op_binary(binary, operator, **kw)"), "C08-R3")
R.mutant("r3-pg-not-ilike-renders-ilike", "dialects/postgresql/base.py",
         sub('        return "%s NOT ILIKE %s" % (', '        return "%s ILIKE %s" % ('), "C08-R3")
R.mutant("r3-icontains-right-not-lowered", COMP,
         sub("        binary.right = percent.concat(\n            ilike_case_insensitive(binary.right)\n        ).concat(percent)\n"
             "        return self.visit_ilike_op_binary(binary, operator, **kw)",
             "        binary.right = percent.concat(\n            binary.right\n        ).concat(percent)\n"
             "        return self.visit_ilike_op_binary(binary, operator, **kw)"), "C08-R3")
# benign refactors
R.mutant("benign-rename-local-percent", COMP,
         sub("    def visit_endswith_op_binary(self, binary, operator, **kw):\n        binary = binary._clone()\n"
             "        percent = self._like_percent_literal\n        binary.right = percent.concat(binary.right)\n",
             "    def visit_endswith_op_binary(self, binary, operator, **kw):\n        binary = binary._clone()\n"
             "        pct = self._like_percent_literal\n        binary.right = pct.concat(binary.right)\n"), None)
R.mutant("benign-split-chain-into-statements", OPS,
         sub('        other = other.replace("%", escape + "%").replace("_", escape + "_")\n',
             '        pct = escape + "%"\n        other = other.replace("%", pct)\n'
             '        for _wc in ("_",):\n            other = other.replace(_wc, escape + _wc)\n'),
         None)
R.mutant("benign-logging", OPS,
         sub('        if escape is None:\n            escape = "/"\n', '        if escape is None:\n            escape = "/"\n        _dbg = len(other) if isinstance(other, str) else 0\n'), None)
_ESC_INLINE = ('        ) + (\n            " ESCAPE " + self.render_literal_value(escape, sqltypes.STRINGTYPE)\n'
               '            if escape is not None\n            else ""\n        )\n\n    def visit_not_like_op_binary')
_ESC_HELPER = ('        ) + (self._like_escape_clause(escape) if escape is not None else "")\n\n'
               '    %sdef _like_escape_clause(self, escape):\n'
               '        return " ESCAPE " + self.render_literal_value(escape, sqltypes.STRINGTYPE)\n\n'
               '    def visit_not_like_op_binary')
R.mutant("benign-escape-clause-helper", COMP, sub(_ESC_INLINE, _ESC_HELPER % ""), None)
R.mutant("r3-escape-clause-helper-memoized", COMP,
         sub(_ESC_INLINE, _ESC_HELPER % "@util.memoized_instancemethod\n    "), "C08-R3")
