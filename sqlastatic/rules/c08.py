"""C08 -- LIKE based string operators with autoescape (escaping chain + family agreement)."""

from __future__ import annotations

import ast

from ..astutil import call_name, calls_in, dotted, returns_of, unparse, walk_local, walk_stmts
from ..index import ClassInfo, FuncInfo
from ..report import Registry, chain, sub
from ._helpers_rules_a import Mini, Unsupported, str_constants, strings_over
from ._helpers_rob_d1 import Mini2, ModelObj, ModelSelf, model_callable

R = Registry(
    "C08",
    title="LIKE-based string operators with autoescape match literal semantics",
    decides=(
        "the autoescape replacement chain of operators._escaped_like_impl produces, for every class of "
        "escape character (defaulted, ordinary, '%', '_'), a LIKE pattern that decodes to exactly the "
        "literal operand (bounded model check over all operands up to length 3 on a wildcard/escape "
        "alphabet) and forwards the escape character; the 12 {not_}{i}{startswith,endswith,contains}_op "
        "functions and the 6 ColumnOperators methods agree with their names; the 12 compiler visitors "
        "place the '%' literal by stem, lower-case exactly the i-variants and delegate to the LIKE "
        "visitor of the same polarity; every terminal LIKE/ILIKE visitor (base and dialect overrides) "
        "renders the keyword of its name and an ESCAPE clause from binary.modifiers['escape']; no visitor of the "
        "family (nor a helper it calls) reads an attribute of a bound operand that BindParameter keeps out of its "
        "cache key (value, callable, effective_value), so the compiled string does not depend on the operand; for "
        "the variants rendered as lower(x) LIKE lower(pattern), the lower-cased autoescape pattern still decodes "
        "to the lower-cased operand under the rendered ESCAPE character (default, non-letter, upper- and "
        "lower-case letter escape characters)."
    ),
    not_decided="rows matched on a backend (collation, case folding, backend LIKE grammar deviations).",
)

OPS = "sql/operators.py"
COMP = "sql/compiler.py"
STEMS = ("startswith", "endswith", "contains")
WILDCARDS = ("%", "_")


# ---------------------------------------------------------------------------------------- R1
def _like_decode(pattern: str, esc: str):
    """Decode a LIKE pattern under ESCAPE `esc` (SQL standard): list of ('lit'|'wild', ch) or an
    error string."""
    out = []
    i = 0
    while i < len(pattern):
        c = pattern[i]
        if c == esc:
            if i + 1 >= len(pattern):
                return "dangling escape character at end of pattern"
            nxt = pattern[i + 1]
            if nxt not in (esc,) + WILDCARDS:
                return f"escape character followed by ordinary character {nxt!r}"
            out.append(("lit", nxt))
            i += 2
        elif c in WILDCARDS:
            out.append(("wild", c))
            i += 1
        else:
            out.append(("lit", c))
            i += 1
    return out


def _chain_runner(ctx):
    """-> (FuncInfo of _escaped_like_impl, name of its `fn` parameter, run(operand, escape, autoescape) ->
    (args, kwargs) the `fn` parameter is finally called with): a model run of the implementation."""
    f = ctx.func(f"{OPS}::_escaped_like_impl")
    ctx.require(len(f.params) >= 4, "_escaped_like_impl no longer has (fn, other, escape, autoescape)")
    p_fn, p_other, p_escape, p_auto = f.params[:4]
    FN = ModelObj("fn")

    def hook(call, env, mini):
        # a call of the `fn` parameter (or of a local alias of it), in the function or in a followed helper
        if isinstance(call.func, ast.Name) and env.get(call.func.id) is FN:
            args, kws = mini._args(call, env)
            return ("fn", tuple(args), kws)
        return NotImplemented

    def resolver(name):
        # module level helpers of operators.py are followed (extracted replace chain)
        t = ctx.index.resolve(f.module, name)
        return t if isinstance(t, FuncInfo) and t.cls is None and t.key != f.key else None

    def run(s, e, auto):
        mini = Mini2(call_hook=hook, func_resolver=resolver, what="_escaped_like_impl")
        env = {p_fn: FN, p_other: s, p_escape: e, p_auto: auto}
        kind, val, node = mini.run(f.node.body, env)
        for h in mini.followed:
            ctx.functions_analysed.add(h.key)
        ctx.require(kind == "return" and isinstance(val, tuple) and val and val[0] == "fn",
                    f"_escaped_like_impl({s!r}, escape={e!r}, autoescape={auto}) does not end in a call of "
                    f"its `{p_fn}` parameter (got {kind})")
        _, args, kws = val
        return args, kws

    return f, p_fn, run


@R.rule("C08-R1", floor=6, template="T-PATH/T-FLOW (bounded model of the extracted replace chain)",
        desc="_escaped_like_impl: on the autoescape path the statements applied to the operand yield a "
             "pattern that decodes (under the forwarded escape character) to the literal operand, for "
             "each class of escape character; without autoescape operand and escape pass unchanged; "
             "every return forwards the escape")
def r1(ctx):
    f, p_fn, run = _chain_runner(ctx)

    # every way out forwards one operand and the escape: judged on the model runs (all four escape classes,
    # autoescape on and off), not on the shape of the return statements
    bad = None
    for e in (None, "^", "%", "_"):
        for auto in (False, True):
            args, kws = run("a", e, auto)
            if len(args) != 1 or "escape" not in kws or set(kws) - {"escape"}:
                bad = f"escape={e!r}, autoescape={auto}: {p_fn}{args}, {kws}"
    ctx.check(bad is None, f.key + ":forward",
              f"a return does not call {p_fn}(<operand>, escape=<escape>): {bad}",
              f"every way out is {p_fn}(<operand>, escape=<escape>)", f.loc)

    # autoescape off: identity
    bad = None
    for e in (None, "/", "%"):
        for s in ("a%b_c/", ""):
            args, kws = run(s, e, False)
            if args != (s,) or kws.get("escape", "<missing>") != e:
                bad = f"operand {s!r}, escape={e!r} -> fn{args}, {kws}"
    ctx.check(bad is None, f.key + ":autoescape-off",
              f"without autoescape the operand/escape are not passed through unchanged: {bad}",
              "operand and escape unchanged when autoescape is false", f.loc)

    # autoescape on: model check per escape class
    classes = [("default", None), ("ordinary", "^"), ("%", "%"), ("_", "_")]
    for label, e in classes:
        key = f"{f.key}:escape={label}"
        witness = None
        n = 0
        _args0, kws0 = run("", e, True)
        eff = kws0.get("escape")
        if not (isinstance(eff, str) and len(eff) == 1):
            ctx.violation(key, f"with escape={e!r} the forwarded escape is {eff!r}, not a single character", f.loc)
            continue
        if e is None and eff in WILDCARDS:
            ctx.violation(key, f"default escape character {eff!r} is a wildcard", f.loc)
            continue
        if e is not None and eff != e:
            ctx.violation(key, f"explicit escape {e!r} is replaced by {eff!r}", f.loc)
            continue
        alphabet = []
        for ch in ("%", "_", eff, "/", "a"):
            if ch not in alphabet:
                alphabet.append(ch)
        for s in strings_over(alphabet, 3):
            n += 1
            args, kws = run(s, e, True)
            if len(args) != 1 or not isinstance(args[0], str) or kws.get("escape") != eff:
                witness = f"operand {s!r}: forwarded {args}, {kws}"
                break
            dec = _like_decode(args[0], eff)
            if isinstance(dec, str):
                witness = f"operand {s!r} -> pattern {args[0]!r} ESCAPE {eff!r}: {dec}"
                break
            if any(k == "wild" for k, _ in dec):
                witness = (f"operand {s!r} -> pattern {args[0]!r} ESCAPE {eff!r}: "
                           f"{[c for k, c in dec if k == 'wild'][0]!r} is left as an active wildcard")
                break
            lit = "".join(c for _, c in dec)
            if lit != s:
                witness = f"operand {s!r} -> pattern {args[0]!r} ESCAPE {eff!r} matches the literal {lit!r} instead"
                break
        ctx.check(witness is None, key,
                  f"autoescape with escape character class {label!r} does not yield a literal pattern: {witness}",
                  f"{n} operands over {alphabet} decode to themselves (escape {eff!r})", f.loc,
                  [witness] if witness else None)


# ---------------------------------------------------------------------------------------- R2
def _op_names():
    for stem in STEMS:
        for ci in ("", "i"):
            for neg in ("", "not_"):
                yield neg, ci, stem, f"{neg}{ci}{stem}_op"


class _ImplCall:
    """model value of `_escaped_like_impl(...)`: arguments bound to the implementation's parameters."""

    def __init__(self, bound, inverted=False):
        self.bound, self.inverted = bound, inverted

    def m_invert(self):
        return _ImplCall(self.bound, not self.inverted)


def _model_op(ctx, m, impl, f: FuncInfo, neg, ci, stem):
    """Run `<neg><ci><stem>_op(a, b, escape, autoescape)` in the model; problems (list) or Unsupported."""
    a_name, b_name = f.params[0], f.params[1]
    A = ModelObj(a_name, attr_default=lambda attr: ("bound-method", attr))
    B, ESC, AUTO = ModelObj("b"), ModelObj("escape"), ModelObj("autoescape")

    def hook(call, env, mini):
        if isinstance(call.func, (ast.Name, ast.Attribute)) and not (
                isinstance(call.func, ast.Name) and call.func.id in env):
            d = dotted(call.func)
            if d and ctx.index.resolve(m, d) is impl:
                args, kws = mini._args(call, env)
                bound = dict(zip(impl.params, args))
                bound.update(kws)
                return _ImplCall(bound)
        return NotImplemented

    mini = Mini2(call_hook=hook, what=f.name)
    kwargs = {}
    problems = []
    for pname, val in (("escape", ESC), ("autoescape", AUTO)):
        if pname in f.params:
            kwargs[pname] = val
        else:
            problems.append(f"`{pname}` is not forwarded")
    val = mini.run_top(f, [A, B], kwargs)
    if not isinstance(val, _ImplCall):
        return [f"{f.name} does not return a call of _escaped_like_impl"]
    fnarg = val.bound.get(impl.params[0])
    if not (isinstance(fnarg, tuple) and fnarg and fnarg[0] == "bound-method"):
        problems.append(f"first argument is not a bound method of `{a_name}`")
    elif fnarg[1] != ci + stem:
        problems.append(f"uses {a_name}.{fnarg[1]} instead of {a_name}.{ci}{stem}")
    if val.bound.get(impl.params[1]) is not B:
        problems.append(f"operand argument is not `{b_name}`")
    for pname, want in (("escape", ESC), ("autoescape", AUTO)):
        if pname in kwargs and val.bound.get(pname) is not want:
            problems.append(f"`{pname}` is not forwarded")
    if val.inverted != bool(neg):
        problems.append("result is inverted" if val.inverted else "result is not inverted")
    return problems


def _model_method(ctx, m, meth: FuncInfo, ci, stem):
    """Run ColumnOperators.<ci><stem>(other, escape=.., autoescape=..) in the model."""
    O, ESC, AUTO = ModelObj("other"), ModelObj("escape"), ModelObj("autoescape")
    SELF = ModelObj("self", methods={"operate": lambda op, *a, **kw: ("operate", op, a, kw)})

    def name_hook(name, mini):
        t = ctx.index.resolve(m, name)
        return t if isinstance(t, FuncInfo) else NotImplemented

    mini = Mini2(name_hook=name_hook, what=meth.qualname)
    val = mini.run_top(meth, [SELF, O], {"escape": ESC, "autoescape": AUTO})
    if not (isinstance(val, tuple) and val and val[0] == "operate"):
        return ["does not return self.operate(...)"]
    _, op, args, kws = val
    problems = []
    if not (isinstance(op, FuncInfo) and op.name == f"{ci}{stem}_op"):
        problems.append(f"operates with `{getattr(op, 'name', op)}` instead of {ci}{stem}_op")
    got = dict(kws)
    if isinstance(op, FuncInfo):
        got.update(dict(zip(op.params[1:], args)))
        if not args or args[0] is not O:
            problems.append("the operand is not passed to operate()")
    for pname, want in (("escape", ESC), ("autoescape", AUTO)):
        if got.get(pname) is not want:
            problems.append(f"`{pname}` is not forwarded to operate()")
    return problems


@R.rule("C08-R2", floor=18, template="T-SIBLING",
        desc="each {not_}{i}{stem}_op calls _escaped_like_impl(a.<i><stem>, b, escape, autoescape), "
             "inverted exactly for not_; each ColumnOperators.<i><stem>() operates with <i><stem>_op and "
             "forwards escape/autoescape")
def r2(ctx):
    m = ctx.index.module(OPS)
    impl = ctx.func(f"{OPS}::_escaped_like_impl")
    for neg, ci, stem, name in _op_names():
        f = ctx.func(f"{OPS}::{name}")
        key = f.key
        try:
            problems = _model_op(ctx, m, impl, f, neg, ci, stem)
            ctx.check(not problems, key, f"{name}: " + "; ".join(problems),
                      f"-> {'~' if neg else ''}_escaped_like_impl({f.params[0]}.{ci}{stem}, ...)", f.loc)
            continue
        except Unsupported as e:
            ctx.note(f"{key}: model run not possible ({e}); structural matcher used")
        rets = returns_of(f.node)
        ctx.require(len(rets) == 1 and rets[0].value is not None, f"{name}: expected a single return")
        v = rets[0].value
        inverted = False
        while isinstance(v, ast.UnaryOp) and isinstance(v.op, (ast.Invert, ast.Not)):
            inverted = not inverted
            v = v.operand
        if not (isinstance(v, ast.Call) and ctx.index.resolve(m, call_name(v) or "") is impl):
            ctx.violation(key, f"{name} does not return a call of _escaped_like_impl", f.loc)
            continue
        # bind arguments to the implementation's parameters
        bound = dict(zip(impl.params, v.args))
        for k in v.keywords:
            if k.arg:
                bound[k.arg] = k.value
        a, b = f.params[0], f.params[1]
        fnarg = bound.get(impl.params[0])
        problems = []
        if not (isinstance(fnarg, ast.Attribute) and isinstance(fnarg.value, ast.Name) and fnarg.value.id == a):
            problems.append(f"first argument `{unparse(fnarg)}` is not a bound method of `{a}`")
        elif fnarg.attr != ci + stem:
            problems.append(f"uses {a}.{fnarg.attr} instead of {a}.{ci}{stem}")
        o = bound.get(impl.params[1])
        if not (isinstance(o, ast.Name) and o.id == b):
            problems.append(f"operand argument is `{unparse(o)}`, not `{b}`")
        for pname in ("escape", "autoescape"):
            x = bound.get(pname)
            if not (isinstance(x, ast.Name) and x.id == pname and pname in f.params):
                problems.append(f"`{pname}` is not forwarded")
        if inverted != bool(neg):
            problems.append("result is inverted" if inverted else "result is not inverted")
        ctx.check(not problems, key, f"{name}: " + "; ".join(problems),
                  f"-> {'~' if neg else ''}_escaped_like_impl({a}.{ci}{stem}, ...)", f.loc)
    co = ctx.index.cls(f"{OPS}::ColumnOperators")
    for stem in STEMS:
        for ci in ("", "i"):
            meth = co.methods.get(ci + stem)
            key = f"{OPS}::ColumnOperators.{ci}{stem}"
            if meth is None:
                ctx.violation(key, "method not defined", co.loc)
                continue
            ctx.functions_analysed.add(meth.key)
            try:
                problems = _model_method(ctx, m, meth, ci, stem)
                ctx.check(not problems, key, "; ".join(problems), f"-> self.operate({ci}{stem}_op, ..)", meth.loc)
                continue
            except Unsupported as e:
                ctx.note(f"{key}: model run not possible ({e}); structural matcher used")
            rets = returns_of(meth.node)
            ctx.require(len(rets) == 1, f"{key}: expected one return")
            v = rets[0].value
            problems = []
            if not (isinstance(v, ast.Call) and dotted(v.func) == "self.operate" and v.args):
                problems.append("does not return self.operate(...)")
            else:
                tgt = ctx.index.resolve(m, dotted(v.args[0]) or "")
                if not (isinstance(tgt, FuncInfo) and tgt.name == f"{ci}{stem}_op"):
                    problems.append(f"operates with `{unparse(v.args[0])}` instead of {ci}{stem}_op")
                starkw = [k for k in v.keywords if k.arg is None]
                kwarg = meth.node.args.kwarg.arg if meth.node.args.kwarg else None
                fw = {k.arg: k.value for k in v.keywords if k.arg}
                for pname in ("escape", "autoescape"):
                    explicit = isinstance(fw.get(pname), ast.Name) and fw[pname].id == pname and pname in meth.params
                    via_kw = (kwarg is not None and pname not in meth.params
                              and any(isinstance(k.value, ast.Name) and k.value.id == kwarg for k in starkw))
                    if not (explicit or via_kw):
                        problems.append(f"`{pname}` is not forwarded to operate()")
            ctx.check(not problems, key, "; ".join(problems), f"-> self.operate({ci}{stem}_op, ..)", meth.loc)


# ---------------------------------------------------------------------------------------- R3
def _parse_visit(name: str):
    """visit_{not_}{i}{stem}_op_binary -> (neg, ci, stem) or None."""
    if not (name.startswith("visit_") and name.endswith("_op_binary")):
        return None
    core = name[len("visit_"):-len("_op_binary")]
    neg = core.startswith("not_")
    if neg:
        core = core[4:]
    for stem in STEMS + ("like",):
        if core == stem:
            return neg, False, stem
        if core == "i" + stem:
            return neg, True, stem
    return None


def _is_ci_wrap(node):
    return isinstance(node, ast.Call) and (call_name(node) or "").rsplit(".", 1)[-1] == "ilike_case_insensitive" \
        and len(node.args) == 1


def _shape(expr, fn: FuncInfo, pnames, bnames):
    """Concatenation shape of the new right operand: list of 'P' (percent literal), 'R' (binary.right),
    'r' (binary.right wrapped case-insensitively); None if not understood."""
    if _is_ci_wrap(expr):
        inner = _shape(expr.args[0], fn, pnames, bnames)
        if inner == ["R"]:
            return ["r"]
        return None
    if isinstance(expr, ast.Name) and expr.id in pnames:
        return ["P"]
    if isinstance(expr, ast.Attribute):
        d = dotted(expr)
        if d == "self._like_percent_literal":
            return ["P"]
        if isinstance(expr.value, ast.Name) and expr.value.id in bnames and expr.attr == "right":
            return ["R"]
        return None
    if isinstance(expr, ast.Call) and isinstance(expr.func, ast.Attribute) and len(expr.args) == 1 and not expr.keywords:
        recv = _shape(expr.func.value, fn, pnames, bnames)
        arg = _shape(expr.args[0], fn, pnames, bnames)
        if recv is None or arg is None:
            return None
        if expr.func.attr == "concat":
            return recv + arg
        if expr.func.attr == "_rconcat":
            return arg + recv
        return None
    if isinstance(expr, ast.BinOp) and isinstance(expr.op, ast.Add):
        l, r = _shape(expr.left, fn, pnames, bnames), _shape(expr.right, fn, pnames, bnames)
        if l is None or r is None:
            return None
        return l + r
    return None


EXPECTED_SHAPE = {"contains": ["P", "X", "P"], "startswith": ["X", "P"], "endswith": ["P", "X"]}


def _delegation(fn: FuncInfo):
    """[(neg, ci, stem, call)] for `return self.visit_<like family>(...)`; [] if none."""
    out = []
    for r in returns_of(fn.node):
        v = r.value
        if isinstance(v, ast.Call) and isinstance(v.func, ast.Attribute) and isinstance(v.func.value, ast.Name) \
                and v.func.value.id == "self":
            p = _parse_visit(v.func.attr)
            if p:
                out.append(p + (v,))
    return out


def _binary_names(fn: FuncInfo):
    """names that denote the (cloned) binary expression inside the visitor."""
    b = fn.params[1] if len(fn.params) > 1 else "binary"
    names = {b}
    for n in walk_local(fn.node):
        if isinstance(n, ast.Assign) and len(n.targets) == 1 and isinstance(n.targets[0], ast.Name):
            v = n.value
            if isinstance(v, ast.Call) and isinstance(v.func, ast.Attribute) and v.func.attr == "_clone" \
                    and isinstance(v.func.value, ast.Name) and v.func.value.id in names:
                names.add(n.targets[0].id)
    return names


# ---- model of the visitor family -------------------------------------------------------------------------
class _Term(ModelObj):
    """SQL expression in the model: atoms 'L' (binary.left), 'R' (binary.right), 'P' (the '%' literal);
    ('cat', a, b) concatenation; ('lower', x) case-insensitive wrapper.  Data attributes read off an operand
    (`operand.type` ...) are opaque model objects: what may be read is C08-R4's business, not the model's."""

    def __init__(self, kind, *parts):
        super().__init__(f"operand:{kind}", attr_default=lambda a, _k=kind: ModelObj(f"<{_k}>.{a}"))
        self.kind, self.parts = kind, parts

    def m_call(self, attr, args, kwargs, mini, node):
        return self.m_method(attr, args, kwargs, mini, node)

    def __add__(self, other):
        if isinstance(other, _Term):
            return _Term("cat", self, other)
        return NotImplemented

    def m_method(self, attr, args, kwargs, mini, node):
        if attr in ("concat", "_rconcat", "__add__", "__radd__") and len(args) == 1 and isinstance(args[0], _Term):
            return _Term("cat", self, args[0]) if attr in ("concat", "__add__") else _Term("cat", args[0], self)
        if attr == "_compiler_dispatch":
            return self.render()
        if attr == "self_group":
            return self
        raise Unsupported(f"{mini.what}: `.{attr}()` on a SQL operand has no model")

    def flat(self, lowered=False):
        if self.kind == "cat":
            return self.parts[0].flat(lowered) + self.parts[1].flat(lowered)
        if self.kind == "lower":
            return self.parts[0].flat(True)  # lower(a || b) == lower(a) || lower(b); lower('%') == '%'
        if self.kind == "P":
            return ["P"]
        return [self.kind.lower() if lowered else self.kind]

    def render(self):
        if self.kind == "cat":
            return f"({self.parts[0].render()}||{self.parts[1].render()})"
        if self.kind == "lower":
            return f"lower({self.parts[0].render()})"
        return f"<{self.kind}>"


class _Binary(ModelObj):
    def __init__(self, left, right, modifiers, origin=None):
        super().__init__("binary", {"left": left, "right": right, "modifiers": modifiers})
        self.origin = origin or self

    def m_call(self, attr, args, kwargs, mini, node):
        if attr == "_clone":
            return _Binary(self.attrs["left"], self.attrs["right"], dict(self.attrs["modifiers"]), self.origin)
        return super().m_call(attr, args, kwargs, mini, node)


class _Delegated:
    def __init__(self, name, args, kwargs):
        self.name, self.args, self.kwargs = name, args, kwargs


_FAMILY = [f"visit_{neg}{ci}{stem}_op_binary" for stem in STEMS + ("like",) for ci in ("", "i") for neg in ("", "not_")]


def _render_operand(x, *a, **kw):
    return x.render() if isinstance(x, _Term) else f"<?{x!r}>"


def _run_visitor(ctx, cls: ClassInfo, fn: FuncInfo, escape, own_operator=True, selfobj=None, memo_seen=None,
                 binary=None, operator=None):
    """Run one visitor in the model.  Sibling visitors of the LIKE family are stubbed (the delegation is the
    result), every other `self.<helper>()` / module helper is followed.  -> (result, binary passed in, selfobj)."""

    @model_callable
    def ci_wrap(x):
        if not isinstance(x, _Term):
            raise Unsupported("ilike_case_insensitive() of a non-operand")
        return _Term("lower", x)

    def mod_attr(attr):
        if attr == "ilike_case_insensitive":
            return ci_wrap
        if attr.endswith("_op") or attr.isupper():
            return ModelObj(attr)
        return NotImplemented

    modobj = ModelObj("module", attr_default=mod_attr)

    def name_hook(name, mini):
        imp = fn.module.imports.get(name)
        if imp is not None and imp[0] == "module":
            return modobj
        t = ctx.index.resolve(fn.module, name)
        if t is not None and not isinstance(t, (FuncInfo, ClassInfo, tuple)):
            return modobj  # a module
        if mod_attr(name) is not NotImplemented:
            return modobj.m_getattr(name, mini, None)
        return NotImplemented

    def resolver(name):
        t = ctx.index.resolve(fn.module, name)
        return t if isinstance(t, FuncInfo) and t.cls is None else None

    def on_follow(h, args, kwargs):
        ctx.functions_analysed.add(h.key)
        if memo_seen is not None and any("memoized" in d for d in h.decorators) and args:
            memo_seen.append(h)

    if selfobj is None:
        stubs = {nm: (lambda *a, _nm=nm, **kw: _Delegated(_nm, a, kw)) for nm in _FAMILY}
        stubs["process"] = _render_operand
        stubs["render_literal_value"] = lambda v, *a, **kw: f"<lit:{v}>"
        selfobj = ModelSelf(ctx.index, cls, attrs={"_like_percent_literal": _Term("P")}, methods=stubs,
                            on_follow=on_follow)
    neg, ci, stem = _parse_visit(fn.name)
    own = f"{'not_' if neg else ''}{'i' if ci else ''}{stem}_op"
    mini = Mini2(name_hook=name_hook, func_resolver=resolver, what=f"{cls.qualname}.{fn.name}")
    if operator is None:
        operator = modobj.m_getattr(own if own_operator else "some_other_op", mini, None)
    if binary is None:
        binary = _Binary(_Term("L"), _Term("R"), {} if escape is None else {"escape": escape})
    val = mini.run_top(fn, [selfobj, binary, operator], {}, selfobj)
    return val, binary, selfobj


def _model_delegating(ctx, cls, fn, neg, ci, stem, val, binary):
    """checks of a visitor whose model run ended in `self.visit_<family>(binary', operator, **kw)`."""
    problems = []
    dneg, dci, dstem = _parse_visit(val.name)
    b2 = val.args[0] if val.args and isinstance(val.args[0], _Binary) else val.kwargs.get("binary")
    if stem != "like":
        if dstem != "like":
            problems.append(f"delegates to {val.name} (not a LIKE visitor)")
        if dneg != neg:
            problems.append(f"delegates to {val.name}: NOT polarity differs from the method name")
        if dci != ci:
            problems.append(f"delegates to {val.name}: case-insensitivity differs from the method name")
    else:
        if dstem != "like" or dneg != neg:
            problems.append(f"delegates to {val.name}: NOT polarity / family differs")
        if dci and not ci:
            problems.append(f"case-sensitive visitor delegates to {val.name}")
    if not (isinstance(b2, _Binary) and b2.origin is binary.origin):
        problems.append("does not pass the rewritten binary expression on")
        return problems, None
    left, right = b2.attrs["left"], b2.attrs["right"]
    if not (isinstance(left, _Term) and isinstance(right, _Term)):
        raise Unsupported("operands are not SQL operand terms in the model")
    lshape, rshape = left.flat(), right.flat()
    pretty = {"P": "'%'", "R": "right", "r": "lower(right)", "L": "left", "l": "lower(left)"}
    if stem != "like":
        want = [("r" if ci else "R") if t == "X" else t for t in EXPECTED_SHAPE[stem]]
        if rshape != want:
            problems.append("pattern is " + " || ".join(pretty[t] for t in rshape)
                            + ", expected " + " || ".join(pretty[t] for t in want))
        if ci and lshape != ["l"]:
            problems.append("left operand is not wrapped in ilike_case_insensitive")
        elif not ci and lshape != ["L"]:
            problems.append("left operand is rewritten in a case-sensitive variant")
    elif ci and not dci:
        # plain ilike: both operands must be lower-cased when the operator is this method's own operator
        low = sorted(n for n, sh, w in (("left", lshape, ["l"]), ("right", rshape, ["r"])) if sh == w)
        if low != ["left", "right"]:
            problems.append(f"delegates to the case-sensitive {val.name} but lower-cases only {low} "
                            f"when the operator is {'not_' if neg else ''}ilike_op")
    return problems, rshape


def _model_terminal(ctx, cls, fn, neg, ci, text, selfobj, memo_seen):
    """checks of a visitor that renders the string itself; `text` = model rendering with escape '^'."""
    want = (["NOT"] if neg else []) + (["ILIKE"] if ci else ["LIKE"])
    problems = []

    def split(t):
        if not isinstance(t, str):
            raise Unsupported("visitor does not return a string in the model")
        toks = t.split()
        if toks.count("<L>") != 1 or toks.count("<R>") != 1 or toks[0] != "<L>":
            raise Unsupported(f"rendering `{t}` is not `<left> KEYWORD <right> ...`")
        i = toks.index("<R>")
        return [w.upper() for w in toks[1:i]], toks[i + 1:]

    words, tail = split(text)
    if words != want:
        problems.append(f"renders `{' '.join(words)}`, the method name requires `{' '.join(want)}`")
    if not tail:
        problems.append("renders no ESCAPE clause")
    elif [tail[0].upper()] + tail[1:] != ["ESCAPE", "<lit:^>"]:
        problems.append(f"ESCAPE clause is not rendered from the escape modifier via render_literal_value() "
                        f"(model renders `{' '.join(tail)}` for escape '^')")
    else:
        # the same compiler object renders a second LIKE with another escape character, then one without
        text2, _, _ = _run_visitor(ctx, cls, fn, "!", selfobj=selfobj, memo_seen=memo_seen)
        _w2, tail2 = split(text2)
        if tail2 != [tail[0], "<lit:!>"]:
            memo = list(memo_seen or [])
            why = (f": the clause comes from `{memo[0].name}`, which is decorated "
                   f"`@{[d for d in memo[0].decorators if 'memoized' in d][0]}`: that memoiser ignores the "
                   "arguments, so the first escape character rendered by this compiler is reused for every "
                   "later LIKE of the statement") if memo else ""
            problems.append(f"a second LIKE with escape '!' on the same compiler renders `{' '.join(tail2)}`" + why)
        text3, _, _ = _run_visitor(ctx, cls, fn, None)
        _w3, tail3 = split(text3)
        if tail3:
            problems.append(f"without an escape modifier the visitor still renders `{' '.join(tail3)}`")
    return problems, want


def _check_stem_visitor(ctx, cls: ClassInfo, fn: FuncInfo, neg, ci, stem):
    key = f"{cls.key}.{fn.name}"
    try:
        val, binary, _so = _run_visitor(ctx, cls, fn, "^")
        if isinstance(val, _Delegated):
            problems, shape = _model_delegating(ctx, cls, fn, neg, ci, stem, val, binary)
            ctx.check(not problems, key, "; ".join(problems),
                      f"{'NOT ' if neg else ''}{'I' if ci else ''}LIKE with pattern shape {shape}", fn.loc)
            return
        raise Unsupported("no delegation to a sibling visitor in the model")
    except Unsupported as e:
        ctx.note(f"{key}: model run not possible ({e}); structural matcher used")
    problems = []
    bnames = _binary_names(fn)
    pnames = set()
    for n in walk_local(fn.node):
        if isinstance(n, ast.Assign) and len(n.targets) == 1 and isinstance(n.targets[0], ast.Name) \
                and dotted(n.value) == "self._like_percent_literal":
            pnames.add(n.targets[0].id)
    dels = _delegation(fn)
    rets = returns_of(fn.node)
    if not dels or len(dels) != len(rets):
        ctx.require(False, f"{key}: does not delegate to a visit_*like_op_binary method (unknown idiom)")
    for dneg, dci, dstem, call in dels:
        if dstem != "like":
            problems.append(f"delegates to {call.func.attr} (not a LIKE visitor)")
        if dneg != neg:
            problems.append(f"delegates to {call.func.attr}: NOT polarity differs from the method name")
        if dci != ci:
            problems.append(f"delegates to {call.func.attr}: case-insensitivity differs from the method name")
        if not (call.args and isinstance(call.args[0], ast.Name) and call.args[0].id in bnames):
            problems.append("does not pass the rewritten binary expression on")
    right = [(n, n.value) for n in walk_local(fn.node)
             if isinstance(n, ast.Assign) and len(n.targets) == 1 and isinstance(n.targets[0], ast.Attribute)
             and isinstance(n.targets[0].value, ast.Name) and n.targets[0].value.id in bnames]
    rights = [v for n, v in right if n.targets[0].attr == "right"]
    lefts = [v for n, v in right if n.targets[0].attr == "left"]
    if len(rights) != 1:
        ctx.require(False, f"{key}: expected exactly one assignment to <binary>.right")
    shape = _shape(rights[0], fn, pnames, bnames)
    ctx.require(shape is not None, f"{key}: right operand `{unparse(rights[0])}` is not a concat/_rconcat shape")
    want = [("r" if ci else "R") if t == "X" else t for t in EXPECTED_SHAPE[stem]]
    if shape != want:
        pretty = {"P": "'%'", "R": "right", "r": "lower(right)"}
        problems.append("pattern is " + " || ".join(pretty[t] for t in shape)
                        + ", expected " + " || ".join(pretty[t] for t in want))
    if ci:
        okl = len(lefts) == 1 and _is_ci_wrap(lefts[0]) and isinstance(lefts[0].args[0], ast.Attribute) \
            and lefts[0].args[0].attr == "left"
        if not okl:
            problems.append("left operand is not wrapped in ilike_case_insensitive")
    elif lefts:
        problems.append("left operand is rewritten in a case-sensitive variant")
    ctx.check(not problems, key, "; ".join(problems),
              f"{'NOT ' if neg else ''}{'I' if ci else ''}LIKE with pattern shape {shape}", fn.loc)


def _escape_helper(ctx, cls: ClassInfo, call: ast.Call, esc_vars):
    """`self.<m>(.., <escape var>, ..)` -> (FuncInfo of m resolved through the MRO of cls, name of the
    parameter that receives the escape variable), else None."""
    f = call.func
    if not (isinstance(f, ast.Attribute) and isinstance(f.value, ast.Name) and f.value.id == "self"):
        return None
    m = ctx.index.resolve_method(cls, f.attr)
    if m is None or f.attr == "render_literal_value":
        return None
    params = [p for p in m.params if p != "self"]
    for i, a in enumerate(call.args):
        if isinstance(a, ast.Name) and a.id in esc_vars and i < len(params):
            return m, params[i]
    for k in call.keywords:
        if k.arg and isinstance(k.value, ast.Name) and k.value.id in esc_vars and k.arg in params:
            return m, k.arg
    return None


def _check_like_visitor(ctx, cls: ClassInfo, fn: FuncInfo, neg, ci):
    key = f"{cls.key}.{fn.name}"
    try:
        memo_seen = []
        val, binary, selfobj = _run_visitor(ctx, cls, fn, "^", memo_seen=memo_seen)
        if isinstance(val, _Delegated):
            problems, _shape = _model_delegating(ctx, cls, fn, neg, ci, "like", val, binary)
            ctx.check(not problems, key, "; ".join(problems), f"delegates to {val.name}", fn.loc)
        else:
            problems, want = _model_terminal(ctx, cls, fn, neg, ci, val, selfobj, memo_seen)
            ctx.check(not problems, key, "; ".join(problems), f"`{' '.join(want)}` + ESCAPE from modifiers", fn.loc)
        return
    except Unsupported as e:
        ctx.note(f"{key}: model run not possible ({e}); structural matcher used")
    problems = []
    dels = _delegation(fn)
    rets = returns_of(fn.node)
    ctx.require(rets, f"{key}: no return")
    if dels:
        ctx.require(len(dels) == len(rets), f"{key}: mixes delegation and direct rendering")
        bnames = _binary_names(fn)
        for dneg, dci, dstem, call in dels:
            if dstem != "like" or dneg != neg:
                problems.append(f"delegates to {call.func.attr}: NOT polarity / family differs")
            if dci and not ci:
                problems.append(f"case-sensitive visitor delegates to {call.func.attr}")
            if ci and not dci:
                # both operands must be lower-cased on the path where the operator is the plain ilike op
                wraps = {n.targets[0].attr for n in walk_local(fn.node)
                         if isinstance(n, ast.Assign) and len(n.targets) == 1
                         and isinstance(n.targets[0], ast.Attribute)
                         and isinstance(n.targets[0].value, ast.Name) and n.targets[0].value.id in bnames
                         and _is_ci_wrap(n.value) and isinstance(n.value.args[0], ast.Attribute)
                         and n.value.args[0].attr == n.targets[0].attr}
                if wraps != {"left", "right"}:
                    problems.append(f"delegates to the case-sensitive {call.func.attr} but lower-cases only {sorted(wraps)}")
                else:
                    # guard must name the operator of this very method
                    own = f"{'not_' if neg else ''}ilike_op"
                    tests = [unparse(n.test) for n in walk_local(fn.node) if isinstance(n, ast.If)]
                    if tests and not any(t.replace("operators.", "").endswith(f"is {own}") for t in tests):
                        problems.append(f"lower-casing is guarded by `{tests[0]}`, not by `operator is {own}`")
        ctx.check(not problems, key, "; ".join(problems), f"delegates to {dels[0][3].func.attr}", fn.loc)
        return
    # terminal renderer
    kw_consts = [s for r in rets for s in str_constants(r.value)]
    template = [s for s in kw_consts if "LIKE" in s.upper() and "ESCAPE" not in s.upper()]
    ctx.require(template, f"{key}: no LIKE template string in the return expression")
    words = template[0].upper().replace("%S", " ").split()
    want = (["NOT"] if neg else []) + (["ILIKE"] if ci else ["LIKE"])
    if words != want:
        problems.append(f"renders `{' '.join(words)}`, the method name requires `{' '.join(want)}`")
    # ESCAPE clause fed from binary.modifiers['escape'] through render_literal_value
    esc_vars = set()
    for n in walk_local(fn.node):
        if isinstance(n, ast.Assign) and len(n.targets) == 1 and isinstance(n.targets[0], ast.Name):
            v = n.value
            src = None
            if isinstance(v, ast.Call) and (call_name(v) or "").endswith(".modifiers.get") and v.args:
                src = v.args[0]
            elif isinstance(v, ast.Subscript) and (dotted(v.value) or "").endswith(".modifiers"):
                src = v.slice
            if isinstance(src, ast.Constant) and src.value == "escape":
                esc_vars.add(n.targets[0].id)
    has_kw = any("ESCAPE" in s.upper() for s in kw_consts)
    rendered = False
    for r in rets:
        for c in calls_in(r.value):
            if (call_name(c) or "").endswith("render_literal_value") and c.args \
                    and isinstance(c.args[0], ast.Name) and c.args[0].id in esc_vars:
                rendered = True
            # an extracted helper `self.h(escape)` whose return renders " ESCAPE " + render_literal_value(<its param>)
            h = _escape_helper(ctx, cls, c, esc_vars)
            if h is not None:
                hfn, hparam = h
                ctx.functions_analysed.add(hfn.key)
                hconsts = [s for hr in returns_of(hfn.node) for s in str_constants(hr.value)]
                if any("ESCAPE" in s.upper() for s in hconsts):
                    has_kw = True
                    for hc in calls_in(hfn.node):
                        if (call_name(hc) or "").endswith("render_literal_value") and hc.args \
                                and isinstance(hc.args[0], ast.Name) and hc.args[0].id == hparam:
                            rendered = True
                    memo = [d for d in hfn.decorators if "memoized" in d or d.split(".")[-1] in ("cache", "lru_cache")]
                    if memo and any("memoized" in d for d in memo):
                        problems.append(
                            f"ESCAPE clause comes from `{hfn.name}`, which is decorated `@{memo[0]}`: that memoiser "
                            "ignores the arguments, so the first escape character rendered by this compiler is "
                            "reused for every later LIKE of the statement")
    if not esc_vars:
        problems.append("does not read binary.modifiers['escape']")
    if not has_kw:
        problems.append("renders no ESCAPE clause")
    elif not rendered:
        problems.append("ESCAPE clause is not rendered from the escape modifier via render_literal_value()")
    ctx.check(not problems, key, "; ".join(problems), f"`{' '.join(want)}` + ESCAPE from modifiers", fn.loc)


def _operand_lowers(ctx, cls, fn: FuncInfo) -> bool:
    """visit_ilike_case_insensitive_operand wraps the operand in lower(): model run, else string constants."""
    try:
        element = ModelObj("element", {"element": _Term("L")})
        selfobj = ModelSelf(ctx.index, cls, methods={"process": _render_operand})
        mini = Mini2(what=f"{cls.qualname}.{fn.name}")
        val = mini.run_top(fn, [selfobj, element], {}, selfobj)
        if isinstance(val, str) and "<L>" in val:
            return "lower(" in val.lower()
    except Unsupported:
        pass
    return any("lower(" in s.lower() for r in returns_of(fn.node) for s in str_constants(r.value))


def _renders_ilike(ctx, cls, m: FuncInfo) -> bool:
    try:
        val, _b, _s = _run_visitor(ctx, cls, m, None)
        if isinstance(val, _Delegated):
            return False
        if isinstance(val, str):
            return "ILIKE" in val.upper().split()
    except Unsupported:
        pass
    return not _delegation(m) and any(
        "ILIKE" in s.upper() for r in returns_of(m.node) for s in str_constants(r.value))


@R.rule("C08-R3", floor=21, template="T-SIBLING",
        desc="compiler visitors of the LIKE family (base SQLCompiler and every dialect override): percent "
             "placement by stem, lower() on exactly the i-variants, delegation to the LIKE visitor of the "
             "same polarity, keyword and ESCAPE clause of terminal visitors, '%' literal, and dialects "
             "that do not lower() the operand render ILIKE themselves")
def r3(ctx):
    base = ctx.index.cls(f"{COMP}::SQLCompiler")
    classes = [base] + sorted(ctx.index.subclasses(base), key=lambda c: c.key)
    names = []
    for stem in STEMS + ("like",):
        for ci in ("", "i"):
            for neg in ("", "not_"):
                names.append(f"visit_{neg}{ci}{stem}_op_binary")
    for nm in names:
        if nm not in base.methods:
            ctx.violation(f"{base.key}.{nm}", "visitor not defined on the base compiler", base.loc)
    for cls in classes:
        for nm in names:
            fn = cls.methods.get(nm)
            if fn is None:
                continue
            ctx.functions_analysed.add(fn.key)
            neg, ci, stem = _parse_visit(nm)
            if stem == "like":
                _check_like_visitor(ctx, cls, fn, neg, ci)
            else:
                _check_stem_visitor(ctx, cls, fn, neg, ci, stem)
    # the percent literal
    pl = base.methods.get("_like_percent_literal")
    ctx.require(pl is not None, "SQLCompiler._like_percent_literal vanished")
    consts = [s for st in pl.node.body if not (isinstance(st, ast.Expr) and isinstance(st.value, ast.Constant))
              for s in str_constants(st)]
    ctx.check("'%'" in consts, pl.key, f"_like_percent_literal renders {consts}, not the SQL literal '%'",
              "literal_column(\"'%'\")", pl.loc)
    # who does not lower() must render ILIKE
    for cls in classes:
        fn = cls.methods.get("visit_ilike_case_insensitive_operand")
        if fn is None:
            continue
        ctx.functions_analysed.add(fn.key)
        lowers = _operand_lowers(ctx, cls, fn)
        key = f"{cls.key}.visit_ilike_case_insensitive_operand"
        if lowers:
            ctx.ok(key, "applies lower()")
            continue
        missing = []
        for nm, want in (("visit_ilike_op_binary", "ILIKE"), ("visit_not_ilike_op_binary", "NOT ILIKE")):
            m = ctx.index.resolve_method(cls, nm)
            terminal = m is not None and _renders_ilike(ctx, cls, m)
            if not terminal:
                missing.append(nm)
        ctx.check(not missing, key,
                  f"operand is not lower-cased but {missing} do(es) not render ILIKE (case-insensitivity lost)",
                  "no lower(); ILIKE rendered natively", fn.loc)


# ---------------------------------------------------------------------------------------- R4
def _family_visitors(ctx):
    """[(class, FuncInfo)] every definition of a LIKE family visitor: base compiler and dialect overrides."""
    base = ctx.index.cls(f"{COMP}::SQLCompiler")
    out = []
    for cls in [base] + sorted(ctx.index.subclasses(base), key=lambda c: c.key):
        for nm in _FAMILY:
            fn = cls.methods.get(nm)
            if fn is not None:
                out.append((cls, fn))
    return out


def _extracted_bind_attrs(ctx):
    """(value-carrying attributes of BindParameter that are NOT part of its cache key, attributes that are).
    Read from the class itself: the names of its traversal list and the properties computed from them, minus
    what the key tuple returned by its own `_gen_cache_key` reads off `self`."""
    bp = ctx.index.cls("sql/elements.py::BindParameter")
    gck = bp.methods.get("_gen_cache_key")
    ctx.require(gck is not None and gck.params, "BindParameter no longer defines its own _gen_cache_key")
    ctx.functions_analysed.add(gck.key)
    me = gck.params[0]
    keyed = set()
    for r in returns_of(gck.node):
        if r.value is None:
            continue
        for n in ast.walk(r.value):
            if isinstance(n, ast.Attribute) and isinstance(n.value, ast.Name) and n.value.id == me:
                keyed.add(n.attr)
    ctx.require(keyed, "BindParameter._gen_cache_key: no key tuple built from attributes of the parameter")
    ti = ctx.ev.class_value(bp, "_traverse_internals")
    names = {t[0] for t in ti if isinstance(t, (tuple, list)) and t and isinstance(t[0], str)} \
        if isinstance(ti, (list, tuple)) else set()
    ctx.require(names, "BindParameter._traverse_internals is not a literal list of (name, symbol)")
    extracted = names - keyed
    grew = True
    while grew:
        grew = False
        for nm, f in bp.methods.items():
            if nm in extracted or nm in keyed or not any(d.rsplit(".", 1)[-1].endswith("property") for d in f.decorators):
                continue
            reads = {n.attr for n in walk_local(f.node) if isinstance(n, ast.Attribute) and isinstance(n.value, ast.Name)
                     and f.params and n.value.id == f.params[0]}
            if reads & extracted:
                extracted.add(nm)
                grew = True
    return extracted, keyed


def _value_reads(ctx, fn: FuncInfo, extracted, skip_names=()):
    """Reads of an extracted (non cache key) bind attribute off something computed from the visited element
    (`fn`'s first parameter after self): in `fn` itself and in the same-module helpers it calls, whatever the
    locals are called.  -> [(text of the read, name of the function it is in, line)]."""
    from ._helpers_rob_c2 import Scope
    sc = Scope(ctx, fn)
    elem = "param:" + fn.params[1]
    hits = []
    for s in sc.with_helpers():
        if s is not sc and s.info is not None and s.info.name in skip_names:
            continue  # sibling visitors are instances of their own
        for n in s.local_walk():
            recv = attr = None
            if isinstance(n, ast.Attribute) and isinstance(n.ctx, ast.Load) and n.attr in extracted:
                recv, attr = n.value, n.attr
            elif isinstance(n, ast.Call) and isinstance(n.func, ast.Name) and n.func.id in ("getattr", "hasattr") \
                    and len(n.args) >= 2 and isinstance(n.args[1], ast.Constant) and n.args[1].value in extracted:
                recv, attr = n.args[0], n.args[1].value
            if recv is None:
                continue
            at = s.node_of(n)
            if at is None or not s.rd.reachable(at):
                continue
            if elem in s.deps(recv, at):
                hits.append((f"{unparse(recv)}.{attr}", s.info.qualname if s.info is not None else s.name, n.lineno))
    return hits


@R.rule("C08-R4", floor=17, template="T-FLOW (compile-time read set vs cache key)",
        desc="what a LIKE family visitor renders is decided at compile time and shared through the compiled cache: "
             "the visitor (and the helpers it calls) never reads an attribute of a bound operand that "
             "BindParameter keeps out of its cache key (value / callable / effective_value) -- ESCAPE, percent "
             "placement and lower() depend on binary.modifiers / the operator only")
def r4(ctx):
    extracted, keyed = _extracted_bind_attrs(ctx)
    ctx.ok("sql/elements.py::BindParameter:extracted-attributes",
           f"not in the cache key: {sorted(extracted)}; in the key: {sorted(keyed)}")
    for cls, fn in _family_visitors(ctx):
        ctx.functions_analysed.add(fn.key)
        ctx.require(len(fn.params) >= 2, f"{fn.key}: no element parameter")
        hits = _value_reads(ctx, fn, extracted, skip_names=set(_FAMILY))
        key = f"{cls.key}.{fn.name}:reads-only-keyed-state"
        ctx.check(not hits, key,
                  f"{fn.name} decides the rendered SQL from "
                  + ", ".join(f"`{t}` (in {w}, line {ln})" for t, w, ln in hits[:3])
                  + f": BindParameter keeps {sorted(extracted)} out of its cache key (the value is extracted and "
                    "re-bound on every execution), so the string compiled for the first operand -- e.g. with or "
                    "without its ESCAPE clause -- is reused from the compiled cache for every later operand of "
                    "the same statement shape",
                  "no read of an extracted bind attribute", fn.loc,
                  [f"{w}:{ln}: {t}" for t, w, ln in hits] or None)


# ---------------------------------------------------------------------------------------- R5
def _ci_path(ctx, cls: ClassInfo, stem: str, escape: str):
    """Follow visit_i<stem>_op_binary -> ... -> terminal LIKE visitor in the model.
    -> (right operand is lower()ed, escape character of the rendered ESCAPE clause)."""
    fn = ctx.index.resolve_method(cls, f"visit_i{stem}_op_binary")
    if fn is None:
        raise Unsupported(f"visit_i{stem}_op_binary not resolvable")
    val, binary, selfobj = _run_visitor(ctx, cls, fn, escape)
    hops = 0
    while isinstance(val, _Delegated):
        hops += 1
        if hops > 4:
            raise Unsupported("delegation chain too long")
        b2 = val.args[0] if val.args and isinstance(val.args[0], _Binary) else val.kwargs.get("binary")
        op = val.args[1] if len(val.args) > 1 else val.kwargs.get("operator")
        nxt = ctx.index.resolve_method(cls, val.name)
        if not isinstance(b2, _Binary) or nxt is None:
            raise Unsupported("delegation without the binary expression")
        binary = b2
        kw = dict(val.kwargs)
        kw.pop("binary", None)
        kw.pop("operator", None)
        val, _b, _s = _run_visitor(ctx, cls, nxt, escape, binary=b2, operator=op)
    if not isinstance(val, str):
        raise Unsupported("terminal visitor does not render a string in the model")
    right = binary.attrs["right"]
    lowered = isinstance(right, _Term) and "r" in right.flat()
    toks = val.split()
    rendered = None
    for i, t in enumerate(toks):
        if t.upper() == "ESCAPE" and i + 1 < len(toks) and toks[i + 1].startswith("<lit:") and toks[i + 1].endswith(">"):
            rendered = toks[i + 1][len("<lit:"):-1]
    if rendered is None:
        raise Unsupported(f"no ESCAPE clause in the model rendering `{val}`")
    return lowered, rendered


@R.rule("C08-R5", floor=4, template="T-PATH/T-FLOW (bounded model: escape chain composed with lower())",
        desc="case-insensitive variants rendered as lower(x) LIKE lower(pattern) ESCAPE e: the pattern produced by "
             "the autoescape chain, after lower(), still decodes under the rendered ESCAPE character to the "
             "lower-cased literal operand -- for the default, a non-letter, an upper-case and a lower-case letter "
             "escape character")
def r5(ctx):
    f, _p_fn, run = _chain_runner(ctx)
    base = ctx.index.cls(f"{COMP}::SQLCompiler")
    classes = [("default", None), ("non-letter", "^"), ("upper-case-letter", "X"), ("lower-case-letter", "x")]
    for label, e in classes:
        key = f"{f.key}:case-insensitive:escape={label}"
        _a, kws0 = run("", e, True)
        eff = kws0.get("escape")
        if not (isinstance(eff, str) and len(eff) == 1):
            ctx.violation(key, f"with escape={e!r} the forwarded escape is {eff!r}, not a single character", f.loc)
            continue
        # how the compiler renders the i-variants: is the pattern lower()ed, which character follows ESCAPE
        paths = {}
        for stem in STEMS:
            try:
                paths[stem] = _ci_path(ctx, base, stem, eff)
            except Unsupported as ex:
                ctx.note(f"{key}: model of visit_i{stem}_op_binary not possible ({ex}); the clauses C08-R3 enforces "
                         "are assumed (pattern wrapped in lower(), ESCAPE rendered verbatim from the modifier)")
                paths[stem] = (True, eff)
        witness = None
        n = 0
        alphabet = []
        for ch in ("%", "_", eff, eff.swapcase(), "a", "A"):
            if ch not in alphabet:
                alphabet.append(ch)
        for stem, (lowered, rendered) in sorted(paths.items()):
            if not lowered:
                continue  # native case-insensitive LIKE: the backend's matching of the escape character is not decided
            for s in strings_over(alphabet, 3):
                n += 1
                args, kws = run(s, e, True)
                if len(args) != 1 or not isinstance(args[0], str):
                    witness = f"operand {s!r}: forwarded {args}"
                    break
                pat = args[0].lower()
                dec = _like_decode(pat, rendered)
                how = f"i{stem}({s!r}, escape={eff!r}, autoescape=True) -> lower({args[0]!r}) = {pat!r} ESCAPE {rendered!r}"
                if isinstance(dec, str):
                    witness = f"{how}: {dec}"
                elif any(k == "wild" for k, _ in dec):
                    witness = f"{how}: {[c for k, c in dec if k == 'wild'][0]!r} is left as an active wildcard"
                elif "".join(c for _, c in dec) != s.lower():
                    witness = f"{how} matches the literal {''.join(c for _, c in dec)!r} instead of {s.lower()!r}"
                if witness:
                    break
            if witness:
                break
        ctx.check(witness is None, key,
                  f"case-insensitive variants with a {label} escape character: lower() is applied to the already "
                  f"escaped pattern, but the ESCAPE clause keeps the original character: {witness}",
                  f"{n} operands over {alphabet}: lower(pattern) decodes to lower(operand)", f.loc,
                  [witness] if witness else None)


# ---------------------------------------------------------------------------------------- self test
_CHAIN = ('        other = other.replace(escape, escape + escape)\n'
          '        for wildcard in ("%", "_"):\n'
          '            if wildcard != escape:\n'
          '                other = other.replace(wildcard, escape + wildcard)\n')
R.mutant("r1-swap-replace-steps", OPS,
         sub(_CHAIN,
             '        for wildcard in ("%", "_"):\n'
             '            if wildcard != escape:\n'
             '                other = other.replace(wildcard, escape + wildcard)\n'
             '        other = other.replace(escape, escape + escape)\n'), "C08-R1")
R.mutant("r1-drop-underscore", OPS,
         sub('        for wildcard in ("%", "_"):\n            if wildcard != escape:\n',
             '        for wildcard in ("%",):\n            if wildcard != escape:\n'), "C08-R1")
R.mutant("r1-escape-char-not-doubled", OPS,
         sub('        other = other.replace(escape, escape + escape)\n', ''), "C08-R1")
R.mutant("r1-wildcard-equal-to-escape-doubled-twice", OPS,
         sub('            if wildcard != escape:\n                other = other.replace(wildcard, escape + wildcard)\n',
             '            other = other.replace(wildcard, escape + wildcard)\n'), "C08-R1")
R.mutant("r1-escape-not-forwarded", OPS, sub("    return fn(other, escape=escape)\n", "    return fn(other)\n"), "C08-R1")
R.mutant("r1-default-is-wildcard", OPS, sub('            escape = "/"\n', '            escape = "%"\n'), "C08-R1")
R.mutant("r2-wrong-stem", OPS,
         sub("    return _escaped_like_impl(a.istartswith, b, escape, autoescape)",
             "    return _escaped_like_impl(a.startswith, b, escape, autoescape)"), "C08-R2")
R.mutant("r2-not-variant-not-inverted", OPS,
         sub("    return ~_escaped_like_impl(a.endswith, b, escape, autoescape)",
             "    return _escaped_like_impl(a.endswith, b, escape, autoescape)"), "C08-R2")
R.mutant("r2-method-drops-autoescape", OPS,
         sub("            iendswith_op, other, escape=escape, autoescape=autoescape\n",
             "            iendswith_op, other, escape=escape\n"), "C08-R2")
R.mutant("r3-rconcat-to-concat", COMP,
         sub("        binary.right = percent._rconcat(ilike_case_insensitive(binary.right))\n"
             "        return self.visit_not_ilike_op_binary(binary, operator, **kw)",
             "        binary.right = percent.concat(ilike_case_insensitive(binary.right))\n"
             "        return self.visit_not_ilike_op_binary(binary, operator, **kw)"), "C08-R3")
R.mutant("r3-not-like-drops-escape", COMP,
         sub('        return "%s NOT LIKE %s" % (\n            binary.left._compiler_dispatch(self, **kw),\n'
             '            binary.right._compiler_dispatch(self, **kw),\n        ) + (\n'
             '            " ESCAPE " + self.render_literal_value(escape, sqltypes.STRINGTYPE)\n'
             '            if escape is not None\n            else ""\n        )\n',
             '        return "%s NOT LIKE %s" % (\n            binary.left._compiler_dispatch(self, **kw),\n'
             '            binary.right._compiler_dispatch(self, **kw),\n        )\n'), "C08-R3")
R.mutant("r3-not-contains-delegates-positive", COMP,
         sub("        binary.right = percent.concat(binary.right).concat(percent)\n"
             "        return self.visit_not_like_op_binary(binary, operator, **kw)",
             "        binary.right = percent.concat(binary.right).concat(percent)\n"
             "        return self.visit_like_op_binary(binary, operator, **kw)"), "C08-R3")
R.mutant("r3-pg-not-ilike-renders-ilike", "dialects/postgresql/base.py",
         sub('        return "%s NOT ILIKE %s" % (', '        return "%s ILIKE %s" % ('), "C08-R3")
R.mutant("r3-icontains-right-not-lowered", COMP,
         sub("        binary.right = percent.concat(\n            ilike_case_insensitive(binary.right)\n        ).concat(percent)\n"
             "        return self.visit_ilike_op_binary(binary, operator, **kw)",
             "        binary.right = percent.concat(\n            binary.right\n        ).concat(percent)\n"
             "        return self.visit_ilike_op_binary(binary, operator, **kw)"), "C08-R3")
# benign refactors
R.mutant("benign-rename-local-percent", COMP,
         sub("    def visit_endswith_op_binary(self, binary, operator, **kw):\n        binary = binary._clone()\n"
             "        percent = self._like_percent_literal\n        binary.right = percent.concat(binary.right)\n",
             "    def visit_endswith_op_binary(self, binary, operator, **kw):\n        binary = binary._clone()\n"
             "        pct = self._like_percent_literal\n        binary.right = pct.concat(binary.right)\n"), None)
R.mutant("benign-split-chain-into-statements", OPS,
         sub(_CHAIN,
             '        doubled = escape + escape\n        other = other.replace(escape, doubled)\n'
             '        if escape != "%":\n            other = other.replace("%", escape + "%")\n'
             '        if "_" != escape:\n            other = other.replace("_", f"{escape}_")\n'),
         None)
# rob-D1: the replace chain extracted into a module level helper + early return for the plain path (rfD_7 family)
R.mutant("benign-chain-extracted-helper", OPS,
         chain(sub('def _escaped_like_impl(\n    fn: Callable[..., Any], other: Any, escape: Optional[str], autoescape: bool\n) -> Any:\n    if autoescape:\n',
             'def _like_literal(text, esc):\n    out = text.replace(esc, esc * 2)\n'
             '    for wc in "%_":\n        if wc == esc:\n            continue\n        out = out.replace(wc, esc + wc)\n    return out\n\n\n'
             'def _escaped_like_impl(\n    fn: Callable[..., Any], other: Any, escape: Optional[str], autoescape: bool\n) -> Any:\n'
             '    if not autoescape:\n        return fn(other, escape=escape)\n    if autoescape:\n'),
         sub(_CHAIN, '        other = _like_literal(other, escape)\n')), None)
R.mutant("r1-extracted-helper-skips-escape-char", OPS,
         chain(sub('def _escaped_like_impl(\n    fn: Callable[..., Any], other: Any, escape: Optional[str], autoescape: bool\n) -> Any:\n    if autoescape:\n',
             'def _like_literal(text, esc):\n    out = text\n'
             '    for wc in "%_":\n        if wc == esc:\n            continue\n        out = out.replace(wc, esc + wc)\n    return out\n\n\n'
             'def _escaped_like_impl(\n    fn: Callable[..., Any], other: Any, escape: Optional[str], autoescape: bool\n) -> Any:\n'
             '    if autoescape:\n'),
         sub(_CHAIN, '        other = _like_literal(other, escape)\n')), "C08-R1")
# result bound to a local, keyword dict
R.mutant("benign-forward-through-local", OPS,
         sub("    return fn(other, escape=escape)\n", "    opts = {\"escape\": escape}\n    result = fn(other, **opts)\n    return result\n"), None)
R.mutant("benign-logging", OPS,
         sub('        if escape is None:\n            escape = "/"\n', '        if escape is None:\n            escape = "/"\n        _dbg = len(other) if isinstance(other, str) else 0\n'), None)
_ESC_INLINE = ('        ) + (\n            " ESCAPE " + self.render_literal_value(escape, sqltypes.STRINGTYPE)\n'
               '            if escape is not None\n            else ""\n        )\n\n    def visit_not_like_op_binary')
_ESC_HELPER = ('        ) + (self._like_escape_clause(escape) if escape is not None else "")\n\n'
               '    %sdef _like_escape_clause(self, escape):\n'
               '        return " ESCAPE " + self.render_literal_value(escape, sqltypes.STRINGTYPE)\n\n'
               '    def visit_not_like_op_binary')
R.mutant("benign-escape-clause-helper", COMP, sub(_ESC_INLINE, _ESC_HELPER % ""), None)
R.mutant("r3-escape-clause-helper-memoized", COMP,
         sub(_ESC_INLINE, _ESC_HELPER % "@util.memoized_instancemethod\n    "), "C08-R3")
# ---- rob-D1: benign families (helpers followed, locals resolved, if-shapes irrelevant) and their breaking twins
R.mutant("benign-op-result-local-and-keywords", OPS,
         sub("    return ~_escaped_like_impl(a.startswith, b, escape, autoescape)\n",
             "    positive = _escaped_like_impl(\n        a.startswith, b, autoescape=autoescape, escape=escape\n    )\n"
             "    negated = ~positive\n    return negated\n"), None)
R.mutant("r2-op-result-local-swaps-escape-args", OPS,
         sub("    return ~_escaped_like_impl(a.startswith, b, escape, autoescape)\n",
             "    positive = _escaped_like_impl(\n        a.startswith, b, autoescape=escape, escape=autoescape\n    )\n"
             "    negated = ~positive\n    return negated\n"), "C08-R2")
R.mutant("benign-method-options-dict", OPS,
         sub("        return self.operate(\n            startswith_op, other, escape=escape, autoescape=autoescape\n        )\n",
             "        options = dict(autoescape=autoescape)\n        options[\"escape\"] = escape\n"
             "        op = startswith_op\n        return self.operate(op, other, **options)\n"), None)
R.mutant("r2-method-options-dict-wrong-op", OPS,
         sub("        return self.operate(\n            startswith_op, other, escape=escape, autoescape=autoescape\n        )\n",
             "        options = dict(autoescape=autoescape)\n        options[\"escape\"] = escape\n"
             "        op = endswith_op\n        return self.operate(op, other, **options)\n"), "C08-R2")
_CONTAINS = ("    def visit_contains_op_binary(self, binary, operator, **kw):\n        binary = binary._clone()\n"
             "        percent = self._like_percent_literal\n"
             "        binary.right = percent.concat(binary.right).concat(percent)\n"
             "        return self.visit_like_op_binary(binary, operator, **kw)\n")
_AROUND = ("    def _percent_around(self, operand, before, after):\n        percent = self._like_percent_literal\n"
           "        if before:\n            operand = percent.concat(operand)\n"
           "        if after:\n            operand = operand.concat(percent)\n        return operand\n\n")
R.mutant("benign-stem-pattern-helper", COMP,
         sub(_CONTAINS, _AROUND + "    def visit_contains_op_binary(self, binary, operator, **kw):\n"
             "        rewritten = binary._clone()\n"
             "        rewritten.right = self._percent_around(rewritten.right, True, True)\n"
             "        return self.visit_like_op_binary(rewritten, operator, **kw)\n"), None)
R.mutant("r3-stem-pattern-helper-one-sided", COMP,
         sub(_CONTAINS, _AROUND + "    def visit_contains_op_binary(self, binary, operator, **kw):\n"
             "        rewritten = binary._clone()\n"
             "        rewritten.right = self._percent_around(rewritten.right, True, False)\n"
             "        return self.visit_like_op_binary(rewritten, operator, **kw)\n"), "C08-R3")
R.mutant("r3-stem-helper-passes-unrewritten-binary", COMP,
         sub(_CONTAINS, _AROUND + "    def visit_contains_op_binary(self, binary, operator, **kw):\n"
             "        rewritten = binary._clone()\n"
             "        rewritten.right = self._percent_around(rewritten.right, True, True)\n"
             "        return self.visit_like_op_binary(binary, operator, **kw)\n"), "C08-R3")
R.mutant("benign-stem-temp-locals", COMP,
         sub("        binary.left = ilike_case_insensitive(binary.left)\n"
             "        binary.right = percent.concat(ilike_case_insensitive(binary.right))\n"
             "        return self.visit_ilike_op_binary(binary, operator, **kw)\n",
             "        lowered = ilike_case_insensitive(binary.right)\n        pattern = percent + lowered\n"
             "        binary.right = pattern\n        binary.left = ilike_case_insensitive(binary.left)\n"
             "        result = self.visit_ilike_op_binary(binary, operator, **kw)\n        return result\n"), None)
_ILIKE = ("    def visit_ilike_op_binary(self, binary, operator, **kw):\n        if operator is operators.ilike_op:\n"
          "            binary = binary._clone()\n            binary.left = ilike_case_insensitive(binary.left)\n"
          "            binary.right = ilike_case_insensitive(binary.right)\n"
          "        # else we assume ilower() has been applied\n\n"
          "        return self.visit_like_op_binary(binary, operator, **kw)\n")
R.mutant("benign-ilike-early-return", COMP,
         sub(_ILIKE, "    def visit_ilike_op_binary(self, binary, operator, **kw):\n"
             "        already_lowered = operator is not operators.ilike_op\n"
             "        if already_lowered:\n            return self.visit_like_op_binary(binary, operator, **kw)\n"
             "        clone = binary._clone()\n"
             "        clone.left, clone.right = (\n            ilike_case_insensitive(clone.left),\n"
             "            ilike_case_insensitive(clone.right),\n        )\n"
             "        return self.visit_like_op_binary(clone, operator, **kw)\n"), None)
R.mutant("r3-ilike-early-return-wrong-operator", COMP,
         sub(_ILIKE, "    def visit_ilike_op_binary(self, binary, operator, **kw):\n"
             "        already_lowered = operator is not operators.not_ilike_op\n"
             "        if already_lowered:\n            return self.visit_like_op_binary(binary, operator, **kw)\n"
             "        clone = binary._clone()\n"
             "        clone.left, clone.right = (\n            ilike_case_insensitive(clone.left),\n"
             "            ilike_case_insensitive(clone.right),\n        )\n"
             "        return self.visit_like_op_binary(clone, operator, **kw)\n"), "C08-R3")
_LIKE_T = ('        return "%s LIKE %s" % (\n            binary.left._compiler_dispatch(self, **kw),\n'
           '            binary.right._compiler_dispatch(self, **kw),\n        ) + (\n'
           '            " ESCAPE " + self.render_literal_value(escape, sqltypes.STRINGTYPE)\n'
           '            if escape is not None\n            else ""\n        )\n')
R.mutant("benign-terminal-statement-form", COMP,
         sub(_LIKE_T, '        lhs = binary.left._compiler_dispatch(self, **kw)\n'
             '        rhs = binary.right._compiler_dispatch(self, **kw)\n'
             '        parts = [lhs, "LIKE", rhs]\n'
             '        if escape is None:\n            return " ".join(parts)\n'
             '        parts.append("ESCAPE")\n'
             '        parts.append(self.render_literal_value(escape, sqltypes.STRINGTYPE))\n'
             '        return " ".join(parts)\n'), None)
R.mutant("r3-terminal-statement-form-escape-unconditional-default", COMP,
         sub(_LIKE_T, '        lhs = binary.left._compiler_dispatch(self, **kw)\n'
             '        rhs = binary.right._compiler_dispatch(self, **kw)\n'
             '        parts = [lhs, "LIKE", rhs]\n'
             '        if escape is None:\n            return " ".join(parts)\n'
             '        parts.append("ESCAPE")\n'
             '        parts.append(self.render_literal_value("/", sqltypes.STRINGTYPE))\n'
             '        return " ".join(parts)\n'), "C08-R3")
# rfD_9 family on the dialect: statement form + f-string, and its twin with the wrong keyword
_PG_ILIKE = ('        return "%s ILIKE %s" % (\n            self.process(binary.left, **kw),\n'
             '            self.process(binary.right, **kw),\n        ) + (\n'
             '            " ESCAPE " + self.render_literal_value(escape, sqltypes.STRINGTYPE)\n'
             '            if escape is not None\n            else ""\n        )\n')
R.mutant("benign-pg-ilike-fstring-statements", "dialects/postgresql/base.py",
         sub(_PG_ILIKE, '        left_sql = self.process(binary.left, **kw)\n        right_sql = self.process(binary.right, **kw)\n'
             '        text = f"{left_sql} ILIKE {right_sql}"\n        if escape is not None:\n'
             '            text += " ESCAPE " + self.render_literal_value(\n                escape, sqltypes.STRINGTYPE\n            )\n'
             '        return text\n'), None)
R.mutant("r3-pg-ilike-fstring-renders-like", "dialects/postgresql/base.py",
         sub(_PG_ILIKE, '        left_sql = self.process(binary.left, **kw)\n        right_sql = self.process(binary.right, **kw)\n'
             '        text = f"{left_sql} LIKE {right_sql}"\n        if escape is not None:\n'
             '            text += " ESCAPE " + self.render_literal_value(\n                escape, sqltypes.STRINGTYPE\n            )\n'
             '        return text\n'), "C08-R3")

# ---- str2-a (round 2 seeds) ---------------------------------------------------------------------------------
_SW = ("    def visit_startswith_op_binary(self, binary, operator, **kw):\n        binary = binary._clone()\n"
       "        percent = self._like_percent_literal\n"
       "        binary.right = percent._rconcat(binary.right)\n"
       "        return self.visit_like_op_binary(binary, operator, **kw)\n")
# seed C08_3: ESCAPE elided when the bound prefix (read at compile time) contains nothing to escape
R.mutant("r4-seed3-escape-elided-by-bind-value", COMP,
         sub(_SW, "    def visit_startswith_op_binary(self, binary, operator, **kw):\n        binary = binary._clone()\n"
             "        percent = self._like_percent_literal\n"
             "        escape = binary.modifiers.get(\"escape\", None)\n"
             "        if (\n            escape\n            and isinstance(binary.right, elements.BindParameter)\n"
             "            and isinstance(binary.right.value, str)\n"
             "            and not set(binary.right.value).intersection((\"%\", \"_\", escape))\n        ):\n"
             "            binary.modifiers = {**binary.modifiers, \"escape\": None}\n"
             "        binary.right = percent._rconcat(binary.right)\n"
             "        return self.visit_like_op_binary(binary, operator, **kw)\n"), "C08-R4")
# the same decision hidden in a helper that receives the operand under another name, reading the property
R.mutant("r4-helper-reads-effective-value-of-operand", COMP,
         sub(_SW, "    def _is_plain_prefix(self, operand):\n"
             "        text = getattr(operand, \"effective_value\", None)\n"
             "        return isinstance(text, str) and text.isalnum()\n\n"
             "    def visit_startswith_op_binary(self, binary, operator, **kw):\n        rewritten = binary._clone()\n"
             "        pattern = rewritten.right\n"
             "        if self._is_plain_prefix(pattern):\n"
             "            rewritten.modifiers = dict(rewritten.modifiers, escape=None)\n"
             "        rewritten.right = self._like_percent_literal._rconcat(pattern)\n"
             "        return self.visit_like_op_binary(rewritten, operator, **kw)\n"), "C08-R4")
R.mutant("r4-pg-ilike-renders-like-for-caseless-value", "dialects/postgresql/base.py",
         sub("    def visit_ilike_op_binary(self, binary, operator, **kw):\n        escape = binary.modifiers.get(\"escape\", None)\n",
             "    def visit_ilike_op_binary(self, binary, operator, **kw):\n        escape = binary.modifiers.get(\"escape\", None)\n"
             "        operand = binary.right\n"
             "        if getattr(operand, \"callable\", None) is None and str(getattr(operand, \"value\", \"a\")).isdigit():\n"
             "            return self.visit_like_op_binary(binary, operator, **kw)\n"), "C08-R4")
# benign neighbours: the operand is aliased / handed to a helper / a *keyed* attribute of it is read
R.mutant("benign-startswith-operand-alias-and-helper", COMP,
         sub(_SW, "    def _with_trailing_percent(self, operand):\n"
             "        return self._like_percent_literal._rconcat(operand)\n\n"
             "    def visit_startswith_op_binary(self, binary, operator, **kw):\n        rewritten = binary._clone()\n"
             "        prefix = rewritten.right\n"
             "        rewritten.right = self._with_trailing_percent(prefix)\n"
             "        return self.visit_like_op_binary(rewritten, operator, **kw)\n"), None)
R.mutant("benign-startswith-reads-keyed-state-only", COMP,
         sub(_SW, "    def visit_startswith_op_binary(self, binary, operator, **kw):\n        binary = binary._clone()\n"
             "        percent = self._like_percent_literal\n"
             "        has_escape = binary.modifiers.get(\"escape\", None) is not None\n"
             "        operand = binary.right\n"
             "        operand_type = operand.type if has_escape else None\n"
             "        assert operand_type is None or has_escape\n"
             "        binary.right = percent._rconcat(operand)\n"
             "        return self.visit_like_op_binary(binary, operator, **kw)\n"), None)
# R5: the default escape character must survive lower()
R.mutant("r5-default-escape-upper-case-letter", OPS, sub('            escape = "/"\n', '            escape = "E"\n'), "C08-R5")
R.mutant("r5-default-escape-lower-case-letter", OPS, sub('            escape = "/"\n', '            escape = "q"\n'), "C08-R5")
