"""Helpers of the str2-w strengthening pass (C53, C54; round-2 seeds).

Everything here works on `ast` only -- nothing imports or runs SQLAlchemy.

* `KeyFlow`      which *component of which identity key* an expression can hold at a program point, decided on the
                 reaching definitions of one function (`_helpers_rob_c2.ReachingDefs`): `K[1]`, a local bound to it on
                 any path, a tuple-unpacking position (`_, ident, token = K`), a conditional expression, `tuple(..)` /
                 `cast(..)` wrappers.  The key `K` is identified by the *origins* of its expression (the definitions
                 that reach the point where it is subscripted, plain aliases followed), not by its spelling; an
                 expression that is "the identity key of state S" (`S.key`, `<mapper>._identity_key_from_state(S)`) is
                 identified with S, and `S.identity_token` is then component 2 of that key.  Used by C53-R7.
* `ClassModel`   a concrete interpreter (on top of `_helpers_str2_q.PyModel`) for classes written in the container
                 subset of Python: instances of library classes are model objects (`Inst`; `DictInst` / `SetInst` /
                 `ListInst` when the class derives from a builtin container, so that `dict.update(self, ..)`,
                 `set.add(self, ..)`, `len(self)`, iteration ... ARE the builtin behaviour), methods are resolved through
                 the static MRO of the index and interpreted, module level names are resolved in pure-python mode
                 (`cython.compiled` is False).  Used by C54-R5 to run the utility collections against the builtin
                 reference models over a bounded domain.  Constructs outside the subset raise `Unsupported` (-> exit
                 2), never a verdict.
"""

from __future__ import annotations

import ast
import builtins as _b
import types
from typing import Dict, FrozenSet, List, Optional, Set, Tuple

from ..astutil import call_name, dotted, unparse
from ._helpers_rob_c2 import ReachingDefs
from ._helpers_str2_q import FuncVal, PyModel, Unsupported, _Return

# ====================================================================================== KeyFlow (C53-R7)
KEY_OF_STATE_CALLS = {"_identity_key_from_state", "identity_key_from_instance"}
TRANSPARENT = {"tuple", "cast", "list"}


def _const_index(e) -> Optional[int]:
    if isinstance(e, ast.Subscript) and isinstance(e.slice, ast.Constant) and isinstance(e.slice.value, int) \
            and not isinstance(e.slice.value, bool):
        return e.slice.value
    return None


class KeyFlow:
    """component provenance inside one function (`fnode`, CFG `g`)"""

    def __init__(self, g, fnode):
        self.g = g
        self.fn = fnode
        self.rd = ReachingDefs(g, fnode)
        self._node_of: Dict[int, int] = {}
        from ..astutil import own_exprs
        for n in g.nodes:
            st = n.stmt
            if st is None or n.kind in ("with_exit", "join") or not isinstance(st, ast.stmt):
                continue
            for part in own_exprs(st):
                for x in ast.walk(part):
                    self._node_of.setdefault(id(x), n.id)

    def node_of(self, e) -> Optional[int]:
        return self._node_of.get(id(e))

    # ------------------------------------------------------------------ identity of an expression's value
    def _name_origin(self, name: str, at: int, seen: Set[int]) -> FrozenSet[tuple]:
        out: Set[tuple] = set()
        defs = self.rd.at(at, name)
        if not defs:
            return frozenset({("free", name)})
        for d in defs:
            if d.id in seen:
                continue
            seen.add(d.id)
            if d.kind == "assign" and not d.path and d.value is not None:
                out |= self.ident(d.value, d.node, seen)
            elif d.kind == "param":
                out.add(("param", name))
            else:
                out.add(("def", d.id))
        return frozenset(out)

    def ident(self, e, at: int, seen: Optional[Set[int]] = None) -> FrozenSet[tuple]:
        """the value identities `e` can have at CFG node `at`: parameters, opaque definitions, canonical expression
        texts (free names replaced by THEIR identities), and ('state', <identity of S>) for the identity key of S"""
        seen = set() if seen is None else seen
        if isinstance(e, ast.Name):
            return self._name_origin(e.id, at, seen)
        if isinstance(e, ast.IfExp):
            return self.ident(e.body, at, seen) | self.ident(e.orelse, at, seen)
        if isinstance(e, ast.NamedExpr):
            return self.ident(e.value, at, seen)
        if isinstance(e, ast.Call) and (call_name(e) or "").rsplit(".", 1)[-1] in TRANSPARENT and e.args:
            return self.ident(e.args[-1], at, seen)
        if isinstance(e, ast.BoolOp) and isinstance(e.op, ast.Or):
            # `state.key or mapper._identity_key_from_state(state)`
            out: FrozenSet[tuple] = frozenset()
            for v in e.values:
                out = out | self.ident(v, at, seen)
            return out
        if isinstance(e, ast.Constant):
            return frozenset({("const", repr(e.value))})
        s = self._state_of_key(e)
        if s is not None:
            return frozenset({("state", self.ident(s, at, set(seen)))})
        # any other expression: its text with the free names replaced by their identities
        names = sorted({n.id for n in ast.walk(e) if isinstance(n, ast.Name)})
        return frozenset({("expr", unparse(e), tuple((n, self._name_origin(n, at, set(seen))) for n in names))})

    @staticmethod
    def _state_of_key(e):
        """S when `e` is, by construction, the identity key of state S"""
        if isinstance(e, ast.Attribute) and e.attr == "key" and isinstance(e.value, (ast.Name, ast.Attribute)):
            return e.value
        if isinstance(e, ast.Call) and (call_name(e) or "").rsplit(".", 1)[-1] in KEY_OF_STATE_CALLS and len(e.args) == 1:
            return e.args[0]
        return None

    # ------------------------------------------------------------------ components
    def comps(self, e, at: Optional[int] = None, _seen: Optional[Set[int]] = None) -> Set[Tuple[FrozenSet[tuple], int]]:
        """{(key identity, i)}: `e` may evaluate to component i of that key"""
        if at is None:
            at = self.node_of(e)
        if at is None:
            return set()
        seen = set() if _seen is None else _seen
        i = _const_index(e)
        if i is not None:
            if i < 0:
                i += 3
            return {(self.ident(e.value, at), i)}
        if isinstance(e, ast.Attribute) and e.attr == "identity_token" and isinstance(e.value, (ast.Name, ast.Attribute)):
            # the token of a state IS component 2 of that state's identity key
            return {(frozenset({("state", self.ident(e.value, at))}), 2)}
        if isinstance(e, ast.IfExp):
            return self.comps(e.body, at, seen) | self.comps(e.orelse, at, seen)
        if isinstance(e, ast.NamedExpr):
            return self.comps(e.value, at, seen)
        if isinstance(e, ast.Call) and (call_name(e) or "").rsplit(".", 1)[-1] in TRANSPARENT and e.args:
            return self.comps(e.args[-1], at, seen)
        if isinstance(e, ast.Name):
            out: Set[Tuple[FrozenSet[tuple], int]] = set()
            for d in self.rd.at(at, e.id):
                if d.id in seen or d.value is None or d.kind != "assign":
                    continue
                seen.add(d.id)
                if not d.path:
                    out |= self.comps(d.value, d.node, seen)
                elif len(d.path) == 1 and d.path[0] is not None:
                    v = d.value
                    if isinstance(v, (ast.Tuple, ast.List)):
                        if d.path[0] < len(v.elts) and not any(isinstance(x, ast.Starred) for x in v.elts):
                            out |= self.comps(v.elts[d.path[0]], d.node, seen)
                    else:
                        out.add((self.ident(v, d.node), d.path[0]))
            return out
        return set()

    def is_none_only(self, e, at: Optional[int] = None) -> bool:
        """`e` can only be None at its program point (the 'no key' arm of `ident = token = None`)"""
        if at is None:
            at = self.node_of(e)
        ids = self.ident(e, at) if at is not None else frozenset()
        return bool(ids) and all(x == ("const", "None") for x in ids)


def describe_key(k: FrozenSet[tuple]) -> str:
    parts = []
    for x in sorted(k, key=repr):
        if x[0] == "state":
            parts.append("key of state " + "/".join(sorted(describe_key(frozenset({y})) for y in x[1])))
        elif x[0] in ("param", "free"):
            parts.append(x[1])
        elif x[0] == "expr":
            parts.append(x[1])
        elif x[0] == "const":
            parts.append(x[1])
        else:
            parts.append("<local>")
    return " | ".join(parts)
