"""Helpers of the str2-w strengthening pass (C53, C54; round-2 seeds).

Everything here works on `ast` only -- nothing imports or runs SQLAlchemy.

* `KeyFlow`      which *component of which identity key* an expression can hold at a program point, decided on the
                 reaching definitions of one function (`_helpers_rob_c2.ReachingDefs`): `K[1]`, a local bound to it on
                 any path, a tuple-unpacking position (`_, ident, token = K`), a conditional expression, `tuple(..)` /
                 `cast(..)` wrappers.  The key `K` is identified by the *origins* of its expression (the definitions
                 that reach the point where it is subscripted, plain aliases followed), not by its spelling; an
                 expression that is "the identity key of state S" (`S.key`, `<mapper>._identity_key_from_state(S)`) is
                 identified with S, and `S.identity_token` is then component 2 of that key.  Used by C53-R7.
* `ClassModel`   a concrete interpreter (on top of `_helpers_str2_q.PyModel`) for classes written in the container
                 subset of Python: instances of library classes are model objects (`Inst`; `DictInst` / `SetInst` /
                 `ListInst` when the class derives from a builtin container, so that `dict.update(self, ..)`,
                 `set.add(self, ..)`, `len(self)`, iteration ... ARE the builtin behaviour), methods are resolved through
                 the static MRO of the index and interpreted, module level names are resolved in pure-python mode
                 (`cython.compiled` is False).  Used by C54-R5 to run the utility collections against the builtin
                 reference models over a bounded domain.  Constructs outside the subset raise `Unsupported` (-> exit
                 2), never a verdict.
"""

from __future__ import annotations

import ast
import builtins as _b
import types
from typing import Dict, FrozenSet, List, Optional, Set, Tuple

from ..astutil import call_name, dotted, unparse
from ._helpers_rob_c2 import ReachingDefs
from ._helpers_str2_q import FuncVal, PyModel, Unsupported, _Return

# ====================================================================================== KeyFlow (C53-R7)
KEY_OF_STATE_CALLS = {"_identity_key_from_state", "identity_key_from_instance"}
TRANSPARENT = {"tuple", "cast", "list"}


def _const_index(e) -> Optional[int]:
    if isinstance(e, ast.Subscript) and isinstance(e.slice, ast.Constant) and isinstance(e.slice.value, int) \
            and not isinstance(e.slice.value, bool):
        return e.slice.value
    return None


class KeyFlow:
    """component provenance inside one function (`fnode`, CFG `g`)"""

    def __init__(self, g, fnode, ctx=None, owner=None, depth: int = 0):
        """ctx / owner (the FuncInfo or normal form `fnode` belongs to) enable following calls of helpers defined in the
        same module / class: `pk, tok = self._split(key)` is read through the helper's `return` statements"""
        self.g = g
        self.fn = fnode
        self.ctx = ctx
        self.owner = owner
        self.depth = depth
        self.rd = ReachingDefs(g, fnode)
        self._node_of: Dict[int, int] = {}
        from ..astutil import own_exprs
        for n in g.nodes:
            st = n.stmt
            if st is None or n.kind in ("with_exit", "join") or not isinstance(st, ast.stmt):
                continue
            for part in own_exprs(st):
                for x in ast.walk(part):
                    self._node_of.setdefault(id(x), n.id)

    def node_of(self, e) -> Optional[int]:
        return self._node_of.get(id(e))

    # ------------------------------------------------------------------ identity of an expression's value
    def _name_origin(self, name: str, at: int, seen: Set[int]) -> FrozenSet[tuple]:
        out: Set[tuple] = set()
        defs = self.rd.at(at, name)
        if not defs:
            return frozenset({("free", name)})
        for d in defs:
            if d.id in seen:
                continue
            seen.add(d.id)
            if d.kind == "assign" and not d.path and d.value is not None:
                out |= self.ident(d.value, d.node, seen)
            elif d.kind == "param":
                out.add(("param", name))
            else:
                out.add(("def", d.id))
        return frozenset(out)

    def ident(self, e, at: int, seen: Optional[Set[int]] = None) -> FrozenSet[tuple]:
        """the value identities `e` can have at CFG node `at`: parameters, opaque definitions, canonical expression
        texts (free names replaced by THEIR identities), and ('state', <identity of S>) for the identity key of S"""
        seen = set() if seen is None else seen
        if isinstance(e, ast.Name):
            return self._name_origin(e.id, at, seen)
        if isinstance(e, ast.IfExp):
            return self.ident(e.body, at, seen) | self.ident(e.orelse, at, seen)
        if isinstance(e, ast.NamedExpr):
            return self.ident(e.value, at, seen)
        if isinstance(e, ast.Call) and (call_name(e) or "").rsplit(".", 1)[-1] in TRANSPARENT and e.args:
            return self.ident(e.args[-1], at, seen)
        if isinstance(e, ast.BoolOp) and isinstance(e.op, ast.Or):
            # `state.key or mapper._identity_key_from_state(state)`
            out: FrozenSet[tuple] = frozenset()
            for v in e.values:
                out = out | self.ident(v, at, seen)
            return out
        if isinstance(e, ast.Constant):
            return frozenset({("const", repr(e.value))})
        s = self._state_of_key(e)
        if s is not None:
            return frozenset({("state", self.ident(s, at, set(seen)))})
        # any other expression: its text with the free names replaced by their identities
        names = sorted({n.id for n in ast.walk(e) if isinstance(n, ast.Name)})
        return frozenset({("expr", unparse(e), tuple((n, self._name_origin(n, at, set(seen))) for n in names))})

    @staticmethod
    def _state_of_key(e):
        """S when `e` is, by construction, the identity key of state S"""
        if isinstance(e, ast.Attribute) and e.attr == "key" and isinstance(e.value, (ast.Name, ast.Attribute)):
            return e.value
        if isinstance(e, ast.Call) and (call_name(e) or "").rsplit(".", 1)[-1] in KEY_OF_STATE_CALLS and len(e.args) == 1:
            return e.args[0]
        return None

    # ------------------------------------------------------------------ components
    def comps(self, e, at: Optional[int] = None, _seen: Optional[Set[int]] = None) -> Set[Tuple[FrozenSet[tuple], int]]:
        """{(key identity, i)}: `e` may evaluate to component i of that key"""
        if at is None:
            at = self.node_of(e)
        if at is None:
            return set()
        seen = set() if _seen is None else _seen
        i = _const_index(e)
        if i is not None:
            if i < 0:
                i += 3
            return {(self.ident(e.value, at), i)}
        if isinstance(e, ast.Attribute) and e.attr == "identity_token" and isinstance(e.value, (ast.Name, ast.Attribute)):
            # the token of a state IS component 2 of that state's identity key
            return {(frozenset({("state", self.ident(e.value, at))}), 2)}
        if isinstance(e, ast.IfExp):
            return self.comps(e.body, at, seen) | self.comps(e.orelse, at, seen)
        if isinstance(e, ast.NamedExpr):
            return self.comps(e.value, at, seen)
        if isinstance(e, ast.Call) and (call_name(e) or "").rsplit(".", 1)[-1] in TRANSPARENT and e.args:
            return self.comps(e.args[-1], at, seen)
        if isinstance(e, ast.Name):
            out: Set[Tuple[FrozenSet[tuple], int]] = set()
            for d in self.rd.at(at, e.id):
                if d.id in seen or d.value is None or d.kind != "assign":
                    continue
                seen.add(d.id)
                if len(d.path) <= 1 and (not d.path or d.path[0] is not None):
                    via = self._through_helper(d.value, d.node, d.path[0] if d.path else None)
                    if via is not None:
                        out |= via
                        continue
                if not d.path:
                    out |= self.comps(d.value, d.node, seen)
                elif len(d.path) == 1 and d.path[0] is not None:
                    v = d.value
                    if isinstance(v, (ast.Tuple, ast.List)):
                        if d.path[0] < len(v.elts) and not any(isinstance(x, ast.Starred) for x in v.elts):
                            out |= self.comps(v.elts[d.path[0]], d.node, seen)
                    else:
                        out.add((self.ident(v, d.node), d.path[0]))
            return out
        return set()

    # ------------------------------------------------------------------ helpers (one or two levels)
    def _helper_of(self, call):
        if self.ctx is None or self.owner is None or self.depth >= 2 or not isinstance(call, ast.Call):
            return None, False
        fn = call.func
        r, bound = None, False
        ix = self.ctx.index
        if isinstance(fn, ast.Name):
            r = ix.resolve(self.owner.module, fn.id)
        elif isinstance(fn, ast.Attribute) and isinstance(fn.value, ast.Name) and fn.value.id in ("self", "cls") \
                and getattr(self.owner, "cls", None) is not None:
            r = ix.resolve_method(self.owner.cls, fn.attr)
            bound = True
        if r is None or getattr(r, "module", None) is not self.owner.module \
                or not isinstance(getattr(r, "node", None), (ast.FunctionDef, ast.AsyncFunctionDef)):
            return None, False
        if bound and any((dotted(d) or "").rsplit(".", 1)[-1] == "staticmethod" for d in r.node.decorator_list):
            bound = False
        return r, bound

    def _through_helper(self, value, at: int, index: Optional[int]):
        """components of what a same-module helper returns (element `index` of the returned tuple when the result is
        unpacked), expressed in the caller's identities; None when `value` is not such a call"""
        h, bound = self._helper_of(value)
        if h is None:
            return None
        from ._helpers_rob_i import bind_call
        binding = bind_call(value, h.node, bound_method=bound)
        if binding is None:
            return None
        sub = KeyFlow(self.ctx.cfg(h), h.node, self.ctx, h, self.depth + 1)
        out: Set[Tuple[FrozenSet[tuple], int]] = set()
        stack = list(h.node.body)
        rets = []
        while stack:
            n = stack.pop()
            if isinstance(n, (ast.FunctionDef, ast.AsyncFunctionDef, ast.ClassDef, ast.Lambda)):
                continue
            if isinstance(n, ast.Return) and n.value is not None:
                rets.append(n)
            stack.extend(ast.iter_child_nodes(n))
        for r in rets:
            rv = r.value
            rat = sub.node_of(rv)
            if rat is None:
                continue
            if index is None:
                got = sub.comps(rv, rat)
            elif isinstance(rv, (ast.Tuple, ast.List)):
                if index >= len(rv.elts) or any(isinstance(x, ast.Starred) for x in rv.elts):
                    continue
                got = sub.comps(rv.elts[index], rat)
            else:
                got = {(sub.ident(rv, rat), index)}
            for K, i in got:
                out.add((self._subst(K, binding, at), i))
        return out

    def _subst(self, K: FrozenSet[tuple], binding, at: int) -> FrozenSet[tuple]:
        out: Set[tuple] = set()
        for x in K:
            if x[0] == "param" and x[1] in binding:
                out |= self.ident(binding[x[1]], at)
            elif x[0] == "state":
                out.add(("state", self._subst(x[1], binding, at)))
            elif x[0] == "expr":
                out.add(("expr", x[1], tuple((n, self._subst(o, binding, at)) for n, o in x[2])))
            else:
                out.add(x)
        return frozenset(out)

    def is_none_only(self, e, at: Optional[int] = None) -> bool:
        """`e` can only be None at its program point (the 'no key' arm of `ident = token = None`)"""
        if at is None:
            at = self.node_of(e)
        ids = self.ident(e, at) if at is not None else frozenset()
        return bool(ids) and all(x == ("const", "None") for x in ids)


def describe_key(k: FrozenSet[tuple]) -> str:
    parts = []
    for x in sorted(k, key=repr):
        if x[0] == "state":
            parts.append("key of state " + "/".join(sorted(describe_key(frozenset({y})) for y in x[1])))
        elif x[0] in ("param", "free"):
            parts.append(x[1])
        elif x[0] == "expr":
            parts.append(x[1])
        elif x[0] == "const":
            parts.append(x[1])
        else:
            parts.append("<local>")
    return " | ".join(parts)


# ====================================================================================== ClassModel (C54-R5)
def _native(fn):
    fn._model_native = True
    return fn


_CONTAINER_BASES = {"Dict": dict, "dict": dict, "Set": set, "set": set, "List": list, "list": list}
_IGNORED_BASES = {"Generic", "object", "Protocol"}
# decorators that do not change what a method computes in pure-python mode
_TRANSPARENT_DECORATOR_HEADS = ("cython.",)


class ClassModel(PyModel):
    """PyModel + library classes as real (generated) Python types whose methods are interpreted.

    A class of the analysed module becomes `type(name, bases, ns)`: a base that is a builtin container (`Dict[..]`,
    `Set[..]`, `set` ...) is that builtin, every `def` of the class body is a Python function that re-enters the
    interpreter on the method's AST.  All protocol dispatch (`len`, `in`, iteration, truth value, `==`, `|=`,
    `isinstance`, `self.__class__(..)`, `cls.__new__(cls)`, `set.add(self, x)`, `dict.__or__(self, y)`) is therefore
    Python's own -- the interpreter never guesses how a dunder is found."""

    def __init__(self, ctx, relpath: str, budget: int = 400000):
        super().__init__(self._module_env, budget)
        self.ctx = ctx
        self.module = ctx.index.module(relpath)
        self.names: Dict[str, tuple] = {}
        self.values: Dict[str, object] = {}
        self.gen_types: Set[type] = set()
        self.cy = types.SimpleNamespace(compiled=False, cast=_native(lambda t, v, **kw: v))
        self._collect(self.module.tree.body)

    # -------------------------------------------------------------------------------- module level names
    def _collect(self, body):
        for st in body:
            if isinstance(st, (ast.FunctionDef, ast.AsyncFunctionDef)):
                self.names[st.name] = ("func", st)
            elif isinstance(st, ast.ClassDef):
                self.names[st.name] = ("class", st)
            elif isinstance(st, ast.Assign):
                for t in st.targets:
                    if isinstance(t, ast.Name):
                        self.names[t.id] = ("expr", st.value)
            elif isinstance(st, ast.AnnAssign) and st.value is not None and isinstance(st.target, ast.Name):
                self.names[st.target.id] = ("expr", st.value)
            elif isinstance(st, (ast.Import, ast.ImportFrom)):
                for al in st.names:
                    nm = (al.asname or al.name).split(".")[0]
                    if nm == "cython":
                        self.names[nm] = ("value", self.cy)
                    elif al.name == "cast":
                        self.names[nm] = ("value", self.cy.cast)
                    elif isinstance(st, ast.Import) and al.name in ("operator", "collections", "itertools"):
                        self.names[nm] = ("value", __import__(al.name))
            elif isinstance(st, ast.Try):
                self._collect(st.body)
                if not any(n in self.names for n in ("cython",)):
                    for h in st.handlers:
                        self._collect(h.body)
            elif isinstance(st, ast.If):
                # module level switches (`if cython.compiled:`, `if TYPE_CHECKING:`) are decided in pure-python mode
                try:
                    v = bool(self.ev(st.test, [{"TYPE_CHECKING": False, "typing": types.SimpleNamespace(TYPE_CHECKING=False)}]))
                except Exception:
                    continue        # names bound in there stay unknown (-> Unsupported when they are needed)
                self._collect(st.body if v else st.orelse)

    def _module_env(self, name: str):
        if name in self.values:
            return self.values[name]
        kind, node = self.names[name]       # KeyError -> PyModel.lookup falls back to the safe builtins
        if kind == "value":
            v = node
        elif kind == "func":
            self._check_decorators(node)
            v = FuncVal(node, [])
        elif kind == "class":
            v = self._build_class(node)
        else:
            v = self.ev(node, [])
        self.values[name] = v
        return v

    @staticmethod
    def _decorator_kind(d) -> Optional[str]:
        txt = dotted(d.func if isinstance(d, ast.Call) else d) or ""
        if txt in ("classmethod", "staticmethod", "property"):
            return txt
        if txt.startswith(_TRANSPARENT_DECORATOR_HEADS) or txt.rsplit(".", 1)[-1] in ("overload",):
            return "transparent"
        return None

    def _check_decorators(self, fnode):
        for d in fnode.decorator_list:
            if self._decorator_kind(d) is None:
                raise Unsupported(f"decorator `{unparse(d)[:50]}` of {fnode.name}")

    def _wrap(self, fnode, owner: Optional[list] = None):
        interp = self
        # `owner` is a one-element list that receives the generated class: the closure cell of zero-argument super()
        envs = [{"__class__": owner}] if owner is not None else []

        def method(*args, **kw):
            return interp.call(FuncVal(fnode, envs), list(args), kw)
        method._model_wrapper = True
        method.__name__ = fnode.name
        return method

    def _build_class(self, node: ast.ClassDef) -> type:
        bases: List[type] = []
        for b in node.bases:
            head = dotted(b.value if isinstance(b, ast.Subscript) else b) or ""
            last = head.rsplit(".", 1)[-1]
            if last in self.names and self.names[last][0] == "class":
                bases.append(self._module_env(last))
            elif last in _CONTAINER_BASES:
                bases.append(_CONTAINER_BASES[last])
            elif last in _IGNORED_BASES:
                continue
            else:
                raise Unsupported(f"base class `{unparse(b)[:40]}` of {node.name}")
        ns: Dict[str, object] = {"__module__": "sqlastatic.model", "__qualname__": node.name}
        cell: list = [None]
        for st in node.body:
            if isinstance(st, (ast.FunctionDef, ast.AsyncFunctionDef)):
                kinds = [self._decorator_kind(d) for d in st.decorator_list]
                if any(k is None for k in kinds):
                    bad = st

                    def unsupported(*a, _bad=bad, **k):
                        raise Unsupported(f"decorated method {_bad.name}")
                    unsupported._model_wrapper = True
                    ns[st.name] = unsupported
                    continue
                if any(isinstance(d, (ast.Name, ast.Attribute)) and (dotted(d) or "").rsplit(".", 1)[-1] == "overload" for d in st.decorator_list):
                    continue
                w = self._wrap(st, cell)
                if "classmethod" in kinds:
                    w = classmethod(w)
                elif "staticmethod" in kinds:
                    w = staticmethod(w)
                elif "property" in kinds:
                    w = property(w)
                ns[st.name] = w
            elif isinstance(st, ast.Assign) and len(st.targets) == 1 and isinstance(st.targets[0], ast.Name):
                t = st.targets[0].id
                if t == "__slots__":
                    continue
                if isinstance(st.value, ast.Name) and st.value.id in ns:
                    ns[t] = ns[st.value.id]
                elif isinstance(st.value, ast.Constant):
                    ns[t] = st.value.value
                else:
                    raise Unsupported(f"class attribute `{unparse(st)[:50]}` of {node.name}")
            elif isinstance(st, (ast.AnnAssign, ast.Pass)) or (isinstance(st, ast.Expr) and isinstance(st.value, ast.Constant)):
                if isinstance(st, ast.AnnAssign) and st.value is not None:
                    raise Unsupported(f"class attribute `{unparse(st)[:50]}` of {node.name}")
                continue
            else:
                raise Unsupported(f"class body statement `{unparse(st).splitlines()[0][:50]}` of {node.name}")
        cls = type(node.name, tuple(bases) or (object,), ns)
        cell[0] = cls
        self.gen_types.add(cls)
        return cls

    def cls(self, name: str) -> type:
        return self.lookup(name, [])

    # -------------------------------------------------------------------------------- evaluation
    def _allowed(self, v) -> bool:
        if isinstance(v, type):
            return v in self.gen_types
        return type(v) in self.gen_types or v is self.cy or isinstance(v, _b.super) \
            or (isinstance(v, types.ModuleType) and v.__name__ in ("operator", "collections", "itertools"))

    def ev(self, e, envs):
        if isinstance(e, ast.Attribute):
            self._tick()
            v = self.ev(e.value, envs)
            if self._allowed(v):
                return getattr(v, e.attr)
            if isinstance(v, (types.MethodType,)) and e.attr in ("__func__", "__self__"):
                return getattr(v, e.attr)
            from ._helpers_str2_q import _SAFE_TYPES
            if isinstance(v, _SAFE_TYPES) or (isinstance(v, type) and v in _SAFE_TYPES):
                return getattr(v, e.attr)
            raise Unsupported(f"attribute `{unparse(e)[:60]}` of {type(v).__name__}")
        return super().ev(e, envs)

    def call(self, f, args, kw):
        if isinstance(f, type) and f in self.gen_types:
            self._tick()
            return f(*args, **kw)
        if getattr(f, "_model_wrapper", False) or getattr(f, "_model_native", False):
            self._tick()
            return f(*args, **kw)
        if f is _b.super:
            raise Unsupported("super()")
        return super().call(f, args, kw)

    def _call_funcval(self, f: FuncVal, args, kw):
        """PyModel._call_funcval with the generator test cached per function (the base walks the whole body on every call)"""
        node = f.node
        cache = self.__dict__.setdefault("_gen_cache", {})
        hit = cache.get(id(node))
        if hit is None:
            from ..astutil import walk_local
            hit = (node, any(isinstance(n, (ast.Yield, ast.YieldFrom, ast.Await)) for n in walk_local(node))
                   if not isinstance(node, ast.Lambda) else False)
            cache[id(node)] = hit
        if hit[1]:
            raise Unsupported(f"generator / coroutine {getattr(node, 'name', 'lambda')}")
        a = node.args
        env: Dict[str, object] = {}
        pos = a.posonlyargs + a.args
        args = list(args)
        kw = dict(kw)
        name = getattr(node, "name", "lambda")
        if len(args) > len(pos) and not a.vararg:
            raise TypeError(f"{name}() takes {len(pos)} positional arguments but {len(args)} were given")
        ndef = len(a.defaults)
        for i, p in enumerate(pos):
            if i < len(args):
                env[p.arg] = args[i]
                if p.arg in kw and p not in a.posonlyargs:
                    raise TypeError(f"{name}() got multiple values for argument '{p.arg}'")
            elif p.arg in kw and p not in a.posonlyargs:
                env[p.arg] = kw.pop(p.arg)
            elif i >= len(pos) - ndef:
                env[p.arg] = self.ev(a.defaults[i - (len(pos) - ndef)], f.envs)
            else:
                raise TypeError(f"{name}() missing required positional argument '{p.arg}'")
        if a.vararg:
            env[a.vararg.arg] = tuple(args[len(pos):])
        for p, d in zip(a.kwonlyargs, a.kw_defaults):
            if p.arg in kw:
                env[p.arg] = kw.pop(p.arg)
            elif d is not None:
                env[p.arg] = self.ev(d, f.envs)
            else:
                raise TypeError(f"{name}() missing keyword-only argument '{p.arg}'")
        if a.kwarg:
            env[a.kwarg.arg] = kw
        elif kw:
            raise TypeError(f"{name}() got an unexpected keyword argument '{next(iter(kw))}'")
        envs = [env] + f.envs
        if isinstance(node, ast.Lambda):
            return self.ev(node.body, envs)
        try:
            self.run(node.body, envs)
        except _Return as r:
            return r.value
        return None

    def _ev_call(self, e, envs):
        if isinstance(e.func, ast.Attribute):
            recv = self.ev(e.func.value, envs)
            from ._helpers_str2_q import _SAFE_TYPES
            if self._allowed(recv) or isinstance(recv, _SAFE_TYPES) or (isinstance(recv, type) and recv in _SAFE_TYPES):
                f = getattr(recv, e.func.attr)
            else:
                raise Unsupported(f"method call `{unparse(e)[:60]}` on {type(recv).__name__}")
        elif isinstance(e.func, ast.Name) and e.func.id == "super" and not e.args and not e.keywords \
                and not any("super" in env for env in envs):
            # zero-argument super(): the class the method was defined in + the method's first argument
            cell = next((env["__class__"] for env in envs if "__class__" in env), None)
            first = None
            for env in envs:
                if env and "__class__" not in env:
                    first = next(iter(env.values()))
                    break
            if not cell or cell[0] is None or first is None:
                raise Unsupported("super() outside a method of a modelled class")
            return _b.super(cell[0], first)
        else:
            f = self.ev(e.func, envs)
        args = self._elts(e.args, envs)
        kw = {}
        for k in e.keywords:
            if k.arg is None:
                kw.update(self.ev(k.value, envs))
            else:
                kw[k.arg] = self.ev(k.value, envs)
        return self.call(f, args, kw)

    def _bind(self, target, value, envs):
        if isinstance(target, ast.Attribute):
            recv = self.ev(target.value, envs)
            if type(recv) in self.gen_types:
                setattr(recv, target.attr, value)
                return
            raise Unsupported(f"attribute store `{unparse(target)[:50]}` on {type(recv).__name__}")
        super()._bind(target, value, envs)

    # -------------------------------------------------------------------------------- driving a case
    def invoke(self, fn, *args, **kw):
        """run `fn(*args)` (a generated class / bound method) with a fresh step budget -> ('ok', value) | ('raise', exc)"""
        self.budget = 400000
        try:
            return "ok", fn(*args, **kw)
        except Unsupported:
            raise
        except RecursionError:
            raise Unsupported("recursion limit")
        except Exception as exc:        # the interpreted code raised: that is its behaviour on this input
            return "raise", exc
