"""C11 -- Row lookup by column expression returns that expression's value.

Decides structural clauses of the key -> cursor-position maps built by CursorResultMetaData (record layout
agreement between compiler and cursor, the chain that carries the cursor.description position into the record,
the ambiguity discipline, the error for unknown keys); does not decide the behaviour (which names a backend
reports, label truncation -- C21 --, values).
"""

from __future__ import annotations

import ast
from typing import Dict, List, Optional, Tuple

from ..astutil import calls_in, dotted, name_stores, names_in, test_atoms, unparse, walk_local
from ..cfg import no_exc
from ..report import Registry, chain, sub
from ._helpers_rules_d import call_nodes, callee_is, guard_atom_set, kw
from ._helpers_rob_i import position_of, positional_reads, resolved_guard_atoms

R = Registry(
    "C11",
    title="Row lookup by column expression returns that expression's value",
    decides=(
        "clauses of C11, not the behaviour: (R1) writer/reader agreement of the positional records: the RM_* "
        "constants are the field positions of compiler.ResultColumnsEntry and _add_to_result_map fills the fields "
        "from its same-named parameters; the MD_* constants are 0..6, every keymap record CursorResultMetaData "
        "builds has 7 slots with the cursor position in slot MD_INDEX and the result processor in slot "
        "MD_PROCESSOR; the name-match tuples of _create_description_match_map are read back at the positions they "
        "are written; (R2) the integer a key resolves to is the position in cursor.description: "
        "_colnames_from_description yields the enumerate() index of cursor.description first, every _merge_* "
        "generator passes it through first, _merge_cursor_description puts it in slot MD_INDEX; the purely "
        "positional fast path is control-dependent on ordered columns and equal column counts; every constructor "
        "derives _key_to_index from the keymap with MD_INDEX; (R3) ambiguity discipline: keys seen at two "
        "positions are collected, excluded from the object keymap and mapped to a record whose MD_INDEX is None, "
        "string names are applied last, _make_key_to_index drops None positions, and every lookup that reads a "
        "record's position raises for None (_key_not_found, _index_for_key, _metadata_for_keys); horizontally "
        "spliced metadata marks colliding keys ambiguous; (R4) an unknown key raises NoSuchColumnError; "
        "_adapt_to_context matches the invoked statement's columns to records by position, the invoked statement's "
        "objects overriding the cached statement's entries (judged by executing it on models of cached keymap / invoked "
        "column list); (R5) result metadata is reused for later executions of a cached statement only when its records were "
        "matched to the compiled columns by position: on every path of _merge_cursor_description through a generator that "
        "matches by names read from cursor.description (or has no compiled columns) _safe_for_cache ends up false, it is "
        "never true with driver_column_names, and compiled._cached_metadata is stored only under it."
    ),
    not_decided=(
        "which names / positions cursor.description reports for a statement, dialect name normalisation, label "
        "truncation and de-duplication (C21), which proxy objects the compiler lists for an expression, ORM entity "
        "rows, values."
    ),
)

CUR = "engine/cursor.py"
RES = "engine/result.py"
COMP = "sql/compiler.py"
ROW = "engine/_row_cy.py"
CRM = f"{CUR}::CursorResultMetaData"


def _int_consts(module, prefix: str) -> Dict[str, int]:
    out = {}
    for name, vals in module.assigns.items():
        if name.startswith(prefix):
            for v in vals:
                if isinstance(v, ast.Constant) and isinstance(v.value, int):
                    out[name] = v.value
    return out


def _slot(e: ast.Subscript, consts: Dict[str, int]) -> Optional[int]:
    s = e.slice
    if isinstance(s, ast.Name) and s.id in consts:
        return consts[s.id]
    if isinstance(s, ast.Constant) and isinstance(s.value, int):
        return s.value
    return None


# ------------------------------------------------------------------------------------------ R1
@R.rule("C11-R1", floor=11, template="T-TABLE",
        desc="RM_* constants = field positions of ResultColumnsEntry, filled by _add_to_result_map from its same-named "
             "parameters; MD_* = 0..6; every record display in CursorResultMetaData has 7 slots, the processor in slot "
             "MD_PROCESSOR; _create_description_match_map's tuples are read at the positions they are written")
def r1(ctx):
    comp = ctx.index.module(COMP)
    cur = ctx.index.module(CUR)
    rm = _int_consts(comp, "RM_")
    md = _int_consts(cur, "MD_")
    entry = ctx.index.cls(f"{COMP}::ResultColumnsEntry")
    fields = [s.target.id for s in entry.node.body if isinstance(s, ast.AnnAssign) and isinstance(s.target, ast.Name)]
    ctx.require(len(fields) >= 4 and len(rm) >= 4, f"ResultColumnsEntry fields {fields} / RM_ constants {rm} not understood")
    role = {"RM_RENDERED_NAME": "keyname", "RM_NAME": "name", "RM_OBJECTS": "objects", "RM_TYPE": "type"}
    for c, fld in sorted(role.items()):
        ctx.require(c in rm, f"{c} is not defined in sql/compiler.py")
        ctx.check(fld in fields and fields.index(fld) == rm[c], f"{COMP}::{c}", f"{c} = {rm[c]} but ResultColumnsEntry.{fld} is field {fields.index(fld) if fld in fields else None}: "
                                                                              "cursor.py reads another member of the compiler's record (e.g. the type where the proxy objects are expected)",
                  f"{c} = {rm[c]} = position of ResultColumnsEntry.{fld}", entry.loc)
    add = ctx.func(f"{COMP}::SQLCompiler._add_to_result_map")
    ctors = [c for c in calls_in(add.node) if callee_is(c, "ResultColumnsEntry")]
    ctx.require(len(ctors) == 1, "_add_to_result_map: ResultColumnsEntry(...) construction not found")
    c = ctors[0]
    got = {}
    for i, a in enumerate(c.args):
        got[fields[i]] = dotted(a)
    for k in c.keywords:
        got[k.arg] = dotted(k.value)
    want = dict(zip(fields[:4], add.params[1:5]))
    ctx.check(got == want, f"{add.key}:fills-fields-from-same-named-parameters", f"ResultColumnsEntry is built as {got}, expected {want}: name and rendered name (or objects and type) are swapped in "
                                                                                 "every result map", f"{want}", add.loc)
    # MD_ constants
    ctx.check(sorted(md.values()) == list(range(7)) and len(md) == 7, f"{CUR}::MD_*", f"the MD_* record slots are not the 7 distinct positions 0..6: {md}", f"{md}", cur.path)
    # record displays
    cls = ctx.index.cls(CRM)
    n_rec = 0
    for mname in ("_merge_cursor_description", "__init__", "__getstate__"):
        f = cls.methods.get(mname)
        ctx.require(f is not None, f"{CRM}.{mname} not found")
        recs = [t for t in ast.walk(f.node) if isinstance(t, ast.Tuple) and isinstance(t.ctx, ast.Load) and len(t.elts) == 7 and not any(isinstance(e, ast.Starred) for e in t.elts)
                and not (mname == "_merge_cursor_description" and all(isinstance(e, ast.Name) for e in t.elts) and isinstance(t.ctx, ast.Store))]
        for i, t in enumerate(recs):
            n_rec += 1
            p = t.elts[md["MD_PROCESSOR"]]
            okp = (isinstance(p, ast.Call) and callee_is(p, "get_result_processor")) or (isinstance(p, ast.Constant) and p.value is None)
            ctx.check(okp, f"{f.key}:record" + (f":{i}" if i else "") + ":processor-slot", f"slot MD_PROCESSOR of the record holds `{unparse(p)[:50]}`: result processing is applied from "
                                                                                           "another slot / a non-callable is called per row", "get_result_processor(...) | None in slot MD_PROCESSOR",
                      f"{f.module.path}:{t.lineno}")
    ctx.require(n_rec >= 4, f"only {n_rec} 7-slot record displays found in CursorResultMetaData")
    # match map protocol
    mk = ctx.func(f"{CRM}._create_description_match_map")
    rd = ctx.func(f"{CRM}._merge_cols_by_name")
    written = [t for t in ast.walk(mk.node) if isinstance(t, ast.Tuple) and isinstance(t.ctx, ast.Load) and len(t.elts) == 4]
    ctx.require(len(written) >= 2, "_create_description_match_map: 4-tuples not found")
    roles = []
    for t in written:
        r = []
        for e in t.elts:
            s = [x for x in ast.walk(e) if isinstance(x, ast.Subscript) and isinstance(x.slice, ast.Name) and x.slice.id in rm]
            r.append(s[0].slice.id if s else (dotted(e) or "?"))
        roles.append(tuple(r))
    pos_obj = {r.index("RM_OBJECTS") for r in roles if "RM_OBJECTS" in r}
    pos_type = {r.index("RM_TYPE") for r in roles if "RM_TYPE" in r}
    pos_ridx = {i for r in roles for i, x in enumerate(r) if x == "ridx"}
    # the record local(s): whatever is looked up in the match map (`m[k]`, `m.get(k)`), by any spelling
    reads = positional_reads(rd.node)
    # which local is which is determined by where it is yielded
    ys = [y.value for y in ast.walk(rd.node) if isinstance(y, ast.Yield) and isinstance(y.value, ast.Tuple)]
    ctx.require(len(ys) == 1 and len(ys[0].elts) == 7, "_merge_cols_by_name: single 7-tuple yield not found")
    y = [position_of(e, reads) for e in ys[0].elts]
    good = pos_obj == {y[5]} and pos_type == {y[3]} and y[1] in pos_ridx and len(pos_obj) == 1
    shown = {unparse(ys[0].elts[i])[:24]: y[i] for i in (5, 3, 1)}
    ctx.check(good, f"{rd.key}:match-map-read-at-written-positions",
              f"_create_description_match_map writes objects/type/result-index at {sorted(pos_obj)}/{sorted(pos_type)}/{sorted(pos_ridx)} but _merge_cols_by_name reads "
              f"{shown}: for name-matched (textual) statements column objects key another column", "objects@1 type@2 ridx@3 on both sides", rd.loc)


# ------------------------------------------------------------------------------------------ R2
def _yields(fn) -> List[ast.Tuple]:
    return [y.value for y in walk_local(fn) if isinstance(y, ast.Yield) and isinstance(y.value, ast.Tuple)]


@R.rule("C11-R2", floor=10, template="T-FLOW/T-GUARD",
        desc="the cursor.description position reaches slot MD_INDEX: _colnames_from_description yields enumerate()'s index "
             "first, each _merge_* generator unpacks and re-yields it first, _merge_cursor_description stores the first "
             "member in slot MD_INDEX; the positional fast path requires cols_are_ordered and equal column counts; every "
             "constructor builds _key_to_index = _make_key_to_index(<keymap>, MD_INDEX); Row reads _data[_key_to_index[key]]")
def r2(ctx):
    cur = ctx.index.module(CUR)
    md = _int_consts(cur, "MD_")
    cls = ctx.index.cls(CRM)
    # producer
    f = cls.methods["_colnames_from_description"]
    desc_p = f.params[2]
    loops = [n for n in walk_local(f.node) if isinstance(n, ast.For) and isinstance(n.iter, ast.Call) and callee_is(n.iter, "enumerate") and [dotted(a) for a in n.iter.args] == [desc_p]
             and isinstance(n.target, ast.Tuple) and isinstance(n.target.elts[0], ast.Name)]
    ctx.require(len(loops) == 1, "_colnames_from_description: `for idx, rec in enumerate(cursor_description)` not found")
    iv = loops[0].target.elts[0].id
    ys = _yields(f.node)
    reb = [s for n, v, s in name_stores(f.node) if n == iv and s is not loops[0]]
    ctx.check(bool(ys) and all(dotted(y.elts[0]) == iv for y in ys) and not reb and len({len(y.elts) for y in ys}) == 1, f"{f.key}:yields-description-position-first",
              "the first member yielded is not the enumerate() index of cursor.description", f"{len(ys)} yield(s) of ({iv}, ...)", f.loc)
    arity = len(ys[0].elts) if ys else 0
    # pass-through generators
    for mname in ("_merge_textual_cols_by_position", "_merge_cols_by_name", "_merge_cols_by_none"):
        f = cls.methods.get(mname)
        ctx.require(f is not None, f"{CRM}.{mname} not found")
        loops = [n for n in walk_local(f.node) if isinstance(n, ast.For) and isinstance(n.iter, ast.Call) and callee_is(n.iter, "self._colnames_from_description") and isinstance(n.target, ast.Tuple)]
        ctx.require(len(loops) == 1, f"{mname}: loop over self._colnames_from_description(...) not found")
        tgt = loops[0].target
        iv = dotted(tgt.elts[0])
        ys = _yields(f.node)
        reb = [s for n, v, s in name_stores(f.node) if n == iv and s is not loops[0]]
        good = len(tgt.elts) == arity and bool(ys) and all(len(y.elts) == 7 and dotted(y.elts[0]) == iv for y in ys) and not reb
        ctx.check(good, f"{f.key}:passes-description-position-first", f"{mname} does not unpack {arity} members and re-yield the description position `{iv}` as the first of 7: the record's "
                                                                     "MD_INDEX is some other integer (e.g. the compiled column's position) and keys return a neighbouring column's value",
                  f"for ({iv}, ...) in _colnames_from_description: yield ({iv}, ...)", f.loc)
    # consumer
    f = cls.methods["_merge_cursor_description"]
    comps = [c for c in ast.walk(f.node) if isinstance(c, ast.ListComp) and isinstance(c.elt, ast.Tuple) and len(c.elt.elts) == 7]
    ctx.require(len(comps) == 2, "_merge_cursor_description: the two record comprehensions are not found")
    for c in comps:
        gen = c.generators[0]
        slot = dotted(c.elt.elts[md["MD_INDEX"]])
        if isinstance(gen.iter, ast.Call) and callee_is(gen.iter, "enumerate"):
            key = f"{f.key}:positional-records"
            good = isinstance(gen.target, ast.Tuple) and dotted(gen.target.elts[0]) == slot and [dotted(a) for a in gen.iter.args] == ["result_columns"]
            # guard of the fast path
            g = ctx.cfg(f)
            nodes = g.nodes_containing(c)
            atoms = set().union(*[resolved_guard_atoms(g, n, f.node) for n in nodes]) if nodes else set()
            need = {("cols_are_ordered", True), ("num_ctx_cols == len(cursor_description)", True), ("textual_ordered", False)}
            alt = {("cols_are_ordered", True), ("len(cursor_description) == num_ctx_cols", True), ("textual_ordered", False)}
            ctx.check(good and (need <= atoms or alt <= atoms), key,
                      f"the positional fast path (MD_INDEX = position in the compiled columns) is not control-dependent on {sorted(a for a, p in need)}: with a different "
                      "number / order of cursor columns every key maps to a neighbouring column", "enumerate(result_columns) under ordered & equal counts", f.loc)
        else:
            key = f"{f.key}:merged-records"
            good = isinstance(gen.target, ast.Tuple) and len(gen.target.elts) == 7 and dotted(gen.target.elts[0]) == slot
            ridx_ok = dotted(gen.target.elts[1]) == dotted(c.elt.elts[md["MD_RESULT_MAP_INDEX"]]) and dotted(gen.target.elts[5]) == dotted(c.elt.elts[md["MD_OBJECTS"]])
            ctx.check(good and ridx_ok, key, "the first member delivered by the _merge_* generators (the cursor.description position) is not stored in slot MD_INDEX (or result-map index / "
                                             "objects are not stored in their slots)", "(idx, ridx, obj, ...) -> slots MD_INDEX, MD_RESULT_MAP_INDEX, MD_OBJECTS", f.loc)
    # _key_to_index in every constructor
    for mname in ("__init__", "_make_new_metadata", "__setstate__"):
        f = cls.methods.get(mname)
        ctx.require(f is not None, f"{CRM}.{mname} not found")
        stores = [s for s in walk_local(f.node) if isinstance(s, ast.Assign) and any(isinstance(t, ast.Attribute) and t.attr == "_key_to_index" for t in s.targets)]
        km = [s for s in walk_local(f.node) if isinstance(s, ast.Assign) and any(isinstance(t, ast.Attribute) and t.attr == "_keymap" for t in s.targets)]
        good = len(stores) == 1 and isinstance(stores[0].value, ast.Call) and callee_is(stores[0].value, "_make_key_to_index") and len(stores[0].value.args) == 2 \
            and dotted(stores[0].value.args[1]) == "MD_INDEX"
        if good and km:
            a0 = stores[0].value.args[0]
            src = {dotted(s.value) for s in km} | {dotted(t) for s in km for t in s.targets}
            good = dotted(a0) in src or (dotted(a0) or "").endswith("._keymap")
        ctx.check(good, f"{f.key}:key-to-index-from-keymap", "_key_to_index is not _make_key_to_index(<the keymap just installed>, MD_INDEX): rows resolve keys through a map that disagrees "
                                                            "with _keymap", "_key_to_index = _make_key_to_index(keymap, MD_INDEX)", f.loc)
    # Row
    row = ctx.func(f"{ROW}::BaseRow._get_by_key_impl")
    rets = [r.value for r in walk_local(row.node) if isinstance(r, ast.Return) and r.value is not None]
    ix = {n for n, v, s in name_stores(row.node) if isinstance(v, ast.Call) and callee_is(v, "self._key_to_index.get")}
    good = bool(ix) and any(isinstance(r, ast.Subscript) and dotted(r.value) == "self._data" and dotted(r.slice) in ix for r in rets) \
        and any(callee_is(c, "_key_not_found") for c in calls_in(row.node))
    ctx.check(good, f"{row.key}:data-at-key-to-index", "Row does not return _data[_key_to_index[key]] / does not report a missing key through _key_not_found", "self._data[index]; else parent._key_not_found", row.loc)


# ------------------------------------------------------------------------------------------ R3
@R.rule("C11-R3", floor=11, template="T-GUARD/T-FLOW",
        desc="ambiguous keys raise: __init__ collects keys seen at two MD_INDEX positions, filters them out of the object "
             "keymap, maps them to a record with MD_INDEX None and applies the string-name map last; _make_key_to_index "
             "drops None positions; _key_not_found / _index_for_key / _metadata_for_keys raise for a None position; "
             "_splice_horizontally marks colliding keys ambiguous")
def r3(ctx):
    cur = ctx.index.module(CUR)
    md = _int_consts(cur, "MD_")
    cls = ctx.index.cls(CRM)
    f = cls.methods["__init__"]
    g = ctx.cfg(f)
    # dupe detection
    adds = [c for c in calls_in(f.node) if isinstance(c.func, ast.Attribute) and c.func.attr == "add" and isinstance(c.func.value, ast.Name)]
    dupes = None
    for c in adds:
        nodes = g.nodes_containing(c)
        for n in nodes:
            for t, pol in g.edge_guards(n):
                if pol and isinstance(t, ast.Compare) and len(t.ops) == 1 and isinstance(t.ops[0], ast.NotEq) and isinstance(t.left, ast.Call) and callee_is(t.left, "setdefault") \
                        and len(t.left.args) == 2 and dotted(t.left.args[0]) == dotted(c.args[0]) and dotted(t.left.args[1]) == dotted(t.comparators[0]):
                    dupes = (c.func.value.id, dotted(t.comparators[0]))
    ok = False
    if dupes:
        idx_defs = [v for n, v, s in name_stores(f.node) if n == dupes[1]]
        ok = bool(idx_defs) and all(isinstance(v, ast.Subscript) and _slot(v, md) == md["MD_INDEX"] for v in idx_defs if v is not None)
    ctx.check(ok, f"{f.key}:dupes-are-keys-at-two-positions", "the set of ambiguous keys is not `keys whose setdefault(key, <MD_INDEX of the record>) != <MD_INDEX>`: a key present at two cursor "
                                                             "positions is not recognised as ambiguous and silently resolves to one of them", f"{dupes}", f.loc)
    dn = dupes[0] if dupes else "dupes"
    # dupe loop covers rendered name + objects
    loops = [n for n in walk_local(f.node) if isinstance(n, ast.For) and any(callee_is(c, f"{dn}.add") for s in n.body for c in calls_in(s))]
    cov = bool(loops) and all("MD_RENDERED_NAME" in unparse(lp.iter) and "MD_OBJECTS" in unparse(lp.iter) for lp in loops if isinstance(lp.target, ast.Name) and lp.target.id != "metadata_entry"
                              and "MD_" in unparse(lp.iter))
    ctx.check(cov, f"{f.key}:dupes-cover-names-and-objects", "duplicate detection does not consider both the rendered name and the proxy objects of each record", "(MD_RENDERED_NAME,) + MD_OBJECTS", f.loc)
    # object keymap built in the dupes branch filters them
    km_stores = [s for s in walk_local(f.node) if isinstance(s, ast.Assign) and any(dotted(t) == "self._keymap" for t in s.targets) and isinstance(s.value, ast.DictComp)]
    from ..astutil import lexical_guards
    pm = f.module.parents()
    filt, unfilt = [], []
    for s in km_stores:
        comp = s.value
        tests = [unparse(t) for gen in comp.generators for t in gen.ifs]
        if "MD_OBJECTS" not in unparse(comp):
            continue
        (filt if any(t.endswith(f"not in {dn}") for t in tests) else unfilt).append(s)
    dupes_guard = None
    for s in filt:
        at = set()
        for t, pol in lexical_guards(pm, s, stop=f.node):
            at.update(test_atoms(t, pol))
        dupes_guard = at
    bad_unf = []
    for s in unfilt:
        at = set()
        for t, pol in lexical_guards(pm, s, stop=f.node):
            at.update(test_atoms(t, pol))
        # the unfiltered map is only acceptable where no duplicate is possible: len(by_key) == num_ctx_cols
        if not any(("len(by_key) == num_ctx_cols" == a and p) or ("len(by_key) != num_ctx_cols" == a and not p) or ("num_ctx_cols == len(by_key)" == a and p) for a, p in at):
            bad_unf.append(unparse(s)[:50])
    ctx.check(bool(filt) and not bad_unf, f"{f.key}:object-keys-exclude-dupes", f"column objects are put into the keymap without `not in {dn}` although duplicates are possible: an ambiguous column object "
                                                                               "resolves to the last matching position instead of raising", f"obj_elem not in {dn}", f.loc)
    # ambiguous record
    recs = [t for t in ast.walk(f.node) if isinstance(t, ast.Tuple) and len(t.elts) == 7 and isinstance(t.ctx, ast.Load) and isinstance(t.elts[md["MD_INDEX"]], ast.Constant)]
    good = len(recs) == 1 and recs[0].elts[md["MD_INDEX"]].value is None
    if good:
        # it is the value of a dict comprehension over the dupes, handed to by_key.update
        good = any(isinstance(d, ast.DictComp) and d.value is recs[0] and dotted(d.generators[0].iter) == dn and dotted(d.key) == dotted(recs[0].elts[md["MD_LOOKUP_KEY"]])
                   for d in ast.walk(f.node))
    ctx.check(good, f"{f.key}:ambiguous-record-has-no-position", "the record stored for an ambiguous key does not have None in slot MD_INDEX (or is not stored under that key): the key resolves to a "
                                                                "definite column", "{key: (None, -1, (), key, key, None, None) for key in dupes}", f.loc)
    # string names last
    upd = call_nodes(g, lambda c: callee_is(c, "self._keymap.update") and [dotted(a) for a in c.args] == ["by_key"])
    kms = [n for s in km_stores for n in g.nodes_for(s) if "MD_OBJECTS" in unparse(s.value)]
    after = set(g.reachable(upd, edge_ok=no_exc, include_starts=False)) if upd else set()
    by_upd = call_nodes(g, lambda c: callee_is(c, "by_key.update"))
    good = bool(upd) and not (set(kms) & after) and all(any(u in g.reachable([b], edge_ok=no_exc) for u in upd) for b in by_upd) and bool(by_upd)
    ctx.check(good, f"{f.key}:string-names-applied-last", "self._keymap.update(by_key) does not come after the object keymap is built and after the ambiguous records were put into by_key: an "
                                                         "object entry or a definite string entry overrides the ambiguous record", "keymap = {objects}; by_key.update(ambiguous); keymap.update(by_key)", f.loc)
    # _make_key_to_index
    mk = ctx.func(f"{RES}::ResultMetaData._make_key_to_index")
    comps = [c for c in ast.walk(mk.node) if isinstance(c, ast.DictComp)]
    ip = mk.params[2]
    good = len(comps) == 1 and any(isinstance(t, ast.Compare) and len(t.ops) == 1 and isinstance(t.ops[0], ast.IsNot) and isinstance(t.comparators[0], ast.Constant) and t.comparators[0].value is None
                                   and isinstance(t.left, ast.Subscript) and dotted(t.left.slice) == ip for t in comps[0].generators[0].ifs) \
        and isinstance(comps[0].value, ast.Subscript) and dotted(comps[0].value.slice) == ip
    ctx.check(good, f"{mk.key}:drops-none-positions", "_make_key_to_index keeps records whose position is None: Row would index its data with None / an ambiguous key would not reach _key_not_found",
              "{key: rec[index] ... if rec[index] is not None}", mk.loc)
    # lookups raise on None
    knf = ctx.func(f"{RES}::ResultMetaData._key_not_found")
    g2 = ctx.cfg(knf)
    amb = call_nodes(g2, lambda c: callee_is(c, "self._raise_for_ambiguous_column_name"))
    good = bool(amb) and all((f"{knf.params[1]} in self._keymap", True) in guard_atom_set(g2, n) for n in amb)
    fb = call_nodes(g2, lambda c: callee_is(c, "self._key_fallback"))
    good = good and bool(fb) and all((f"{knf.params[1]} in self._keymap", False) in guard_atom_set(g2, n) for n in fb)
    ctx.check(good, f"{knf.key}:present-but-unindexed-key-is-ambiguous", "_key_not_found does not raise the ambiguity error for a key that is in _keymap (it can only have been dropped for a None position)",
              "if key in self._keymap: _raise_for_ambiguous_column_name", knf.loc)
    for mname in ("_index_for_key", "_metadata_for_keys"):
        fm = cls.methods.get(mname)
        ctx.require(fm is not None, f"{CRM}.{mname} not found")
        gm = ctx.cfg(fm)
        # the record's position: a local bound to rec[MD_INDEX] / rec[0], or that subscript used directly
        ixn = {n for n, v, s in name_stores(fm.node) if isinstance(v, ast.Subscript) and _slot(v, md) == md["MD_INDEX"]}
        ixn |= {unparse(x) for x in walk_local(fm.node) if isinstance(x, ast.Subscript) and isinstance(x.ctx, ast.Load) and _slot(x, md) == md["MD_INDEX"]
                and isinstance(x.value, ast.Name)}
        amb = call_nodes(gm, lambda c: callee_is(c, "self._raise_for_ambiguous_column_name"))
        good = bool(ixn) and bool(amb) and all(any((f"{i} is None", True) in guard_atom_set(gm, n) for i in ixn) for n in amb)
        # the position / record is handed out only past the test
        outs = [n.id for n in gm.nodes if n.kind == "stmt" and ((isinstance(n.stmt, ast.Return) and n.stmt.value is not None and (dotted(n.stmt.value) in ixn or unparse(n.stmt.value) in ixn))
                                                                or (isinstance(n.stmt, ast.Expr) and isinstance(n.stmt.value, ast.Yield)))]
        tests = [n.id for n in gm.nodes if n.kind == "test" and any(a == f"{i} is None" for i in ixn for a, p in test_atoms(n.stmt.test))]
        w = None
        for o in outs:
            w = w or gm.always_preceded(o, tests, edge_ok=no_exc)
        ctx.check(good and bool(outs) and w is None, f"{fm.key}:none-position-raises", f"{mname} hands out a record / position without first raising for MD_INDEX None: an ambiguous key yields "
                                                                                      "position None (TypeError later) or another column", "if index is None: _raise_for_ambiguous_column_name(rec)", fm.loc, w)
    raiser = cls.methods.get("_raise_for_ambiguous_column_name")
    good = raiser is not None and any(isinstance(s, ast.Raise) and "InvalidRequestError" in unparse(s) for s in raiser.node.body)
    ctx.check(good, f"{CRM}._raise_for_ambiguous_column_name:raises", "_raise_for_ambiguous_column_name does not raise InvalidRequestError", "raise InvalidRequestError", raiser.loc if raiser else None)
    # splice
    sp = cls.methods.get("_splice_horizontally")
    ctx.require(sp is not None, "_splice_horizontally not found")
    gs = ctx.cfg(sp)
    defin = [n.id for n in gs.nodes if n.kind == "stmt" and isinstance(n.stmt, ast.Assign) and isinstance(n.stmt.value, ast.BinOp) and isinstance(n.stmt.value.op, ast.Add)
             and isinstance(n.stmt.value.left, ast.Subscript) and _slot(n.stmt.value.left, md) == md["MD_INDEX"]]
    good = bool(defin)
    for n in defin:
        atoms = guard_atom_set(gs, n)
        good = good and any(a.endswith("in keymap") and not p for a, p in atoms) and any("MD_INDEX] is None" in a and not p for a, p in atoms)
        off = gs.node(n).stmt.value.right
        odefs = [v for nn, v, s in name_stores(sp.node) if nn == dotted(off)]
        good = good and bool(odefs) and all(v is not None and unparse(v) == "len(self._keys)" for v in odefs)
    ctx.check(good, f"{sp.key}:colliding-keys-become-ambiguous", "a key of the right-hand metadata gets a definite (offset) position although the left-hand side already has that key, or the offset is not "
                                                                "len(self._keys): the key silently resolves to one side / a shifted column", "definite only if `MD_INDEX is not None and key not in keymap`; offset = len(self._keys)", sp.loc)


# ------------------------------------------------------------------------------------------ R4
def _adapt_to_context_on_models(ctx, cls, ad, md) -> Tuple[List[str], int]:
    """Interpret `_adapt_to_context` (helpers of the class followed) on small models and compare the keymap handed to
    `_make_new_metadata` with the specification: for every position i that has a record (MD_RESULT_MAP_INDEX == i) the
    i-th selected column of the invoked statement maps to that record -- also when that very object is a key of the
    cached keymap at another position --, every other key keeps its record.  -> (failures, number of executions)"""
    from . import _helpers_str2_e as SE
    need = ("MD_INDEX", "MD_RESULT_MAP_INDEX", "MD_OBJECTS", "MD_LOOKUP_KEY", "MD_RENDERED_NAME")
    ctx.require(all(k in md for k in need), f"MD_* constants {sorted(md)} not understood")
    width = max(md.values()) + 1

    def record(pos, ridx, objs, name):
        r = [None] * width
        r[md["MD_INDEX"]], r[md["MD_RESULT_MAP_INDEX"]], r[md["MD_OBJECTS"]], r[md["MD_LOOKUP_KEY"]], r[md["MD_RENDERED_NAME"]] = pos, ridx, objs, name, name
        return tuple(r)

    class Interp(SE.Conc):
        depth = 0

        def call_method(self, obj, name, args, kwargs):
            if obj is self.globals["__self__"]:
                m = ctx.index.resolve_method(cls, name)
                if m is not None and name == "_make_new_metadata":
                    ctx.functions_analysed.add(m.key)
                    env = _bind_call(m.node, args, kwargs)
                    if env is None:
                        raise SE.Unsupported(f"call of _make_new_metadata does not fit its signature ({sorted(kwargs)})")
                    return SE.Obj("new metadata", **env)
                if m is not None and self.depth < 3 and not any(isinstance(x, (ast.Yield, ast.YieldFrom)) for x in ast.walk(m.node)):
                    env = _bind_call(m.node, args, kwargs)
                    if env is not None:
                        ctx.functions_analysed.add(m.key)
                        env[m.params[0]] = obj
                        self.depth += 1
                        try:
                            return self.call(m.node, env)
                        finally:
                            self.depth -= 1
            raise SE.Unsupported(f"call of `{obj!r}.{name}()`")

    def _bind_call(fnode, args, kwargs):
        a = fnode.args
        pos = [x.arg for x in a.posonlyargs + a.args][1:]
        if len(args) > len(pos) or a.vararg or a.kwarg:
            return None
        env = dict(zip(pos, args))
        names = pos + [x.arg for x in a.kwonlyargs]
        for k, v in kwargs.items():
            if k not in names or k in env:
                return None
            env[k] = v
        return env if set(env) == set(names) else None

    def run(cached_cols, extra_keys, invoked_cols, prebuilt, ridx_of=None):
        """cached_cols: column objects of the cached statement by position; -> (old keymap, new keymap | failure text)"""
        n = len(cached_cols)
        ridx_of = ridx_of or (lambda i: i)
        recs = [record(10 + i, ridx_of(i), (cached_cols[i],), f"c{i}") for i in range(n)]
        keymap = {}
        for i, c in enumerate(cached_cols):
            keymap[c] = recs[i]
            keymap[f"c{i}"] = recs[i]
        for k, i in extra_keys:
            keymap[k] = recs[i]
        old = dict(keymap)
        by_pos = {r[md["MD_RESULT_MAP_INDEX"]]: r for r in recs} if prebuilt else None
        me = SE.Obj("self", _keymap=keymap, _keymap_by_result_column_idx=by_pos, _unpickled=False, _processors=[None] * n, _tuplefilter=None,
                    _translated_indexes=None, _keys=[f"c{i}" for i in range(n)], _safe_for_cache=True)
        cached_stmt = SE.Obj("cached statement", _all_selected_columns=list(cached_cols))
        invoked_stmt = SE.Obj("invoked statement", _all_selected_columns=list(invoked_cols))
        compiled = SE.Obj("compiled", statement=cached_stmt, _result_columns=[("c", "c", (), None)] * n)
        context = SE.Obj("context", compiled=compiled, invoked_statement=invoked_stmt)
        it = Interp({**md, "TYPE_CHECKING": False, "__self__": me})
        env = {ad.params[0]: me, ad.params[1]: context}
        try:
            res = it.call(ad.node, env)
        except SE.ModelRaise as e:
            return old, recs, f"it raises ({e.what})"
        if not isinstance(res, SE.Obj) or res.name != "new metadata" or not isinstance(res.attrs.get("keymap"), dict):
            raise SE.Unsupported(f"_adapt_to_context returns {res!r}, not the result of _make_new_metadata(keymap=...)")
        if res.attrs["keymap"] is keymap and keymap != old:
            return old, recs, "it changes the keymap of the cached metadata in place"
        return old, recs, res.attrs["keymap"]

    def col(name):
        return SE.Obj(name)

    a, b, c, p = col("cached.a"), col("cached.b"), col("cached.c"), col("proxy of cached.a")
    a2, b2, c2 = col("invoked.a"), col("invoked.b"), col("invoked.c")
    scenarios = [
        ("the invoked statement has its own column objects", [a, b], [(p, 0)], [a2, b2], None),
        ("the invoked statement lists the cached statement's column objects in swapped positions (e.g. two anonymous aliases of one table)", [a, b], [(p, 0)], [b, a], None),
        ("the invoked statement is built from the same column objects", [a, b, c], [], [a, b, c], None),
        ("one object moved, one new", [a, b, c], [], [c2, a, b2], None),
        ("a record without result-map position (column only known from cursor.description)", [a, b, c], [], [a2, b2, c2], lambda i: None if i == 1 else i),
    ]
    bad: List[str] = []
    runs = 0
    try:
        for what, cached, extra, invoked, ridx_of in scenarios:
            for prebuilt in (False, True):
                runs += 1
                old, recs, new = run(cached, extra, invoked, prebuilt, ridx_of)
                where = f"when {what}" + (" (position map already cached)" if prebuilt else "")
                if isinstance(new, str):
                    bad.append(f"{where}: {new}")
                    continue
                by_ridx = {r[md["MD_RESULT_MAP_INDEX"]]: r for r in recs if r[md["MD_RESULT_MAP_INDEX"]] is not None}
                expect = dict(old)
                for i, colobj in enumerate(invoked):
                    if i in by_ridx:
                        expect[colobj] = by_ridx[i]
                for k, r in expect.items():
                    got = new.get(k)
                    if got != r:
                        bad.append(f"{where}: key {k!r} maps to {'no record' if got is None else 'the record of result column ' + str(got[md['MD_RESULT_MAP_INDEX']])}, "
                                   f"expected the record of result column {r[md['MD_RESULT_MAP_INDEX']]}")
                        break
    except SE.Unsupported as e:
        ctx.error(f"_adapt_to_context cannot be executed on the model: {e}")
    return bad, runs


@R.rule("C11-R4", floor=5, template="T-GUARD/T-FLOW",
        desc="unknown key: _index_for_key / _metadata_for_keys / _indexes_for_keys send a KeyError to _key_fallback, which "
             "raises NoSuchColumnError when raiseerr; _adapt_to_context keys the records by MD_RESULT_MAP_INDEX and matches "
             "the invoked statement's columns by enumerate() position")
def r4(ctx):
    cur = ctx.index.module(CUR)
    md = _int_consts(cur, "MD_")
    cls = ctx.index.cls(CRM)
    for mname in ("_index_for_key", "_metadata_for_keys", "_indexes_for_keys"):
        f = cls.methods.get(mname)
        ctx.require(f is not None, f"{CRM}.{mname} not found")
        good = False
        # (`keymap = self._keymap` is the same dict under another name)
        kms = {"self._keymap"} | {n for n, v, s in name_stores(f.node) if v is not None and dotted(v) == "self._keymap"}
        for t in [n for n in walk_local(f.node) if isinstance(n, ast.Try)]:
            reads = any(isinstance(x, ast.Subscript) and dotted(x.value) in kms for s in t.body for x in ast.walk(s))
            for h in t.handlers:
                if reads and h.type is not None and "KeyError" in unparse(h.type) and any(callee_is(c, "_key_fallback") for s in h.body for c in calls_in(s)):
                    good = True
        how = "except KeyError: _key_fallback(...)"
        if not good:
            # the same lookup spelt `rec = self._keymap.get(key)` / `if rec is None: _key_fallback(...)` (records are tuples, never None);
            # every subscript read of the keymap must then be gone, and the fallback must dominate every use of the record
            gq = ctx.cfg(f)
            got = {n for n, v, s in name_stores(f.node) if isinstance(v, ast.Call) and isinstance(v.func, ast.Attribute) and v.func.attr == "get" and dotted(v.func.value) in kms and len(v.args) == 1}
            direct = [x for x in walk_local(f.node) if isinstance(x, ast.Subscript) and isinstance(x.ctx, ast.Load) and dotted(x.value) in kms]
            fb = call_nodes(gq, lambda c: callee_is(c, "_key_fallback"))
            if got and not direct and fb and all(any((f"{r} is None", True) in guard_atom_set(gq, n) for r in got) for n in fb):
                tests = [n.id for n in gq.nodes if n.kind == "test" and any(a == f"{r} is None" for r in got for a, p in test_atoms(n.stmt.test))]
                uses = [n.id for n in gq.nodes if n.kind == "stmt" and any(isinstance(x, ast.Subscript) and isinstance(x.value, ast.Name) and x.value.id in got for x in ast.walk(n.stmt))]
                good = bool(uses) and all(gq.always_preceded(u, tests, edge_ok=no_exc) is None for u in uses)
                how = "rec = self._keymap.get(key); if rec is None: _key_fallback(...)"
        ctx.check(good, f"{f.key}:unknown-key-to-key_fallback", f"{mname} does not route a KeyError from self._keymap[key] to _key_fallback", how, f.loc)
    kf = cls.methods.get("_key_fallback")
    ctx.require(kf is not None, "_key_fallback not found")
    g = ctx.cfg(kf)
    raises = [n for n in g.nodes if n.kind == "stmt" and isinstance(n.stmt, ast.Raise)]
    rp = kf.params[3] if len(kf.params) > 3 else "raiseerr"
    good = bool(raises) and all("NoSuchColumnError" in unparse(n.stmt) and (rp, True) in guard_atom_set(g, n.id) for n in raises)
    w = g.witness([g.entry], [g.exit], edge_ok=lambda a, b, lab: lab != "exc" and not (g.node(a).kind == "test" and unparse(g.node(a).stmt.test) == rp and lab == "false"))
    ctx.check(good and w is None, f"{kf.key}:raises-NoSuchColumnError", "_key_fallback can return normally although raiseerr is true (or raises something other than NoSuchColumnError): an unknown key "
                                                                        "yields None / position None", "if raiseerr: raise NoSuchColumnError", kf.loc, None if w is None else g.describe_path(w))
    ad = cls.methods.get("_adapt_to_context")
    ctx.require(ad is not None, "_adapt_to_context not found")
    # _adapt_to_context is judged by the keymap it computes on models of (cached keymap, columns of the invoked statement),
    # not by the spelling of the merge: `a | {..}`, `{**a, **b}`, copy + update, a loop with item assignment are the same
    # function; `setdefault` / a merge in the other direction (the cached entry wins) / another record slot are not.
    bad, runs = _adapt_to_context_on_models(ctx, cls, ad, md)
    ctx.check(not bad, f"{ad.key}:columns-matched-by-position",
              "_adapt_to_context does not give each column of the invoked statement the record at the same result-column position (MD_RESULT_MAP_INDEX), overriding what the cached "
              f"statement's keymap holds for that object: {bad[0] if bad else ''} -- with a cached statement, rows looked up by the new statement's column objects return another column",
              f"adapted keymap[invoked column i] is the record with MD_RESULT_MAP_INDEX i, other keys unchanged, on {runs} model executions", ad.loc)


# ------------------------------------------------------------------------------------------ R5
def _generator_kind(ctx, m):
    """How a `_merge_*` generator associates a cursor.description entry with the compiled result column it yields as
    record members 1 (result-map index) and 5 (column objects): 'positional' (computed from the enumerate() position of
    the description entry and from nothing else the description says), 'by-name' (computed from a name / type the cursor
    reports at run time), 'unanchored' (no compiled column at all: the keys are only what the cursor reports)."""
    from . import _helpers_rob_D2 as RD
    loops = [n for n in walk_local(m.node) if isinstance(n, ast.For) and isinstance(n.iter, ast.Call) and callee_is(n.iter, "_colnames_from_description") and isinstance(n.target, ast.Tuple)]
    if len(loops) != 1:
        return None
    lp = loops[0]
    names = [dotted(t) for t in lp.target.elts]
    if not names or any(n is None for n in names):
        return None
    pos, reported = names[0], set(names[1:])
    ys = [y.value for y in walk_local(m.node) if isinstance(y, ast.Yield) and isinstance(y.value, ast.Tuple) and len(y.value.elts) == 7]
    if not ys:
        return None
    kinds = set()
    for y in ys:
        deps = RD.dep_closure(m.node, lp, [y.elts[1], y.elts[5]], stop=set(names))
        kinds.add("by-name" if deps & reported else ("positional" if pos in deps else "unanchored"))
    return "by-name" if "by-name" in kinds else ("unanchored" if "unanchored" in kinds else "positional")


@R.rule("C11-R5", floor=5, template="T-FLOW/T-GUARD",
        desc="metadata is reused for later executions of the same compiled statement (_safe_for_cache) only when its records "
             "were matched to the compiled columns by position: on every path of _merge_cursor_description through a generator "
             "that matches by the names cursor.description reports (or has no compiled columns) the flag last stored is False; "
             "the flag is never true with driver_column_names; _init_metadata stores compiled._cached_metadata only under it")
def r5(ctx):
    from . import _helpers_str2_e as SE
    from ._helpers_rob_D2 import single_defs, resolve, guards_of, atoms_of
    cls = ctx.index.cls(CRM)
    f = cls.methods.get("_merge_cursor_description")
    ctx.require(f is not None, f"{CRM}._merge_cursor_description not found")
    g = ctx.cfg(f)
    defs = single_defs(f.node)
    FLAG = "_safe_for_cache"
    # the definitions of the flag: `self._safe_for_cache = V`; when V is a local that is assigned in several places, those assignments
    stores: Dict[int, ast.expr] = {}
    for n in g.nodes:
        st = n.stmt
        if n.kind != "stmt" or not isinstance(st, (ast.Assign, ast.AnnAssign)) or st.value is None:
            continue
        tg = st.targets if isinstance(st, ast.Assign) else [st.target]
        if any(isinstance(t, ast.Attribute) and t.attr == FLAG and dotted(t.value) == f.params[0] for t in tg):
            stores[n.id] = st.value
    ctx.require(stores, f"no store of self.{FLAG} in _merge_cursor_description")
    via = {v.id for v in stores.values() if isinstance(v, ast.Name) and v.id not in f.params and v.id not in defs}
    if via:
        stores = {k: v for k, v in stores.items() if not (isinstance(v, ast.Name) and v.id in via)}
        for n in g.nodes:
            st = n.stmt
            if n.kind == "stmt" and isinstance(st, (ast.Assign, ast.AnnAssign)) and st.value is not None:
                tg = st.targets if isinstance(st, ast.Assign) else [st.target]
                if any(isinstance(t, ast.Name) and t.id in via for t in tg):
                    stores[n.id] = st.value

    def value_of(nid):
        return resolve(stores[nid], defs, pure_only=False)

    def truths(nid, fixed=None):
        try:
            return SE.possible_truth(value_of(nid), fixed)
        except SE.Unsupported as e:
            ctx.error(f"value stored in {FLAG} not understood: {e}")

    # (a) per generator
    sites = []
    for n in g.nodes:
        if n.stmt is None or n.kind not in ("stmt", "test", "for"):
            continue
        from ..astutil import own_exprs
        for part in own_exprs(n.stmt):
            for c in calls_in(part):
                if isinstance(c.func, ast.Attribute) and dotted(c.func.value) == f.params[0]:
                    m = ctx.index.resolve_method(cls, c.func.attr)
                    if m is not None and any(isinstance(x, ast.Call) and callee_is(x, "_colnames_from_description") for x in ast.walk(m.node)) and m.name != "_colnames_from_description":
                        sites.append((n.id, m, c))
    ctx.require(len(sites) >= 2, f"calls of the _merge_* generators not found in _merge_cursor_description ({[m.name for _, m, _c in sites]})")
    n_pos = 0
    for nid, m, c in sites:
        ctx.functions_analysed.add(m.key)
        kind = _generator_kind(ctx, m)
        ctx.require(kind is not None, f"{m.name}: loop over _colnames_from_description / 7-tuple yield not understood")
        key = f"{f.key}:cache-safe-only-if-matched-by-position[{m.name}]"
        last, none = SE.last_stores_through(g, nid, stores, edge_ok=no_exc)
        if kind == "positional":
            n_pos += 1
            ctx.ok(key, f"{m.name} matches by position; flag: {sorted({unparse(value_of(s))[:40] for s in last})}")
            continue
        maybe_true = [s for s in last if True in truths(s)]
        why = "matches compiled columns by the names cursor.description reports at run time" if kind == "by-name" else "has no compiled columns: every key is a name reported at run time"
        ctx.check(not maybe_true, key,
                  f"{m.name} {why}, yet on the path through it self.{FLAG} is last stored as `{unparse(value_of(maybe_true[0]))[:60] if maybe_true else ''}`, which can be true: "
                  "the key -> position map of the first execution is then reused for later executions of the cached statement, and when the database reports the columns in "
                  "another order (select *, schema_translate_map, rebuilt table) keys return another column's value",
                  f"{m.name} ({kind}): flag is False" + (" (or not stored: default)" if none else ""), f"{f.module.path}:{c.lineno}",
                  [g.node(s).describe() for s in maybe_true[:1]])
    ctx.require(n_pos >= 1, "no positional generator found (classification not understood)")
    # (b) never true with driver_column_names
    dcn = [p for p in f.params if p == "driver_column_names"]
    ctx.require(dcn, "_merge_cursor_description has no driver_column_names parameter")
    bad = []
    pm_f = f.module.parents()
    for s in stores:
        atoms = resolved_guard_atoms(g, s, f.node) | atoms_of(guards_of(g, pm_f, f.node, g.node(s).stmt, defs))
        if (dcn[0], False) in atoms:
            continue
        if True in truths(s, {dcn[0]: True}):
            bad.append(g.node(s).describe())
    ctx.check(not bad, f"{f.key}:never-cache-safe-with-driver-column-names",
              f"self.{FLAG} can be true although driver_column_names is set ({bad[:2]}): metadata keyed by the driver's names would be reused by executions without the option",
              f"{len(stores)} store(s), none true with driver_column_names", f.loc)
    # (c) consumer
    cur = ctx.index.module(CUR)
    n_cons = 0
    for fn in ctx.index.all_functions(cur):
        if "_cached_metadata" not in cur.source:
            break
        sts = [s for s in walk_local(fn.node) if isinstance(s, (ast.Assign, ast.AnnAssign)) and s.value is not None
               and any(isinstance(t, ast.Attribute) and t.attr == "_cached_metadata" for t in (s.targets if isinstance(s, ast.Assign) else [s.target]))]
        if not sts:
            continue
        ctx.functions_analysed.add(fn.key)
        gf = ctx.cfg(fn)
        fdefs = single_defs(fn.node)
        for s in sts:
            n_cons += 1
            val = dotted(resolve(s.value, fdefs)) or unparse(s.value)
            atoms = atoms_of(guards_of(gf, fn.module.parents(), fn.node, s, fdefs))
            good = any(p and a.endswith("." + FLAG) and a.rsplit(".", 1)[0] in (val, dotted(s.value)) for a, p in atoms)
            ctx.check(good, f"{fn.key}:cached-only-if-safe", f"`{unparse(s)[:60]}` is not control-dependent on `{val}.{FLAG}`: metadata whose key -> position map depends on what the "
                                                            "cursor reported is reused for later executions", f"if {val}.{FLAG}: compiled._cached_metadata = {val}", f"{fn.module.path}:{s.lineno}")
    ctx.require(n_cons >= 1, "no store of <compiled>._cached_metadata found in engine/cursor.py")


# ------------------------------------------------------------------------------------------ self-test battery
# R1
R.mutant("rm-constants-swapped", COMP, sub("RM_NAME: Literal[1] = 1\nRM_OBJECTS: Literal[2] = 2\n", "RM_NAME: Literal[1] = 2  # type: ignore\nRM_OBJECTS: Literal[2] = 1  # type: ignore\n"), "C11-R1")
R.mutant("result-entry-name-and-keyname-swapped", COMP, sub("            ResultColumnsEntry(keyname, name, objects, type_)\n", "            ResultColumnsEntry(name, keyname, objects, type_)\n"), "C11-R1")
R.mutant("md-constant-duplicated", CUR, sub("MD_RESULT_MAP_INDEX: Final[Literal[1]] = 1\n", "MD_RESULT_MAP_INDEX: Final[Literal[1]] = 0  # type: ignore\n"), "C11-R1")
R.mutant("processor-and-untranslated-swapped", CUR, sub("                    cursor_colname,\n                    cursor_colname,\n                    context.get_result_processor(\n                        mapped_type, cursor_colname, coltype\n                    ),\n                    untranslated,\n                )  # type: ignore[misc]\n",
                                                      "                    cursor_colname,\n                    cursor_colname,\n                    untranslated,\n                    context.get_result_processor(\n                        mapped_type, cursor_colname, coltype\n                    ),\n                )  # type: ignore[misc]\n"), "C11-R1")
R.mutant("match-map-read-shifted", CUR, sub("                obj = ctx_rec[1]\n                mapped_type = ctx_rec[2]\n                result_columns_idx = ctx_rec[3]\n", "                obj = ctx_rec[0]\n                mapped_type = ctx_rec[2]\n                result_columns_idx = ctx_rec[3]\n"), "C11-R1")
# R2
R.mutant("merge-by-name-yields-result-index-first", CUR, sub("            yield (\n                idx,\n                result_columns_idx,\n                colname,\n", "            yield (\n                result_columns_idx,\n                idx,\n                colname,\n"), "C11-R2")
R.mutant("description-position-offset", CUR, sub("            if driver_column_names:\n                yield idx, colname, unnormalized, unnormalized, coltype\n", "            if driver_column_names:\n                yield idx + 1, colname, unnormalized, unnormalized, coltype\n"), "C11-R2")
R.mutant("fast-path-without-count-check", CUR, sub("            and not textual_ordered\n            and num_ctx_cols == len(cursor_description)\n            and not driver_column_names\n", "            and not textual_ordered\n            and not driver_column_names\n"), "C11-R2")
R.mutant("merged-record-index-from-result-map", CUR, sub("            return [\n                (\n                    idx,\n                    ridx,\n                    obj,\n                    cursor_colname,\n", "            return [\n                (\n                    ridx,\n                    idx,\n                    obj,\n                    cursor_colname,\n"), "C11-R2")
R.mutant("key-to-index-from-result-map-index", CUR, sub("        new_obj._key_to_index = self._make_key_to_index(keymap, MD_INDEX)\n", "        new_obj._key_to_index = self._make_key_to_index(\n            keymap, MD_RESULT_MAP_INDEX\n        )\n"), "C11-R2")
# R3
R.mutant("dupes-not-filtered-from-object-keys", CUR, sub("                    for obj_elem in metadata_entry[MD_OBJECTS]\n                    if obj_elem not in dupes\n                }\n", "                    for obj_elem in metadata_entry[MD_OBJECTS]\n                }\n"), "C11-R3")
R.mutant("ambiguous-record-points-at-first-column", CUR, sub("                        key: (None, -1, (), key, key, None, None)\n", "                        key: (0, -1, (), key, key, None, None)\n"), "C11-R3")
R.mutant("string-names-applied-before-objects", CUR, chain(
    sub("            # update keymap with primary string names taking\n            # precedence\n            self._keymap.update(by_key)\n", ""),
    sub("                # then for the dupe keys, put the \"ambiguous column\"\n                # record into by_key.\n", "                self._keymap.update(by_key)\n                # then for the dupe keys, put the \"ambiguous column\"\n                # record into by_key.\n")), "C11-R3")
R.mutant("key-to-index-keeps-none", RES, sub("            for key, rec in keymap.items()\n            if rec[index] is not None\n        }\n", "            for key, rec in keymap.items()\n        }\n"), "C11-R3")
R.mutant("index-for-key-ignores-none", CUR, sub("        index = rec[0]\n\n        if index is None:\n            self._raise_for_ambiguous_column_name(rec)\n        return index\n", "        index = rec[0]\n\n        return index\n"), "C11-R3")
R.mutant("dupe-detection-by-result-map-index", CUR, sub("                        idx = metadata_entry[MD_INDEX]\n                        # if this key has been associated", "                        idx = metadata_entry[MD_LOOKUP_KEY]\n                        # if this key has been associated"), "C11-R3")
R.mutant("splice-keeps-left-on-collision", CUR, sub("            if value[MD_INDEX] is not None and key not in keymap:\n", "            if value[MD_INDEX] is not None:\n"), "C11-R3")
R.mutant("key-not-found-never-ambiguous", RES, sub("        if key in self._keymap:\n            # the index must be none in this case\n            self._raise_for_ambiguous_column_name(self._keymap[key])\n        else:\n", "        if key is None:\n            # the index must be none in this case\n            self._raise_for_ambiguous_column_name(self._keymap[key])\n        else:\n"), "C11-R3")
# R4
R.mutant("key-fallback-returns-none", CUR, sub("                else:\n                    raise exc.NoSuchColumnError(\n                        \"Could not locate column in row for column '%s'\"\n                        % util.string_or_unprintable(key)\n                    ) from err\n", "                else:\n                    return None\n"), "C11-R4")
R.mutant("index-for-key-swallows-keyerror", CUR, sub("        except KeyError as ke:\n            x = self._key_fallback(key, ke, raiseerr)\n            assert x is None\n            return None\n", "        except KeyError as ke:\n            return None\n"), "C11-R4")
R.mutant("adapt-to-context-by-md-index", CUR, sub("                metadata_entry[MD_RESULT_MAP_INDEX]: metadata_entry\n                for metadata_entry in self._keymap.values()\n", "                metadata_entry[MD_LOOKUP_KEY]: metadata_entry\n                for metadata_entry in self._keymap.values()\n"), "C11-R4")
# benign refactors
R.mutant("benign-rename-dupes", CUR, chain(
    sub("                dupes = set()\n", "                ambiguous_keys = set()\n"),
    sub("                            dupes.add(key)\n", "                            ambiguous_keys.add(key)\n"),
    sub("                    if obj_elem not in dupes\n", "                    if obj_elem not in ambiguous_keys\n"),
    sub("                        for key in dupes\n", "                        for key in ambiguous_keys\n")), None)
R.mutant("benign-index-for-key-uses-constant", CUR, sub("        index = rec[0]\n\n        if index is None:\n            self._raise_for_ambiguous_column_name(rec)\n        return index\n", "        position = rec[MD_INDEX]\n        if position is None:\n            self._raise_for_ambiguous_column_name(rec)\n        return position\n"), None)
R.mutant("benign-merge-by-none-logging", CUR, sub("            if driver_column_names:\n                assert untranslated is not None\n                self._keys.append(untranslated)\n            else:\n                self._keys.append(colname)\n\n            yield (\n                idx,\n                None,\n", "            if driver_column_names:\n                assert untranslated is not None\n                self._keys.append(untranslated)\n            else:\n                self._keys.append(colname)\n            _seen = len(self._keys)\n\n            yield (\n                idx,\n                None,\n"), None)
R.mutant('benign-rfI_1-match-map-get-and-unpack', CUR, chain(
    sub('            try:\n'
             '                ctx_rec = match_map[colname]\n'
             '            except KeyError:\n'
             '                mapped_type = sqltypes.NULLTYPE\n'
             '                obj = None\n'
             '                result_columns_idx = None\n'
             '            else:\n'
             '                obj = ctx_rec[1]\n'
             '                mapped_type = ctx_rec[2]\n'
             '                result_columns_idx = ctx_rec[3]\n',
        '            # match_map values are always 4-tuples, so None means "no match"\n'
             '            matched_rec = match_map.get(colname)\n'
             '            if matched_rec is not None:\n'
             '                _, obj, mapped_type, ridx = matched_rec\n'
             '            else:\n'
             '                mapped_type = sqltypes.NULLTYPE\n'
             '                obj = None\n'
             '                ridx = None\n'),
    sub('                self._keys.append(colname)\n'
             '            yield (\n'
             '                idx,\n'
             '                result_columns_idx,\n',
        '                self._keys.append(colname)\n'
             '            yield (\n'
             '                idx,\n'
             '                ridx,\n')), None)
R.mutant('benign-rfI_2-textual-position-inverted-and-aliases', CUR, chain(
    sub('        seen = set()\n',
        '        seen_objs = set()\n'),
    sub('            if idx < num_ctx_cols:\n'
             '                ctx_rec = result_columns[idx]\n'
             '                obj = ctx_rec[RM_OBJECTS]\n'
             '                ridx = idx\n'
             '                mapped_type = ctx_rec[RM_TYPE]\n'
             '                if obj[0] in seen:\n'
             '                    raise exc.InvalidRequestError(\n'
             '                        "Duplicate column expression requested "\n'
             '                        "in textual SQL: %r" % obj[0]\n'
             '                    )\n'
             '                seen.add(obj[0])\n',
        '            if idx >= num_ctx_cols:\n'
             '                # cursor.description has more columns than were requested\n'
             '                mapped_type = sqltypes.NULLTYPE\n'
             '                obj = None\n'
             '                ridx = None\n'
             '\n'
             '                result_name = colname\n'
             '            else:\n'
             '                ctx_rec = result_columns[idx]\n'
             '                obj = ctx_rec[RM_OBJECTS]\n'
             '                ridx = idx\n'
             '                mapped_type = ctx_rec[RM_TYPE]\n'
             '                first_obj = obj[0]\n'
             '                if first_obj in seen_objs:\n'
             '                    raise exc.InvalidRequestError(\n'
             '                        "Duplicate column expression requested "\n'
             '                        f"in textual SQL: {first_obj!r}"\n'
             '                    )\n'
             '                seen_objs.add(first_obj)\n'),
    sub('                # cursor.description name as the key and not what the\n'
             '                # Column has, see\n'
             '                # test_resultset.py::PositionalTextTest::test_via_column\n'
             '                if (\n'
             '                    uses_denormalize\n'
             '                    and unnormalized == ctx_rec[RM_RENDERED_NAME]\n'
             '                ):\n'
             '                    result_name = unnormalized\n'
             '                else:\n'
             '                    result_name = colname\n'
             '            else:\n'
             '                mapped_type = sqltypes.NULLTYPE\n'
             '                obj = None\n'
             '                ridx = None\n'
             '\n'
             '                result_name = colname\n',
        '                # cursor.description name as the key and not what the\n'
             '                # Column has, see\n'
             '                # test_resultset.py::PositionalTextTest::test_via_column\n'
             '                result_name = colname\n'
             '                if uses_denormalize:\n'
             '                    if unnormalized == ctx_rec[RM_RENDERED_NAME]:\n'
             '                        result_name = unnormalized\n')), None)
# further benign variants of the same families (rob-I)
R.mutant("benign-index-for-key-get-instead-of-try", CUR,
         sub("        try:\n            rec = self._keymap[key]\n        except KeyError as ke:\n            x = self._key_fallback(key, ke, raiseerr)\n            assert x is None\n            return None\n\n        index = rec[0]\n",
             "        keymap = self._keymap\n        rec = keymap.get(key)\n        if rec is None:\n            x = self._key_fallback(key, KeyError(key), raiseerr)\n            assert x is None\n            return None\n\n        index = rec[0]\n"), None)
R.mutant("benign-index-for-key-without-local", CUR,
         sub("        index = rec[0]\n\n        if index is None:\n            self._raise_for_ambiguous_column_name(rec)\n        return index\n",
             "        if rec[MD_INDEX] is None:\n            self._raise_for_ambiguous_column_name(rec)\n        return rec[MD_INDEX]\n"), None)
R.mutant("benign-fast-path-named-condition", CUR,
         sub("        if (\n            num_ctx_cols\n            and cols_are_ordered\n            and not textual_ordered\n            and num_ctx_cols == len(cursor_description)\n            and not driver_column_names\n        ):\n",
             "        same_count = num_ctx_cols == len(cursor_description)\n        positional = cols_are_ordered and not textual_ordered\n        if num_ctx_cols and positional and same_count and not driver_column_names:\n"), None)
R.mutant("benign-key-not-found-inverted", RES,
         sub("        if key in self._keymap:\n            # the index must be none in this case\n            self._raise_for_ambiguous_column_name(self._keymap[key])\n        else:\n            # unknown key\n            if attr_error:\n                try:\n                    self._key_fallback(key, None)\n                except KeyError as ke:\n                    raise AttributeError(ke.args[0]) from ke\n            else:\n                self._key_fallback(key, None)\n",
             "        if key not in self._keymap:\n            # unknown key\n            if attr_error:\n                try:\n                    self._key_fallback(key, None)\n                except KeyError as ke:\n                    raise AttributeError(ke.args[0]) from ke\n            else:\n                self._key_fallback(key, None)\n        else:\n            # the index must be none in this case\n            self._raise_for_ambiguous_column_name(self._keymap[key])\n"), None)
# the .get() form must still send the unknown key to _key_fallback
R.mutant("index-for-key-get-form-swallows-unknown-key", CUR,
         sub("        try:\n            rec = self._keymap[key]\n        except KeyError as ke:\n            x = self._key_fallback(key, ke, raiseerr)\n            assert x is None\n            return None\n\n        index = rec[0]\n",
             "        rec = self._keymap.get(key)\n        if rec is None:\n            return None\n\n        index = rec[0]\n"), "C11-R4")
R.mutant("fast-path-named-condition-without-count-check", CUR,
         sub("        if (\n            num_ctx_cols\n            and cols_are_ordered\n            and not textual_ordered\n            and num_ctx_cols == len(cursor_description)\n            and not driver_column_names\n        ):\n",
             "        same_count = num_ctx_cols <= len(cursor_description)\n        if (\n            num_ctx_cols\n            and cols_are_ordered\n            and not textual_ordered\n            and same_count\n            and not driver_column_names\n        ):\n"), "C11-R2")

# ---- str2-e (round-2 seeds C11_1 / C11_2): _adapt_to_context judged on models (R4), cache safety of the metadata (R5)
_ADAPT_MERGE = (
    "        return self._make_new_metadata(\n"
    "            keymap=self._keymap\n"
    "            | {\n"
    "                new: keymap_by_position[idx]\n"
    "                for idx, new in enumerate(\n"
    "                    invoked_statement._all_selected_columns\n"
    "                )\n"
    "                if idx in keymap_by_position\n"
    "            },\n"
)
_ADAPT_HEAD = "        return self._make_new_metadata(\n            keymap=keymap,\n"
_ADAPT_LOOP = ("        keymap = dict(self._keymap)\n"
               "        for idx, new in enumerate(invoked_statement._all_selected_columns):\n"
               "            if idx in keymap_by_position:\n")
# essence of seed C11_1: the cached statement's entry wins for an object that is already a key
R.mutant("adapt-cached-entry-wins-setdefault", CUR,
         sub(_ADAPT_MERGE, _ADAPT_LOOP + "                keymap.setdefault(new, keymap_by_position[idx])\n\n" + _ADAPT_HEAD), "C11-R4")
R.mutant("adapt-merge-direction-reversed", CUR,
         sub(_ADAPT_MERGE,
             "        return self._make_new_metadata(\n            keymap={\n                new: keymap_by_position[idx]\n                for idx, new in enumerate(\n"
             "                    invoked_statement._all_selected_columns\n                )\n                if idx in keymap_by_position\n            }\n            | self._keymap,\n"), "C11-R4")
R.mutant("adapt-position-without-record-not-skipped", CUR,
         sub("                    invoked_statement._all_selected_columns\n                )\n                if idx in keymap_by_position\n            },\n",
             "                    invoked_statement._all_selected_columns\n                )\n            },\n"), "C11-R4")
R.mutant("adapt-off-by-one-position", CUR, sub("                new: keymap_by_position[idx]\n", "                new: keymap_by_position.get(idx + 1, keymap_by_position[idx])\n"), "C11-R4")
R.mutant("benign-adapt-copy-and-assign-loop", CUR,
         sub(_ADAPT_MERGE, _ADAPT_LOOP + "                keymap[new] = keymap_by_position[idx]\n\n" + _ADAPT_HEAD), None)
R.mutant("benign-adapt-dict-unpacking", CUR,
         sub(_ADAPT_MERGE,
             "        adapted = {\n            new: keymap_by_position[idx]\n            for idx, new in enumerate(invoked_statement._all_selected_columns)\n            if idx in keymap_by_position\n        }\n"
             "        return self._make_new_metadata(\n            keymap={**self._keymap, **adapted},\n"), None)
R.mutant("benign-adapt-copy-update-inverted-test", CUR,
         sub(_ADAPT_MERGE,
             "        keymap = self._keymap.copy()\n        for position, column in enumerate(\n            invoked_statement._all_selected_columns\n        ):\n"
             "            if position not in keymap_by_position:\n                continue\n            keymap.update({column: keymap_by_position[position]})\n\n" + _ADAPT_HEAD), None)
R.mutant("benign-adapt-merge-extracted-into-a-method", CUR, chain(
    sub(_ADAPT_MERGE, "        return self._make_new_metadata(\n            keymap=self._rekeyed_for(invoked_statement, keymap_by_position),\n"),
    sub("    def _adapt_to_context(self, context: ExecutionContext) -> Self:\n",
        "    def _rekeyed_for(self, statement, by_position):\n        rekeyed = dict(self._keymap)\n        for idx, new in enumerate(statement._all_selected_columns):\n"
        "            rec = by_position.get(idx)\n            if rec is not None:\n                rekeyed[new] = rec\n        return rekeyed\n\n"
        "    def _adapt_to_context(self, context: ExecutionContext) -> Self:\n")), None)
# R5
_BY_NAME_FLAG = "                self._safe_for_cache = False\n                raw_iterator = self._merge_cols_by_name(\n"
R.mutant("by-name-merge-marked-cache-safe", CUR,   # essence of seed C11_2
         sub(_BY_NAME_FLAG, "                self._safe_for_cache = not driver_column_names\n                raw_iterator = self._merge_cols_by_name(\n"), "C11-R5")
R.mutant("raw-string-merge-marked-cache-safe", CUR,
         sub("                self._safe_for_cache = False\n                raw_iterator = self._merge_cols_by_none(\n", "                self._safe_for_cache = True\n                raw_iterator = self._merge_cols_by_none(\n"), "C11-R5")
R.mutant("textual-merge-cache-safe-with-driver-names", CUR,
         sub("                self._safe_for_cache = not driver_column_names\n                # textual positional case\n", "                self._safe_for_cache = True\n                # textual positional case\n"), "C11-R5")
R.mutant("metadata-cached-without-looking-at-the-flag", CUR,
         sub("                if metadata._safe_for_cache:\n                    compiled._cached_metadata = metadata\n", "                if metadata is not None:\n                    compiled._cached_metadata = metadata\n"), "C11-R5")
R.mutant("flag-store-after-by-name-branches-overrides", CUR,
         sub("            return [\n                (\n                    idx,\n                    ridx,\n                    obj,\n",
             "            self._safe_for_cache = not driver_column_names\n            return [\n                (\n                    idx,\n                    ridx,\n                    obj,\n"), "C11-R5")
R.mutant("benign-flag-default-hoisted", CUR, chain(
    sub("            if textual_ordered or (\n                ad_hoc_textual and len(cursor_description) == num_ctx_cols\n            ):\n",
        "            self._safe_for_cache = False\n            if textual_ordered or (\n                ad_hoc_textual and len(cursor_description) == num_ctx_cols\n            ):\n"),
    sub(_BY_NAME_FLAG, "                raw_iterator = self._merge_cols_by_name(\n"),
    sub("                self._safe_for_cache = False\n                raw_iterator = self._merge_cols_by_none(\n", "                raw_iterator = self._merge_cols_by_none(\n")), None)
R.mutant("benign-flag-in-a-local-stored-once", CUR, chain(
    sub("                self._safe_for_cache = not driver_column_names\n                # textual positional case\n", "                cacheable = not driver_column_names\n                # textual positional case\n"),
    sub(_BY_NAME_FLAG, "                cacheable = False\n                raw_iterator = self._merge_cols_by_name(\n"),
    sub("                self._safe_for_cache = False\n                raw_iterator = self._merge_cols_by_none(\n", "                cacheable = False\n                raw_iterator = self._merge_cols_by_none(\n"),
    sub("            return [\n                (\n                    idx,\n                    ridx,\n                    obj,\n",
        "            self._safe_for_cache = cacheable\n            return [\n                (\n                    idx,\n                    ridx,\n                    obj,\n")), None)
R.mutant("flag-in-a-local-by-name-cacheable", CUR, chain(
    sub("                self._safe_for_cache = not driver_column_names\n                # textual positional case\n", "                cacheable = not driver_column_names\n                # textual positional case\n"),
    sub(_BY_NAME_FLAG, "                cacheable = not driver_column_names\n                raw_iterator = self._merge_cols_by_name(\n"),
    sub("                self._safe_for_cache = False\n                raw_iterator = self._merge_cols_by_none(\n", "                cacheable = False\n                raw_iterator = self._merge_cols_by_none(\n"),
    sub("            return [\n                (\n                    idx,\n                    ridx,\n                    obj,\n",
        "            self._safe_for_cache = cacheable\n            return [\n                (\n                    idx,\n                    ridx,\n                    obj,\n")), "C11-R5")
R.mutant("benign-cache-store-guard-through-alias-and-early-exit", CUR,
         sub("                if metadata._safe_for_cache:\n                    compiled._cached_metadata = metadata\n",
             "                reusable = metadata._safe_for_cache\n                if reusable:\n                    compiled._cached_metadata = metadata\n"), None)
R.mutant("benign-textual-flag-through-a-constant-local", CUR,
         sub("                self._safe_for_cache = not driver_column_names\n                # textual positional case\n",
             "                positional_text = True\n                self._safe_for_cache = positional_text and not driver_column_names\n                # textual positional case\n"), None)
