"""Helpers of the str-l strengthening pass (C27 / C28).

* `eval3`            -- three-valued truth of a test under facts about *dotted* atoms (`self.x`,
                        `existing is self`, `isinstance(e, T)`), with local aliases (`was = self.x`).
* `contradicted`     -- branch edges that cannot be taken when the given facts hold (edge_ok cut list).
* `implying`         -- branch edges whose outcome implies an atom (by refutation: had the atom the
                        opposite value, the test would definitely have gone the other way).
* `flag_aliases`     -- locals that are plain snapshots of an attribute of self.
* `assignments` / `consistent_ok` -- enumerate truth assignments of the branch atoms of a small
                        function and walk only the edges consistent with one of them (exact
                        correlation of `if a or b: ... if a:` without a solver).
"""

from __future__ import annotations

import ast
import itertools
from typing import Dict, Iterable, List, Optional, Tuple

from ..astutil import dotted, name_stores, test_atoms, unparse
from ._helpers_rules_c import outcome


def _atom(e: ast.expr, alias: Dict[str, str]) -> Tuple[str, bool]:
    txt, pol = test_atoms(e, True)[0]
    return alias.get(txt, txt), pol


def eval3(e: ast.expr, facts: Dict[str, bool], alias: Optional[Dict[str, str]] = None) -> Optional[bool]:
    """True / False / None (unknown) of `e` when the atoms in `facts` have the given truth values."""
    alias = alias or {}
    if isinstance(e, ast.UnaryOp) and isinstance(e.op, ast.Not):
        v = eval3(e.operand, facts, alias)
        return None if v is None else (not v)
    if isinstance(e, ast.BoolOp):
        vals = [eval3(v, facts, alias) for v in e.values]
        if isinstance(e.op, ast.And):
            if any(v is False for v in vals):
                return False
            return True if all(v is True for v in vals) else None
        if any(v is True for v in vals):
            return True
        return False if all(v is False for v in vals) else None
    if isinstance(e, ast.Constant) and isinstance(e.value, (bool, type(None))):
        return bool(e.value)
    txt, pol = _atom(e, alias)
    if txt in facts:
        return facts[txt] if pol else (not facts[txt])
    return None


def branch_edges(g, only_copies: Optional[bool] = None):
    """(test node, raw label, successor, outcome bool) for every branch edge."""
    for n in g.nodes:
        if n.kind != "test":
            continue
        if only_copies is True and not n.copy:
            continue
        if only_copies is False and n.copy:
            continue
        for b, lab0 in g.succ[n.id]:
            lab = outcome(g, n.id, lab0)
            if lab is not None:
                yield n, lab0, b, lab == "true"


def contradicted(g, facts: Dict[str, bool], alias=None, only_copies: Optional[bool] = None) -> List[Tuple[int, str, int]]:
    """Branch edges whose outcome is impossible under `facts`."""
    out = []
    for n, lab0, b, o in branch_edges(g, only_copies):
        v = eval3(n.stmt.test, facts, alias)
        if v is not None and v != o:
            out.append((n.id, lab0, b))
    return out


def implying(g, atom: str, value: bool, alias=None) -> List[Tuple[int, str, int]]:
    """Branch edges that can only be taken when `atom` has truth value `value`."""
    return contradicted(g, {atom: not value}, alias)


def flag_aliases(fnode: ast.AST, flag: str) -> Dict[str, str]:
    """{local: flag} for locals bound exactly once in the function, to a plain read of `flag`."""
    binds: Dict[str, List[Optional[ast.expr]]] = {}
    for nm, v, _ in name_stores(fnode):
        binds.setdefault(nm, []).append(v)
    return {nm: flag for nm, vs in binds.items() if len(vs) == 1 and vs[0] is not None and dotted(vs[0]) == flag}


# ---------------------------------------------------------------------- exact correlation by enumeration
def branch_atoms(g, alias=None) -> List[str]:
    """Atom texts of all branch tests (and asserts) of the function, in first-appearance order."""
    seen: List[str] = []

    def visit(e):
        if isinstance(e, ast.UnaryOp) and isinstance(e.op, ast.Not):
            return visit(e.operand)
        if isinstance(e, ast.BoolOp):
            for v in e.values:
                visit(v)
            return
        if isinstance(e, ast.Constant):
            return
        t, _ = _atom(e, alias or {})
        if t not in seen:
            seen.append(t)

    for n in g.nodes:
        if n.kind == "test":
            visit(n.stmt.test)
    return seen


def assignments(atoms: List[str], limit: int = 10) -> Iterable[Dict[str, bool]]:
    if len(atoms) > limit:
        raise ValueError(f"{len(atoms)} branch atoms: too many to enumerate")
    for vals in itertools.product((True, False), repeat=len(atoms)):
        yield dict(zip(atoms, vals))


def consistent_ok(g, facts: Dict[str, bool], alias=None):
    """edge_ok that follows only the branch edges consistent with the truth assignment `facts`
    (asserts that are false under `facts` only leave through their exceptional edge)."""
    cut = {(a, lab) for a, lab, _ in contradicted(g, facts, alias)}
    dead_assert = set()
    for n in g.nodes:
        if n.kind == "stmt" and isinstance(n.stmt, ast.Assert) and eval3(n.stmt.test, facts, alias) is False:
            dead_assert.add(n.id)

    def ok(a, b, lab):
        if (a, lab) in cut:
            return False
        if a in dead_assert and lab != "exc":
            return False
        return True
    return ok


def describe_facts(facts: Dict[str, bool]) -> str:
    return ", ".join(f"`{a}` is {'true' if v else 'false'}" for a, v in facts.items())
