"""C38 -- Instrumented collections behave like the Python types (mutator cover, event pairing)."""

from __future__ import annotations

import ast

from ..astutil import FuncNode, call_name, calls_in, dotted, own_exprs, unparse, walk_local
from ..cfg import no_exc
from ..oracles import load, python_mutators
from ..report import Registry, sub

R = Registry(
    "C38",
    title="Instrumented collections behave like the Python types they wrap",
    decides=(
        "every membership-changing mutator of list/set/dict has an instrumentation decorator in the "
        "factory that orm.collections.__interfaces maps to that type; each decorator's wrapper fires the "
        "append/remove event kinds its builtin effect requires (directly or through an instrumented "
        "sibling), passes the event's return value to the underlying call, fires append/remove events "
        "before the mutation (pop family: pre-remove hook before, remove event after); in-place "
        "operators agree with their named sibling and return self."
    ),
    not_decided=(
        "index/slice arithmetic of list.__setitem__/__delitem__ (value level), the conditions under which "
        "an event is skipped, return values and exceptions versus the builtin, custom collection classes."
    ),
)

COLL = "orm/collections.py"
TYPES = ("list", "set", "dict")

#: adapter method called by a module-level helper -> event kind of that helper
ADAPTER_EVENTS = {
    "fire_append_event": "set",
    "fire_remove_event": "del",
    "fire_append_wo_mutation_event": "set_wo",
    "fire_pre_remove_event": "before_pop",
}


# --------------------------------------------------------------------------------- extraction
def _interfaces(ctx):
    """{typename: factory FuncInfo} read from the `__interfaces` table."""
    m = ctx.index.module(COLL)
    vals = m.assigns.get("__interfaces")
    ctx.require(vals, "module table __interfaces not found in orm/collections.py")
    out = {}
    for v in vals:
        for d in ast.walk(v):
            if not isinstance(d, ast.Dict):
                continue
            for k, val in zip(d.keys, d.values):
                if isinstance(k, ast.Name) and k.id in TYPES and isinstance(val, ast.Tuple) and len(val.elts) == 2:
                    c = val.elts[1]
                    ctx.require(isinstance(c, ast.Call) and isinstance(c.func, ast.Name) and not c.args,
                                f"__interfaces[{k.id}] decorators entry is not a plain factory call: {unparse(c)}")
                    f = m.functions.get(c.func.id)
                    ctx.require(f is not None, f"decorator factory {c.func.id} is not a module function")
                    out[k.id] = f
    ctx.require(set(out) == set(TYPES), f"__interfaces does not map exactly list/set/dict (found {sorted(out)})")
    return out


def _decorators(ctx, fac):
    """{mutator name: (decorator FunctionDef, wrapper FunctionDef, underlying-param name)} of a
    factory that returns `locals().copy()` minus popped names, or a dict display."""
    fn = fac.node
    defs = {st.name: st for st in fn.body if isinstance(st, FuncNode)}
    rets = [st for st in fn.body if isinstance(st, ast.Return)]
    ctx.require(len(rets) == 1 and rets[0].value is not None, f"{fac.key}: expected a single top-level return")
    rv = rets[0].value
    names = {}
    if isinstance(rv, ast.Dict):
        for k, v in zip(rv.keys, rv.values):
            ctx.require(isinstance(k, ast.Constant) and isinstance(v, ast.Name) and v.id in defs,
                        f"{fac.key}: returned dict entry not understood: {unparse(k)}: {unparse(v)}")
            names[k.value] = defs[v.id]
    else:
        ctx.require(isinstance(rv, ast.Name), f"{fac.key}: return value is neither a name nor a dict display")
        var = rv.id
        seeded = False
        for st in fn.body:
            if isinstance(st, FuncNode):
                ctx.require(not seeded, f"{fac.key}: function defined after the locals() snapshot")
                continue
            if isinstance(st, ast.Expr) and isinstance(st.value, ast.Constant):
                continue  # docstring
            if isinstance(st, ast.Return):
                continue
            if isinstance(st, ast.Assign) and len(st.targets) == 1 and isinstance(st.targets[0], ast.Name):
                t = st.targets[0].id
                txt = unparse(st.value).replace(" ", "")
                if t == var and txt in ("locals().copy()", "dict(locals())"):
                    names = dict(defs)
                    seeded = True
                    continue
                if not seeded and isinstance(st.value, ast.Name) and st.value.id in defs:
                    defs[t] = defs[st.value.id]  # alias  `__iadd__ = extend`
                    continue
            if (seeded and isinstance(st, ast.Expr) and isinstance(st.value, ast.Call)
                    and dotted(st.value.func) == f"{var}.pop" and st.value.args
                    and isinstance(st.value.args[0], ast.Constant)):
                names.pop(st.value.args[0].value, None)
                continue
            if (seeded and isinstance(st, ast.Delete) and len(st.targets) == 1
                    and isinstance(st.targets[0], ast.Subscript) and dotted(st.targets[0].value) == var
                    and isinstance(st.targets[0].slice, ast.Constant)):
                names.pop(st.targets[0].slice.value, None)
                continue
            ctx.error(f"{fac.key}: statement not understood while computing the decorator dict: {unparse(st)[:80]}")
        ctx.require(seeded, f"{fac.key}: no `{var} = locals().copy()` snapshot found")
    out = {}
    for name, d in names.items():
        params = [a.arg for a in d.args.args]
        ctx.require(len(params) == 1, f"{fac.key}.{name}: a decorator takes exactly the wrapped function")
        r = [n for n in d.body if isinstance(n, ast.Return)]
        ctx.require(len(r) == 1 and isinstance(r[0].value, ast.Name), f"{fac.key}.{name}: decorator does not return a named wrapper")
        inner = {st.name: st for st in d.body if isinstance(st, FuncNode)}
        w = inner.get(r[0].value.id)
        ctx.require(w is not None, f"{fac.key}.{name}: returned wrapper {r[0].value.id} is not defined in the decorator")
        wp = [a.arg for a in w.args.posonlyargs + w.args.args]
        ctx.require(wp and wp[0] == "self", f"{fac.key}.{name}: wrapper's first parameter is not self")
        out[name] = (d, w, params[0])
    return out


def _event_helpers(ctx):
    """{helper function name: kind} for module functions that call one adapter fire_* method."""
    m = ctx.index.module(COLL)
    out = {}
    for name, f in m.functions.items():
        kinds = set()
        for c in calls_in(f.node):
            if isinstance(c.func, ast.Attribute) and c.func.attr in ADAPTER_EVENTS:
                kinds.add(ADAPTER_EVENTS[c.func.attr])
        if len(kinds) == 1 and len(f.node.args.args) >= 1 and f.node.args.args[0].arg == "collection":
            out[name] = kinds.pop()
    ctx.require({"set", "del", "before_pop"} <= set(out.values()),
                f"event helper functions (append / remove / pre-remove) not found: {out}")
    return out


def _delegations(w):
    """mutator names invoked on `self` by wrapper `w`: self.X(...), self[k] = v, del self[k]."""
    out = []
    for n in walk_local(w):
        if isinstance(n, ast.Call) and isinstance(n.func, ast.Attribute) and isinstance(n.func.value, ast.Name) \
                and n.func.value.id == "self":
            out.append((n.func.attr, n))
        elif isinstance(n, (ast.Assign, ast.AugAssign)):
            for t in (n.targets if isinstance(n, ast.Assign) else [n.target]):
                if isinstance(t, ast.Subscript) and isinstance(t.value, ast.Name) and t.value.id == "self":
                    out.append(("__setitem__", n))
        elif isinstance(n, ast.Delete):
            for t in n.targets:
                if isinstance(t, ast.Subscript) and isinstance(t.value, ast.Name) and t.value.id == "self":
                    out.append(("__delitem__", n))
    return out


# --------------------------------------------------------------------------------- rules
@R.rule("C38-R1", floor=34, template="T-EXHAUST",
        desc="every membership mutator of builtin list/set/dict has a decorator in the factory that "
             "__interfaces maps to that type")
def r1(ctx):
    facs = _interfaces(ctx)
    for t in TYPES:
        fac = facs[t]
        ctx.functions_analysed.add(fac.key)
        want = f"_{t}_decorators"
        ctx.check(fac.name == want or t in fac.name, f"{COLL}::__interfaces[{t}]",
                  f"__interfaces[{t}] uses decorator factory {fac.name}() (built for another type)",
                  f"-> {fac.name}()", fac.loc)
        decs = _decorators(ctx, fac)
        members, order_only = python_mutators(t)
        for mname in members:
            key = f"{fac.key}.{mname}"
            if mname in decs:
                ctx.ok(key, "decorator present", nontrivial=False)
            else:
                ctx.violation(
                    key,
                    f"builtin {t}.{mname} changes membership but {fac.name}() has no decorator for it: "
                    f"the builtin runs on the instrumented collection and fires no append/remove event",
                    fac.loc,
                )
        for mname in order_only:
            ctx.note(f"{t}.{mname} is order-only (no membership change): no event required")


@R.rule("C38-R2", floor=31, template="T-PATH",
        desc="each wrapper fires the event kinds its builtin effect requires (directly or via an "
             "instrumented sibling), stores the value returned by the append event, and orders "
             "events around the underlying call like its siblings (pop family: after)")
def r2(ctx):
    facs = _interfaces(ctx)
    helpers = _event_helpers(ctx)
    effects = load("python_mutator_effects.json")
    for t in TYPES:
        fac = facs[t]
        decs = _decorators(ctx, fac)
        eff = effects[t]
        for mname in sorted(eff):
            key = f"{fac.key}.{mname}"
            if mname not in decs:
                # the missing decorator is C38-R1's violation; there is no wrapper to examine here
                ctx.ok(key, "no wrapper to examine (missing decorator is reported by C38-R1)", nontrivial=False)
                continue
            d, w, fnparam = decs[mname]
            loc = f"{fac.module.path}:{w.lineno}"
            g = ctx.cfg(w)
            ev_nodes = {"set": [], "del": [], "set_wo": [], "before_pop": []}
            under = []
            set_calls = []
            for n in g.nodes:
                if n.stmt is None or n.kind in ("with_exit", "handler", "join") or not isinstance(n.stmt, ast.stmt):
                    continue
                for part in own_exprs(n.stmt):
                    for c in calls_in(part):
                        nm = call_name(c)
                        if nm in helpers:
                            ev_nodes[helpers[nm]].append(n.id)
                            if helpers[nm] == "set":
                                set_calls.append((c, n.stmt))
                        elif nm == fnparam:
                            under.append((n.id, c))
            under_ids = [i for i, _ in under]
            dele = _delegations(w)
            problems = []
            # (d) delegations must reach instrumented siblings
            for dn, node in dele:
                if dn in eff and dn not in decs:
                    problems.append(f"delegates to self.{dn} which has no decorator in {fac.name}() (no events)")
            fires_add = bool(ev_nodes["set"]) or any(dn in decs and eff.get(dn) in ("add", "both") for dn, _ in dele)
            fires_rem = bool(ev_nodes["del"]) or any(dn in decs and eff.get(dn) in ("remove", "both") for dn, _ in dele)
            e = eff[mname]
            # (a) kind coverage
            if e in ("add", "both") and not fires_add:
                problems.append(f"{t}.{mname} can add members but the wrapper fires no append event")
            if e in ("remove", "both") and not fires_rem:
                problems.append(f"{t}.{mname} can remove members but the wrapper fires no remove event")
            # (e) value returned by the append event is what gets stored
            for c, st in set_calls:
                tgt = None
                if isinstance(st, ast.Assign) and st.value is c and len(st.targets) == 1 and isinstance(st.targets[0], ast.Name):
                    tgt = st.targets[0].id
                stored = tgt is not None and any(
                    any(isinstance(a, ast.Name) and a.id == tgt for a in uc.args) for _, uc in under
                )
                if under and not stored:
                    problems.append("the value returned by the append event (validators may replace it) is not "
                                    "what is passed to the underlying call")
            # (b) append events before insertion
            if under_ids and e in ("add", "both"):
                if not ev_nodes["set"]:
                    problems.append("underlying call adds members with no append event in this wrapper")
                else:
                    for f_id in under_ids:
                        wit = g.always_preceded(f_id, ev_nodes["set"] + ev_nodes["set_wo"], edge_ok=no_exc)
                        if wit is not None:
                            problems.append("underlying call reachable without a preceding append event: " + " -> ".join(wit[-3:]))
                    after = g.reachable(under_ids, edge_ok=no_exc, include_starts=False)
                    if set(ev_nodes["set"]) & after:
                        problems.append("append event fired after the underlying insertion")
            # (c) remove events: before the mutation; pop family: pre-remove hook before, event after
            if under_ids and e in ("remove", "both"):
                after = g.reachable(under_ids, edge_ok=no_exc, include_starts=False)
                before = set()
                for dnode in ev_nodes["del"]:
                    if set(under_ids) & g.reachable([dnode], edge_ok=no_exc, include_starts=False):
                        before.add(dnode)
                if not ev_nodes["del"]:
                    problems.append("underlying call removes members with no remove event in this wrapper")
                elif mname in ("pop", "popitem"):
                    for f_id in under_ids:
                        wit = g.always_preceded(f_id, ev_nodes["before_pop"], edge_ok=no_exc)
                        if wit is not None:
                            problems.append("pop-style wrapper: underlying call not preceded by the pre-remove hook")
                    if not (set(ev_nodes["del"]) & after):
                        problems.append("pop-style wrapper: no remove event after the underlying call")
                    if before:
                        problems.append("pop-style wrapper fires the remove event before the underlying call "
                                        "(siblings fire it afterwards with the popped item)")
                else:
                    if set(ev_nodes["del"]) & after:
                        problems.append("remove event fired after the underlying removal (siblings fire it before)")
                    if not before:
                        problems.append("no remove event can precede the underlying call")
            how = []
            if ev_nodes["set"]:
                how.append("append-event")
            if ev_nodes["del"]:
                how.append("remove-event")
            if dele:
                how.append("delegates:" + ",".join(sorted({dn for dn, _ in dele if dn in decs})))
            ctx.check(not problems, key, "; ".join(problems), f"{e}: " + " ".join(how), loc)


def _self_call_names(fn):
    return sorted({dn for dn, _ in _delegations(fn)})


@R.rule("C38-R3", floor=5, template="T-SIBLING",
        desc="in-place operators perform the same self-operations as their named sibling, return self, "
             "and (sets) return NotImplemented only under the negated binop type check")
def r3(ctx):
    facs = _interfaces(ctx)
    sib = load("python_mutator_effects.json")["inplace_sibling"]
    for t in TYPES:
        fac = facs[t]
        decs = _decorators(ctx, fac)
        for op, s in sorted(sib[t].items()):
            key = f"{fac.key}.{op}"
            if op not in decs or s not in decs:
                ctx.note(f"{t}.{op} or sibling {s} has no decorator (reported by C38-R1)")
                continue
            _, w, _ = decs[op]
            _, ws, _ = decs[s]
            loc = f"{fac.module.path}:{w.lineno}"
            problems = []
            a, b = _self_call_names(w), _self_call_names(ws)
            delegating = a == [s]
            if not delegating and a != b:
                problems.append(f"{op} performs self-operations {a} but sibling {s} performs {b}")
            params = [x.arg for x in w.args.args[1:]]
            rets = [r for r in walk_local(w) if isinstance(r, ast.Return)]
            ni = [r for r in rets if isinstance(r.value, ast.Name) and r.value.id == "NotImplemented"]
            other = [r for r in rets if r not in ni]
            if not other or not all(isinstance(r.value, ast.Name) and r.value.id == "self" for r in other):
                problems.append(f"{op} does not return self on its operating path")
            g = ctx.cfg(w)
            if g.exit in g.reachable([g.entry], avoid=[i for r in rets for i in g.nodes_for(r)], edge_ok=no_exc):
                problems.append(f"{op} can fall off the end (returns None: `x {op} y` would rebind x to None)")
            pm = fac.module.parents()
            for r in ni:
                par = pm.get(r)
                good = (
                    isinstance(par, ast.If) and r in par.body
                    and isinstance(par.test, ast.UnaryOp) and isinstance(par.test.op, ast.Not)
                    and isinstance(par.test.operand, ast.Call)
                    and "binops_check" in (call_name(par.test.operand) or "")
                    and any(isinstance(x, ast.Name) and x.id in params for x in par.test.operand.args)
                )
                if not good:
                    problems.append("NotImplemented is returned outside a negated _set_binops_check_* test of the operand")
            if t == "set" and not ni:
                problems.append(f"set {op} lacks the operand type check (plain iterables must give NotImplemented/TypeError like set)")
            ctx.check(not problems, key, "; ".join(problems), f"agrees with {s}: {a}", loc)


# --------------------------------------------------------------------------------- self-test
# R1
R.mutant("list-clear-decorator-removed", COLL,
         sub("    def clear(fn):\n        def clear(self, index=-1):\n            for item in self:\n                __del(self, item, None, index)\n            fn(self)\n\n        _tidy(clear)\n        return clear\n", ""),
         "C38-R1")
R.mutant("set-remove-popped-from-dict", COLL,
         sub("        _tidy(__ixor__)\n        return __ixor__\n\n    l = locals().copy()\n    l.pop(\"_tidy\")\n",
             "        _tidy(__ixor__)\n        return __ixor__\n\n    l = locals().copy()\n    l.pop(\"_tidy\")\n    l.pop(\"remove\")\n"),
         "C38-R1")
R.mutant("interfaces-dict-uses-set-factory", COLL,
         sub("dict: ({\"iterator\": \"values\"}, _dict_decorators()),", "dict: ({\"iterator\": \"values\"}, _set_decorators()),"),
         "C38-R1")
# R2
R.mutant("list-remove-event-after", COLL,
         sub("            __del(self, value, _sa_initiator, NO_KEY)\n            # testlib.pragma exempt:__eq__\n            fn(self, value)\n",
             "            fn(self, value)\n            __del(self, value, _sa_initiator, NO_KEY)\n"),
         "C38-R2")
R.mutant("list-append-drops-event-result", COLL,
         sub("            item = __set(self, item, _sa_initiator, NO_KEY)\n            fn(self, item)\n",
             "            __set(self, item, _sa_initiator, NO_KEY)\n            fn(self, item)\n"),
         "C38-R2")
R.mutant("dict-delitem-no-event", COLL,
         sub("            if key in self:\n                __del(self, self[key], _sa_initiator, key)\n            fn(self, key)\n",
             "            fn(self, key)\n"),
         "C38-R2")
R.mutant("set-pop-no-before-hook", COLL,
         sub("        def pop(self):\n            __before_pop(self)\n            item = fn(self)\n", "        def pop(self):\n            item = fn(self)\n"),
         "C38-R2")
R.mutant("list-extend-raw", COLL,
         sub("        def extend(self, iterable):\n            for value in list(iterable):\n                self.append(value)\n",
             "        def extend(self, iterable):\n            fn(self, iterable)\n"),
         "C38-R2")
R.mutant("dict-setitem-insert-before-event", COLL,
         sub("            value = __set(self, value, _sa_initiator, key)\n            fn(self, key, value)\n",
             "            fn(self, key, value)\n            value = __set(self, value, _sa_initiator, key)\n"),
         "C38-R2")
# R3
R.mutant("set-isub-adds", COLL,
         sub("                return NotImplemented\n            for item in value:\n                self.discard(item)\n            return self\n",
             "                return NotImplemented\n            for item in value:\n                self.add(item)\n            return self\n"),
         "C38-R3")
R.mutant("list-iadd-no-return-self", COLL,
         sub("            for value in list(iterable):\n                self.append(value)\n            return self\n",
             "            for value in list(iterable):\n                self.append(value)\n"),
         "C38-R3")
R.mutant("set-ior-no-type-check", COLL,
         sub("        def __ior__(self, value):\n            if not _set_binops_check_strict(self, value):\n                return NotImplemented\n",
             "        def __ior__(self, value):\n"),
         "C38-R3")
# benign
R.mutant("benign-rename-local-pop", COLL,
         sub("            __before_pop(self)\n            item = fn(self, index)\n            __del(self, item, None, index)\n            return item\n",
             "            __before_pop(self)\n            popped = fn(self, index)\n            __del(self, popped, None, index)\n            return popped\n"),
         None)
R.mutant("benign-ior-delegates-to-update", COLL,
         sub("                return NotImplemented\n            for item in value:\n                self.add(item)\n            return self\n",
             "                return NotImplemented\n            self.update(value)\n            return self\n"),
         None)
R.mutant("benign-extra-decorator", COLL,
         sub("    # __imul__ : not wrapping this.",
             "    def copy(fn):\n        def copy(self):\n            return fn(self)\n\n        _tidy(copy)\n        return copy\n\n    # __imul__ : not wrapping this."),
         None)
