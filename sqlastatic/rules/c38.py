"""C38 -- Instrumented collections behave like the Python types (mutator cover, event pairing)."""

from __future__ import annotations

import ast
import re

from ..astutil import FuncNode, call_name, calls_in, dotted, own_exprs, parent_map, test_atoms, unparse, walk_local
from ..cfg import no_exc
from ..oracles import load, python_mutators
from ..report import Registry, sub
from ._helpers_rob_f2 import atom_exprs, by_name, env_of, guard_atom_exprs_at, guard_atoms_at, inline_local_calls

R = Registry(
    "C38",
    title="Instrumented collections behave like the Python types they wrap",
    decides=(
        "every membership-changing mutator of list/set/dict has an instrumentation decorator in the "
        "factory that orm.collections.__interfaces maps to that type; each decorator's wrapper fires the "
        "append/remove event kinds its builtin effect requires (directly or through an instrumented "
        "sibling), passes the event's return value to the underlying call, fires append/remove events "
        "before the mutation (pop family: pre-remove hook before, remove event after); in-place "
        "operators agree with their named sibling and return self; the item handed to every remove event "
        "is selected by the same selector the underlying call receives (every member only for an "
        "argument-less call or under a guard on start, stop and step), events after the call carry the "
        "returned item; pop-style wrappers skip the remove event only under a test decided before the "
        "call and fire it on the 'was a member' outcome; every wrapper applies its operation to self on every "
        "normal path and in every loop iteration; pre-mutation remove events are fired for members only "
        "(membership / not-None outcome) and on every path that removes; the no-mutation event only for an "
        "object that already is the member; every wrapper carries the _sa_instrumented marker and the places "
        "that instrument test it (no double wrapping); pop/popitem/setdefault return the member; the "
        "NO_ARG sentinel of optional parameters never reaches the underlying call; and, as a bounded model check of "
        "the statement itself (C38-R12), every wrapper interpreted on all collection states of size <= 4 with all "
        "arguments of a small domain (repeated elements, one-shot iterators, the collection itself, mapping / pairs / "
        "keyword forms, negative / out-of-range / reversed indices and slices) leaves the same contents, returns the "
        "same value, raises the same exception class as the builtin type and fires events that account exactly for "
        "the members added and removed."
    ),
    not_decided=(
        "inputs outside the bounded domain of C38-R12 (collections of more than 4 members, unhashable / incomparable "
        "members, members whose __eq__ differs from identity, several operands to set.update & co., iterables that "
        "raise midway), exception messages, behaviour of wrapper constructs outside the interpreted subset (exit 2), "
        "custom collection classes."
    ),
)

COLL = "orm/collections.py"
TYPES = ("list", "set", "dict")

#: adapter method called by a module-level helper -> event kind of that helper
ADAPTER_EVENTS = {
    "fire_append_event": "set",
    "fire_remove_event": "del",
    "fire_append_wo_mutation_event": "set_wo",
    "fire_pre_remove_event": "before_pop",
}


# --------------------------------------------------------------------------------- extraction
def _interfaces(ctx):
    """{typename: factory FuncInfo} read from the `__interfaces` table."""
    m = ctx.index.module(COLL)
    vals = m.assigns.get("__interfaces")
    ctx.require(vals, "module table __interfaces not found in orm/collections.py")
    out = {}
    for v in vals:
        for d in ast.walk(v):
            if not isinstance(d, ast.Dict):
                continue
            for k, val in zip(d.keys, d.values):
                if isinstance(k, ast.Name) and k.id in TYPES and isinstance(val, ast.Tuple) and len(val.elts) == 2:
                    c = val.elts[1]
                    ctx.require(isinstance(c, ast.Call) and isinstance(c.func, ast.Name) and not c.args,
                                f"__interfaces[{k.id}] decorators entry is not a plain factory call: {unparse(c)}")
                    f = m.functions.get(c.func.id)
                    ctx.require(f is not None, f"decorator factory {c.func.id} is not a module function")
                    out[k.id] = f
    ctx.require(set(out) == set(TYPES), f"__interfaces does not map exactly list/set/dict (found {sorted(out)})")
    return out


def _decorators(ctx, fac):
    """{mutator name: (decorator FunctionDef, wrapper FunctionDef, underlying-param name)} of a
    factory that returns `locals().copy()` minus popped names, or a dict display.

    The wrapper is returned with its local helpers inlined (closures of the factory that are not decorators, module
    functions that deliver events): what a wrapper does is the same whether it is written in the wrapper or in a
    helper it calls.  One (cached) object per wrapper, so that all rules share CFGs."""
    cache = ctx.__dict__.setdefault("_c38_decorators", {})
    if fac.key not in cache:
        cache[fac.key] = _decorators_uncached(ctx, fac)
    return cache[fac.key]


def _is_decorator_shaped(d):
    params = [a.arg for a in d.args.args]
    r = [n for n in d.body if isinstance(n, ast.Return)]
    inner = {st.name for st in d.body if isinstance(st, FuncNode)}
    if len(params) != 1 or len(r) != 1:
        return False
    v = r[0].value
    if isinstance(v, ast.Call) and len(v.args) == 1 and not v.keywords:
        v = v.args[0]
    return isinstance(v, ast.Name) and v.id in inner


def _decorators_uncached(ctx, fac):
    fn = fac.node
    defs = {st.name: st for st in fn.body if isinstance(st, FuncNode)}
    rets = [st for st in fn.body if isinstance(st, ast.Return)]
    ctx.require(len(rets) == 1 and rets[0].value is not None, f"{fac.key}: expected a single top-level return")
    rv = rets[0].value
    names = {}
    if isinstance(rv, ast.Dict):
        for k, v in zip(rv.keys, rv.values):
            ctx.require(isinstance(k, ast.Constant) and isinstance(v, ast.Name) and v.id in defs,
                        f"{fac.key}: returned dict entry not understood: {unparse(k)}: {unparse(v)}")
            names[k.value] = defs[v.id]
    else:
        ctx.require(isinstance(rv, ast.Name), f"{fac.key}: return value is neither a name nor a dict display")
        var = rv.id
        seeded = False
        for st in fn.body:
            if isinstance(st, FuncNode):
                ctx.require(not seeded, f"{fac.key}: function defined after the locals() snapshot")
                continue
            if isinstance(st, ast.Expr) and isinstance(st.value, ast.Constant):
                continue  # docstring
            if isinstance(st, ast.Return):
                continue
            if isinstance(st, ast.Assign) and len(st.targets) == 1 and isinstance(st.targets[0], ast.Name):
                t = st.targets[0].id
                txt = unparse(st.value).replace(" ", "")
                if t == var and txt in ("locals().copy()", "dict(locals())"):
                    names = dict(defs)
                    seeded = True
                    continue
                if not seeded and isinstance(st.value, ast.Name) and st.value.id in defs:
                    defs[t] = defs[st.value.id]  # alias  `__iadd__ = extend`
                    continue
            if (seeded and isinstance(st, ast.Expr) and isinstance(st.value, ast.Call)
                    and dotted(st.value.func) == f"{var}.pop" and st.value.args
                    and isinstance(st.value.args[0], ast.Constant)):
                names.pop(st.value.args[0].value, None)
                continue
            if (seeded and isinstance(st, ast.Delete) and len(st.targets) == 1
                    and isinstance(st.targets[0], ast.Subscript) and dotted(st.targets[0].value) == var
                    and isinstance(st.targets[0].slice, ast.Constant)):
                names.pop(st.targets[0].slice.value, None)
                continue
            ctx.error(f"{fac.key}: statement not understood while computing the decorator dict: {unparse(st)[:80]}")
        ctx.require(seeded, f"{fac.key}: no `{var} = locals().copy()` snapshot found")
    out = {}
    # an entry of the returned dict is applied to a collection class only when the class has a method of that name
    # (_setup_canned_roles): a helper closure that is not a method name of the type is inert there
    type_attrs = set()
    for t in TYPES:
        members, order_only = python_mutators(t)
        type_attrs |= set(members) | set(order_only)
    type_attrs |= {n for t_ in (list, set, dict) for n in dir(t_)}
    module_fns = ctx.index.module(COLL).functions
    ev_helpers = _event_helpers(ctx)
    local_helpers = {n: d for n, d in defs.items() if not _is_decorator_shaped(d) and not _marks_param(d)}
    mod_helpers = {}
    for n, f in module_fns.items():
        if n in ev_helpers or not isinstance(f.node, ast.FunctionDef):
            continue
        if any(call_name(c) in ev_helpers for c in calls_in(f.node)):
            mod_helpers[n] = f.node

    def helper(nm):
        return local_helpers.get(nm) or mod_helpers.get(nm)

    for name, d in names.items():
        if name not in type_attrs and not _is_decorator_shaped(d):
            ctx.note(f"{fac.key}.{name}: helper closure left in the returned dict (not a method name of the type: never applied)")
            continue
        params = [a.arg for a in d.args.args]
        ctx.require(len(params) == 1, f"{fac.key}.{name}: a decorator takes exactly the wrapped function")
        r = [n for n in d.body if isinstance(n, ast.Return)]
        ctx.require(len(r) == 1 and r[0].value is not None, f"{fac.key}.{name}: decorator does not return a named wrapper")
        rv_ = r[0].value
        if isinstance(rv_, ast.Call) and len(rv_.args) == 1 and not rv_.keywords and isinstance(rv_.func, ast.Name):
            # `return _tidy(wrapper)`: a marking helper that hands its argument back
            hf = defs.get(rv_.func.id) or (module_fns[rv_.func.id].node if rv_.func.id in module_fns else None)
            p0 = hf.args.args[0].arg if hf is not None and hf.args.args else None
            hrets = [x for x in walk_local(hf) if isinstance(x, ast.Return)] if hf is not None else []
            ctx.require(hf is not None and hrets and all(isinstance(x.value, ast.Name) and x.value.id == p0 for x in hrets),
                        f"{fac.key}.{name}: decorator returns `{unparse(rv_)}`, and {rv_.func.id} does not return its argument")
            rv_ = rv_.args[0]
        ctx.require(isinstance(rv_, ast.Name), f"{fac.key}.{name}: decorator does not return a named wrapper")
        inner = {st.name: st for st in d.body if isinstance(st, FuncNode)}
        w = inner.get(rv_.id)
        ctx.require(w is not None, f"{fac.key}.{name}: returned wrapper {rv_.id} is not defined in the decorator")
        wp = [a.arg for a in w.args.posonlyargs + w.args.args]
        ctx.require(wp and wp[0] == "self", f"{fac.key}.{name}: wrapper's first parameter is not self")
        if local_helpers or mod_helpers:
            w2, n_inl = inline_local_calls(w, by_name(helper))
            if n_inl:
                w = w2
        out[name] = (d, w, params[0])
    return out


def _event_helpers(ctx):
    """{helper function name: kind} for module functions that call one adapter fire_* method."""
    m = ctx.index.module(COLL)
    out = {}
    for name, f in m.functions.items():
        kinds = set()
        for c in calls_in(f.node):
            if isinstance(c.func, ast.Attribute) and c.func.attr in ADAPTER_EVENTS:
                kinds.add(ADAPTER_EVENTS[c.func.attr])
        if len(kinds) == 1 and len(f.node.args.args) >= 1 and f.node.args.args[0].arg == "collection":
            out[name] = kinds.pop()
    ctx.require({"set", "del", "before_pop"} <= set(out.values()),
                f"event helper functions (append / remove / pre-remove) not found: {out}")
    return out


def _delegations(w):
    """mutator names invoked on `self` by wrapper `w`: self.X(...), self[k] = v, del self[k]."""
    out = []
    for n in walk_local(w):
        if isinstance(n, ast.Call) and isinstance(n.func, ast.Attribute) and isinstance(n.func.value, ast.Name) \
                and n.func.value.id == "self":
            out.append((n.func.attr, n))
        elif isinstance(n, (ast.Assign, ast.AugAssign)):
            for t in (n.targets if isinstance(n, ast.Assign) else [n.target]):
                if isinstance(t, ast.Subscript) and isinstance(t.value, ast.Name) and t.value.id == "self":
                    out.append(("__setitem__", n))
        elif isinstance(n, ast.Delete):
            for t in n.targets:
                if isinstance(t, ast.Subscript) and isinstance(t.value, ast.Name) and t.value.id == "self":
                    out.append(("__delitem__", n))
    return out


# --------------------------------------------------------------------------------- rules
@R.rule("C38-R1", floor=34, template="T-EXHAUST",
        desc="every membership mutator of builtin list/set/dict has a decorator in the factory that "
             "__interfaces maps to that type")
def r1(ctx):
    facs = _interfaces(ctx)
    for t in TYPES:
        fac = facs[t]
        ctx.functions_analysed.add(fac.key)
        want = f"_{t}_decorators"
        ctx.check(fac.name == want or t in fac.name, f"{COLL}::__interfaces[{t}]",
                  f"__interfaces[{t}] uses decorator factory {fac.name}() (built for another type)",
                  f"-> {fac.name}()", fac.loc)
        decs = _decorators(ctx, fac)
        members, order_only = python_mutators(t)
        for mname in members:
            key = f"{fac.key}.{mname}"
            if mname in decs:
                ctx.ok(key, "decorator present", nontrivial=False)
            else:
                ctx.violation(
                    key,
                    f"builtin {t}.{mname} changes membership but {fac.name}() has no decorator for it: "
                    f"the builtin runs on the instrumented collection and fires no append/remove event",
                    fac.loc,
                )
        for mname in order_only:
            ctx.note(f"{t}.{mname} is order-only (no membership change): no event required")


@R.rule("C38-R2", floor=31, template="T-PATH",
        desc="each wrapper fires the event kinds its builtin effect requires (directly or via an "
             "instrumented sibling), stores the value returned by the append event, and orders "
             "events around the underlying call like its siblings (pop family: after)")
def r2(ctx):
    facs = _interfaces(ctx)
    helpers = _event_helpers(ctx)
    effects = load("python_mutator_effects.json")
    for t in TYPES:
        fac = facs[t]
        decs = _decorators(ctx, fac)
        eff = effects[t]
        for mname in sorted(eff):
            key = f"{fac.key}.{mname}"
            if mname not in decs:
                # the missing decorator is C38-R1's violation; there is no wrapper to examine here
                ctx.ok(key, "no wrapper to examine (missing decorator is reported by C38-R1)", nontrivial=False)
                continue
            d, w, fnparam = decs[mname]
            loc = f"{fac.module.path}:{w.lineno}"
            g = ctx.cfg(w)
            ev_nodes = {"set": [], "del": [], "set_wo": [], "before_pop": []}
            under = []
            set_calls = []
            for n in g.nodes:
                if n.stmt is None or n.kind in ("with_exit", "handler", "join") or not isinstance(n.stmt, ast.stmt):
                    continue
                for part in own_exprs(n.stmt):
                    for c in calls_in(part):
                        nm = call_name(c)
                        if nm in helpers:
                            ev_nodes[helpers[nm]].append(n.id)
                            if helpers[nm] == "set":
                                set_calls.append((c, n.stmt))
                        elif nm == fnparam:
                            under.append((n.id, c))
            under_ids = [i for i, _ in under]
            dele = _delegations(w)
            problems = []
            # (d) delegations must reach instrumented siblings
            for dn, node in dele:
                if dn in eff and dn not in decs:
                    problems.append(f"delegates to self.{dn} which has no decorator in {fac.name}() (no events)")
            fires_add = bool(ev_nodes["set"]) or any(dn in decs and eff.get(dn) in ("add", "both") for dn, _ in dele)
            fires_rem = bool(ev_nodes["del"]) or any(dn in decs and eff.get(dn) in ("remove", "both") for dn, _ in dele)
            e = eff[mname]
            # (a) kind coverage
            if e in ("add", "both") and not fires_add:
                problems.append(f"{t}.{mname} can add members but the wrapper fires no append event")
            if e in ("remove", "both") and not fires_rem:
                problems.append(f"{t}.{mname} can remove members but the wrapper fires no remove event")
            # (e) value returned by the append event is what gets stored
            for c, st in set_calls:
                tgt = None
                if isinstance(st, ast.Assign) and st.value is c and len(st.targets) == 1 and isinstance(st.targets[0], ast.Name):
                    tgt = st.targets[0].id
                stored = tgt is not None and any(
                    any(isinstance(a, ast.Name) and a.id == tgt for a in uc.args) for _, uc in under
                )
                if under and not stored:
                    problems.append("the value returned by the append event (validators may replace it) is not "
                                    "what is passed to the underlying call")
                a0 = c.args[0] if c.args else None
                if not (isinstance(a0, ast.Name) and a0.id == "self"):
                    problems.append(f"append event `{unparse(c)[:50]}` is not fired for this collection (first argument is not self)")
                a1 = c.args[1] if len(c.args) > 1 else None
                if (isinstance(a1, ast.Name) and tgt is not None and a1.id != tgt
                        and any(any(isinstance(a, ast.Name) and a.id == a1.id for a in uc.args) for _, uc in under)):
                    problems.append(
                        f"the append event is given `{a1.id}`, which the underlying call also receives as is, while its "
                        f"result is stored as `{tgt}`: the announced item is not the member being inserted")
            # (b) append events before insertion
            if under_ids and e in ("add", "both"):
                if not ev_nodes["set"]:
                    problems.append("underlying call adds members with no append event in this wrapper")
                else:
                    for f_id in under_ids:
                        wit = g.always_preceded(f_id, ev_nodes["set"] + ev_nodes["set_wo"], edge_ok=no_exc)
                        if wit is not None:
                            problems.append("underlying call reachable without a preceding append event: " + " -> ".join(wit[-3:]))
                    after = g.reachable(under_ids, edge_ok=no_exc, include_starts=False)
                    if set(ev_nodes["set"]) & after:
                        problems.append("append event fired after the underlying insertion")
            # (c) remove events: before the mutation; pop family: pre-remove hook before, event after
            if under_ids and e in ("remove", "both"):
                after = g.reachable(under_ids, edge_ok=no_exc, include_starts=False)
                before = set()
                for dnode in ev_nodes["del"]:
                    if set(under_ids) & g.reachable([dnode], edge_ok=no_exc, include_starts=False):
                        before.add(dnode)
                if not ev_nodes["del"]:
                    problems.append("underlying call removes members with no remove event in this wrapper")
                elif mname in ("pop", "popitem"):
                    for f_id in under_ids:
                        wit = g.always_preceded(f_id, ev_nodes["before_pop"], edge_ok=no_exc)
                        if wit is not None:
                            problems.append("pop-style wrapper: underlying call not preceded by the pre-remove hook")
                    if not (set(ev_nodes["del"]) & after):
                        problems.append("pop-style wrapper: no remove event after the underlying call")
                    if before:
                        problems.append("pop-style wrapper fires the remove event before the underlying call "
                                        "(siblings fire it afterwards with the popped item)")
                else:
                    if set(ev_nodes["del"]) & after:
                        problems.append("remove event fired after the underlying removal (siblings fire it before)")
                    if not before:
                        problems.append("no remove event can precede the underlying call")
            how = []
            if ev_nodes["set"]:
                how.append("append-event")
            if ev_nodes["del"]:
                how.append("remove-event")
            if dele:
                how.append("delegates:" + ",".join(sorted({dn for dn, _ in dele if dn in decs})))
            ctx.check(not problems, key, "; ".join(problems), f"{e}: " + " ".join(how), loc)


def _self_call_names(fn):
    return sorted({dn for dn, _ in _delegations(fn)})


@R.rule("C38-R3", floor=5, template="T-SIBLING",
        desc="in-place operators perform the same self-operations as their named sibling, return self, "
             "and (sets) return NotImplemented only under the negated binop type check")
def r3(ctx):
    facs = _interfaces(ctx)
    effects = load("python_mutator_effects.json")
    sib = effects["inplace_sibling"]
    for t in TYPES:
        fac = facs[t]
        decs = _decorators(ctx, fac)
        # what is compared is which MUTATORS of the collection the two wrappers apply; how each of them reads the
        # collection (self.symmetric_difference(..), set(self), `x in self`) is its own business (C38-R12 decides the result)
        mutating = set(effects[t]) | set(python_mutators(t)[0])
        for op, s in sorted(sib[t].items()):
            key = f"{fac.key}.{op}"
            if op not in decs or s not in decs:
                ctx.note(f"{t}.{op} or sibling {s} has no decorator (reported by C38-R1)")
                continue
            _, w, _ = decs[op]
            _, ws, _ = decs[s]
            loc = f"{fac.module.path}:{w.lineno}"
            problems = []
            a = [x for x in _self_call_names(w) if x in mutating]
            b = [x for x in _self_call_names(ws) if x in mutating]
            delegating = a == [s]
            if not delegating and a != b:
                problems.append(f"{op} performs self-operations {a} but sibling {s} performs {b}")
            params = [x.arg for x in w.args.args[1:]]
            rets = [r for r in walk_local(w) if isinstance(r, ast.Return)]
            ni = [r for r in rets if isinstance(r.value, ast.Name) and r.value.id == "NotImplemented"]
            other = [r for r in rets if r not in ni]
            if not other or not all(isinstance(r.value, ast.Name) and r.value.id == "self" for r in other):
                problems.append(f"{op} does not return self on its operating path")
            g = ctx.cfg(w)
            if g.exit in g.reachable([g.entry], avoid=[i for r in rets for i in g.nodes_for(r)], edge_ok=no_exc):
                problems.append(f"{op} can fall off the end (returns None: `x {op} y` would rebind x to None)")
            pm = parent_map(w)
            wenv = env_of(w)
            for r in ni:
                # the branch outcomes dominating the return (if/else either way round, flag locals) must include the
                # FAILED operand check `_set_binops_check_*(self, <operand>)`
                good = False
                for e, pol in guard_atom_exprs_at(g, pm, r, wenv):
                    if (pol is False and isinstance(e, ast.Call) and "binops_check" in (call_name(e) or "")
                            and len(e.args) == 2 and not e.keywords
                            and isinstance(e.args[0], ast.Name) and e.args[0].id == "self"
                            and isinstance(e.args[1], ast.Name) and e.args[1].id in params):
                        good = True
                if not good:
                    problems.append("NotImplemented is returned outside a negated `_set_binops_check_*(self, <operand>)` test "
                                    "(receiver first, operand second)")
            if t == "set" and not ni:
                problems.append(f"set {op} lacks the operand type check (plain iterables must give NotImplemented/TypeError like set)")
            ctx.check(not problems, key, "; ".join(problems), f"agrees with {s}: {a}", loc)


# ----------------------------------------------------------------- R4 / R5: which items, and when
_COPIES = {"list", "tuple", "iter", "reversed", "sorted", "set", "frozenset"}
_WHOLE_METHODS = {"values", "copy", "__iter__", "keys"}
_SLICE_FIELDS = ("start", "stop", "step")


class _Prov:
    """where the item handed to a remove event comes from:
    kind 'sel'      -- selected from the collection by selector `sel` (a wrapper argument, or an
                       expression over one): the item IS that argument, is self[sel], or is an
                       element of self[sel];
    kind 'whole'    -- an element of the whole collection (for x in self / self.values() / self[k]
                       for k in self); `at` is the statement that introduces the whole-collection
                       iteration;
    kind 'returned' -- derived from the value returned by the underlying call;
    kind 'unknown'  -- not understood."""

    def __init__(self, kind, sel=None, at=None, why="", direct=False):
        self.kind, self.sel, self.at, self.why = kind, sel, at, why
        #: the item IS the caller's argument (nothing was read from the collection to obtain it)
        self.direct = direct


def _wrapper_env(w):
    """name -> [('assign', value, stmt) | ('iter', iterable, stmt) | ('other', None, stmt)]"""
    env = {}
    for n in walk_local(w):
        if isinstance(n, ast.Assign):
            for t in n.targets:
                if isinstance(t, ast.Name):
                    env.setdefault(t.id, []).append(("assign", n.value, n))
                else:
                    for e in ast.walk(t):
                        if isinstance(e, ast.Name) and isinstance(e.ctx, ast.Store):
                            env.setdefault(e.id, []).append(("other", None, n))
        elif isinstance(n, ast.AnnAssign) and isinstance(n.target, ast.Name) and n.value is not None:
            env.setdefault(n.target.id, []).append(("assign", n.value, n))
        elif isinstance(n, ast.NamedExpr) and isinstance(n.target, ast.Name):
            env.setdefault(n.target.id, []).append(("assign", n.value, n))
        elif isinstance(n, (ast.For, ast.AsyncFor)):
            if isinstance(n.target, ast.Name):
                env.setdefault(n.target.id, []).append(("iter", n.iter, n))
            else:
                for e in ast.walk(n.target):
                    if isinstance(e, ast.Name):
                        env.setdefault(e.id, []).append(("other", None, n))
        elif isinstance(n, (ast.With, ast.AsyncWith)):
            for it in n.items:
                if it.optional_vars is not None:
                    for e in ast.walk(it.optional_vars):
                        if isinstance(e, ast.Name):
                            env.setdefault(e.id, []).append(("other", None, n))
        # AugAssign (`index += len(self)`) keeps the name's role as the same selector
    return env


class _Origin:
    def __init__(self, w, fnparam):
        self.w = w
        self.fnparam = fnparam
        self.params = [a.arg for a in w.args.posonlyargs + w.args.args + w.args.kwonlyargs][1:]
        self.env = _wrapper_env(w)

    @staticmethod
    def _is_self(e):
        return isinstance(e, ast.Name) and e.id == "self"

    def _full_slice(self, k):
        return isinstance(k, ast.Slice) and k.lower is None and k.upper is None and k.step is None

    def selector(self, k, at, depth=0):
        """provenance of self[k]"""
        if self._full_slice(k):
            return [_Prov("whole", at=at)]
        if isinstance(k, ast.Name) and k.id not in self.params and depth < 6:
            defs = self.env.get(k.id, [])
            out = []
            for kind, val, st in defs:
                if kind == "iter":
                    # `for key in self: ... self[key]`  -> every member
                    sub_ = self.elems(val, st, depth + 1)
                    if all(p.kind == "whole" for p in sub_):
                        out.extend(sub_)
                        continue
                    out.append(_Prov("unknown", why=f"self[{k.id}] with {k.id} iterating `{unparse(val)}`"))
                elif kind == "assign" and isinstance(val, ast.Name):
                    out.extend(self.selector(val, st, depth + 1))
                else:
                    out.append(_Prov("sel", sel=k.id))
            if out:
                return out
        return [_Prov("sel", sel=unparse(k))]

    def item(self, e, at, depth=0):
        """provenance of an expression that denotes ONE member"""
        if depth > 6:
            return [_Prov("unknown", why="definition chain too deep")]
        if isinstance(e, ast.Name):
            if e.id in self.params:
                return [_Prov("sel", sel=e.id, direct=True)]
            defs = self.env.get(e.id)
            if not defs:
                return [_Prov("unknown", why=f"`{e.id}` has no local definition")]
            out = []
            for kind, val, st in defs:
                if kind == "assign":
                    out.extend(self.item(val, st, depth + 1))
                elif kind == "iter":
                    out.extend(self.elems(val, st, depth + 1))
                else:
                    out.append(_Prov("unknown", why=f"`{e.id}` bound by `{unparse(st)[:50]}`"))
            return out
        if isinstance(e, ast.Subscript):
            if self._is_self(e.value):
                return self.selector(e.slice, at, depth)
            inner = self.item(e.value, at, depth + 1)
            if inner and all(p.kind == "returned" for p in inner):
                return inner  # item[1] of a popped (key, value) pair
            return [_Prov("unknown", why=f"`{unparse(e)}`")]
        if isinstance(e, ast.Call):
            nm = call_name(e) or ""
            if nm == self.fnparam:
                return [_Prov("returned")]
            if nm in ("self.__getitem__", "self.get") and e.args:
                return self.selector(e.args[0], at, depth)
        return [_Prov("unknown", why=f"`{unparse(e)[:60]}`")]

    def elems(self, e, at, depth=0):
        """provenance of the ELEMENTS of iterable `e`"""
        if depth > 6:
            return [_Prov("unknown", why="definition chain too deep")]
        if self._is_self(e):
            return [_Prov("whole", at=at)]
        if isinstance(e, ast.Call):
            nm = call_name(e) or ""
            if nm in _COPIES and len(e.args) == 1 and not e.keywords:
                return self.elems(e.args[0], at, depth + 1)
            if nm.startswith("self.") and nm[5:] in _WHOLE_METHODS and not e.args:
                return [_Prov("whole", at=at)]
            if nm in ("self.__getitem__",) and e.args:
                return self.selector(e.args[0], at, depth)
        if isinstance(e, ast.Subscript) and self._is_self(e.value):
            return self.selector(e.slice, at, depth)
        if isinstance(e, ast.Name):
            if e.id in self.params:
                return [_Prov("sel", sel=e.id)]
            out = []
            for kind, val, st in self.env.get(e.id, []):
                if kind == "assign":
                    out.extend(self.elems(val, st, depth + 1))
                else:
                    out.append(_Prov("unknown", why=f"`{e.id}` bound by `{unparse(st)[:50]}`"))
            if out:
                return out
        return [_Prov("unknown", why=f"elements of `{unparse(e)[:60]}`")]


def _wrapper_calls(g, helpers, fnparam):
    """(event nodes by kind with their calls, underlying calls) of a wrapper's CFG"""
    ev = {"set": [], "del": [], "set_wo": [], "before_pop": []}
    under = []
    for n in g.nodes:
        if n.stmt is None or n.kind in ("with_exit", "handler", "join") or not isinstance(n.stmt, ast.stmt):
            continue
        if n.copy:
            continue
        for part in own_exprs(n.stmt):
            for c in calls_in(part):
                nm = call_name(c)
                if nm in helpers:
                    ev[helpers[nm]].append((n.id, c))
                elif nm == fnparam:
                    under.append((n.id, c))
    return ev, under


def _slice_shortcut_fields(g, stmt, sel):
    """fields of slice-selector `sel` that the branch outcomes dominating `stmt` mention; None when
    the selector is compared as a whole (`index == slice(None)`)."""
    fields = set()
    for nid in g.nodes_for(stmt):
        for t, _pol in g.edge_guards(nid):
            for n in ast.walk(t):
                if isinstance(n, ast.Attribute) and isinstance(n.value, ast.Name) and n.value.id == sel \
                        and n.attr in _SLICE_FIELDS:
                    fields.add(n.attr)
                if isinstance(n, ast.Compare) and len(n.ops) == 1 and isinstance(n.ops[0], ast.Eq):
                    for side in (n.left, n.comparators[0]):
                        if isinstance(side, ast.Name) and side.id == sel:
                            return None
    return fields


@R.rule("C38-R4", floor=13, template="T-FLOW",
        desc="in every wrapper that calls the underlying method, the item handed to each remove event is "
             "selected from the collection by the SAME selector that the underlying call receives (the argument "
             "itself, self[arg], an element of self[arg]); every member of the collection is announced only when "
             "the underlying call takes no selector (clear); events fired after the call carry the returned item")
def r4(ctx):
    facs = _interfaces(ctx)
    helpers = _event_helpers(ctx)
    effects = load("python_mutator_effects.json")
    for t in TYPES:
        fac = facs[t]
        decs = _decorators(ctx, fac)
        removers = {m for m, e in effects[t].items() if e in ("remove", "both")}
        for mname in sorted(removers | set(decs)):
            key = f"{fac.key}.{mname}:remove-item"
            if mname not in decs:
                ctx.ok(key, "no wrapper to examine (missing decorator is reported by C38-R1)", nontrivial=False)
                continue
            d, w, fnparam = decs[mname]
            g = ctx.cfg(w)
            ev, under = _wrapper_calls(g, helpers, fnparam)
            if not under:
                continue  # pure delegation to instrumented siblings: nothing to relate here
            if not ev["del"]:
                if mname in removers:
                    ctx.ok(key, "no remove event in this wrapper (kind coverage is C38-R2's)", nontrivial=False)
                continue
            loc = f"{fac.module.path}:{w.lineno}"
            org = _Origin(w, fnparam)
            problems, how = [], []
            for nid, c in ev["del"]:
                ctx.require(len(c.args) >= 2, f"{key}: remove-event helper called without an item: {unparse(c)}")
                after_ids = g.reachable([nid], edge_ok=no_exc, include_starts=False)
                u_after = [(i, uc) for i, uc in under if i in after_ids]
                u_before = [(i, uc) for i, uc in under
                            if nid in g.reachable([i], edge_ok=no_exc, include_starts=False)]
                provs = org.item(c.args[1], g.nodes[nid].stmt)
                for p in provs:
                    ctx.require(p.kind != "unknown",
                                f"{key}: origin of the remove-event item `{unparse(c.args[1])}` not understood: {p.why}")
                    if p.kind == "returned":
                        if not u_before:
                            problems.append(f"remove event item `{unparse(c.args[1])}` is taken from the underlying "
                                            "call, which has not run at that point")
                        how.append("returned item")
                        continue
                    if not u_after:
                        # event fired after the removal: only the returned item is known to be what left
                        problems.append(
                            f"remove event after the underlying call is given `{unparse(c.args[1])}` "
                            f"(read from the already mutated collection / arguments) instead of the item the call returned")
                        continue
                    for _, uc in u_after:
                        uargs = [unparse(a) for a in uc.args[1:]] + [unparse(k.value) for k in uc.keywords]
                        if p.kind == "sel":
                            if p.sel in uargs:
                                how.append(f"selected by `{p.sel}`")
                            else:
                                problems.append(
                                    f"remove events are fired for what `{p.sel}` selects, but the underlying call "
                                    f"`{unparse(uc)}` does not receive `{p.sel}`: the members announced as removed "
                                    "need not be the members that leave")
                        elif p.kind == "whole":
                            if not uargs:
                                how.append("every member (underlying call takes no selector)")
                                continue
                            fields = None
                            sels = [a for a in uargs if a in org.params]
                            for s in sels:
                                fields = _slice_shortcut_fields(g, p.at, s)
                                if fields is None or set(fields) == set(_SLICE_FIELDS):
                                    break
                            else:
                                missing = sorted(set(_SLICE_FIELDS) - set(fields or ()))
                                problems.append(
                                    f"remove events are fired for EVERY member of the collection "
                                    f"(`{unparse(p.at).splitlines()[0][:60]}`) while the underlying call `{unparse(uc)}` removes only "
                                    f"what `{', '.join(uargs)}` selects"
                                    + (f"; the shortcut is guarded on {sorted(fields)} only, {missing} unconstrained"
                                       if fields else ""))
                                continue
                            how.append("every member under a whole-slice guard (start, stop and step constrained)")
            ctx.check(not problems, key, "; ".join(dict.fromkeys(problems)), ", ".join(dict.fromkeys(how)), loc)


def _resolved_atoms(test, pol, env):
    """conjunctive atoms of a branch outcome; a bare local flag assigned once from a test is replaced by that test"""
    out = set()
    for txt, apol in test_atoms(test, pol):
        defs = env.get(txt, []) if txt.isidentifier() else []
        if len(defs) == 1 and defs[0][0] == "assign" and defs[0][1] is not None:
            out |= set(test_atoms(defs[0][1], apol))
        else:
            out.add((txt, apol))
    return out


def _atoms_at(g, nid, env):
    out = set()
    for tst, pol in g.edge_guards(nid):
        out |= _resolved_atoms(tst, pol, env)
    return out


_IN_SELF = re.compile(r"^(.+) in self$")
_IS_NONE = re.compile(r"^(.+) is None$")


def _names_read(e):
    return {n.id for n in ast.walk(e) if isinstance(n, ast.Name) and isinstance(n.ctx, ast.Load)}


@R.rule("C38-R5", floor=4, template="T-PATH",
        desc="pop-style wrappers (remove event after the underlying call): every normal path from the call to the "
             "exit fires the remove event, except under a test that was decided BEFORE the call (membership "
             "computed up front, or arguments only) -- never by comparing the returned item with a caller-supplied "
             "value, and never by testing membership in the already mutated collection")
def r5(ctx):
    facs = _interfaces(ctx)
    helpers = _event_helpers(ctx)
    effects = load("python_mutator_effects.json")
    for t in TYPES:
        fac = facs[t]
        decs = _decorators(ctx, fac)
        # builtins that hand back the member they removed: the wrapper only learns the item from the call
        popstyle = {m for m in effects["returns_value"][t] if effects[t].get(m) in ("remove", "both")}
        for mname in sorted(popstyle | set(decs)):
            if mname not in decs:
                ctx.ok(f"{fac.key}.{mname}:remove-decision",
                       "no wrapper to examine (missing decorator is reported by C38-R1)", nontrivial=False)
                continue
            d, w, fnparam = decs[mname]
            g = ctx.cfg(w)
            ev, under = _wrapper_calls(g, helpers, fnparam)
            if not under:
                continue
            under_ids = [i for i, _ in under]
            after = g.reachable(under_ids, edge_ok=no_exc, include_starts=False)
            dels_after = [i for i, _ in ev["del"] if i in after]
            key = f"{fac.key}.{mname}:remove-decision"
            if not dels_after:
                if ev["before_pop"]:
                    ctx.ok(key, "pre-remove hook but no remove event after the call (reported by C38-R2)", nontrivial=False)
                continue  # not pop-style (event precedes the mutation)
            loc = f"{fac.module.path}:{w.lineno}"
            org = _Origin(w, fnparam)
            free = g.reachable(under_ids, avoid=dels_after, edge_ok=no_exc, include_starts=False)
            if g.exit not in free:
                ctx.ok(key, "every normal path after the underlying call fires the remove event")
                continue
            problems, how = [], []
            deciding = [n for n in g.nodes if n.id in free and n.kind == "test"
                        and g.exit in g.reachable([n.id], avoid=dels_after, edge_ok=no_exc)
                        and set(dels_after) & g.reachable([n.id], edge_ok=no_exc)]
            if not deciding:
                problems.append("a normal path from the underlying call to the exit skips the remove event "
                                "without any test deciding it")
            # names whose value is produced at/after the call
            post = {}
            for name, defs in org.env.items():
                for kind, val, st in defs:
                    ids = set(g.nodes_for(st))
                    if ids & (after | set(under_ids)):
                        post.setdefault(name, []).append((val, st))
            for n in deciding:
                test = n.stmt.test
                names = _names_read(test)
                late = sorted(x for x in names if x in post)
                from_call = [x for x in late if any(
                    val is not None and any(call_name(c) == fnparam for c in calls_in(val)) for val, _ in post[x])]
                caller = sorted(x for x in names if x in org.params)
                membership_now = [c for c in ast.walk(test) if isinstance(c, ast.Compare)
                                  and any(isinstance(o, (ast.In, ast.NotIn)) for o in c.ops)
                                  and any(isinstance(x, ast.Name) and x.id == "self" for x in c.comparators)]
                late_membership = [x for x in late if any(
                    val is not None and any(isinstance(c, ast.Compare) and any(isinstance(o, (ast.In, ast.NotIn)) for o in c.ops)
                                            and any(isinstance(y, ast.Name) and y.id == "self" for y in c.comparators)
                                            for c in ast.walk(val)) for val, _ in post[x])]
                if from_call and caller:
                    problems.append(
                        f"whether the remove event fires is decided by `{unparse(test)}`, which compares the value "
                        f"returned by the underlying call ({', '.join(from_call)}) with the caller-supplied "
                        f"{', '.join(caller)}: a member equal/identical to that argument leaves the collection "
                        "without a remove event; membership must be established before the call")
                elif membership_now or late_membership:
                    problems.append(
                        f"whether the remove event fires is decided by `{unparse(test)}`, a membership test evaluated "
                        "after the underlying call already removed the member")
                else:
                    how.append(f"`{unparse(test)}` decided before the call" if not late else f"`{unparse(test)}`")
            for dn in dels_after:
                for txt, pol in _atoms_at(g, dn, org.env):
                    m_ = _IN_SELF.match(txt)
                    if m_ and not pol:
                        problems.append(
                            f"the remove event after the call is on the branch where `{m_.group(1)}` was NOT a member "
                            f"(`{txt}` is false there): members that leave fire no event, absent keys do")
            ctx.check(not problems, key, "; ".join(dict.fromkeys(problems)), "event skipped only under " + ", ".join(how), loc)


#: (wrapper key, test text, outcome) whose branch legitimately ends the wrapper without touching the collection
NOOP_BRANCHES = {
    ("orm/collections.py::_list_decorators.__setitem__", "value is self", True):
        "coll[:] = coll leaves a list unchanged (builtin semantics); nothing to apply, no event",
    ("orm/collections.py::_list_decorators.__setitem__", "len(self) > start", False):
        "slice assignment past the end of the list: nothing left to delete in this iteration",
}


def _canon_atom(e, pol):
    """(text, polarity) of a condition atom with comparisons in one canonical spelling: `a > b` == `b < a`,
    `a <= b` == not `b < a`, `a is not b` == not `a is b`"""
    if isinstance(e, ast.Compare) and len(e.ops) == 1:
        l, r, op = e.left, e.comparators[0], e.ops[0]
        if isinstance(op, ast.Gt):
            return (f"{unparse(r)} < {unparse(l)}", pol)
        if isinstance(op, ast.Lt):
            return (f"{unparse(l)} < {unparse(r)}", pol)
        if isinstance(op, ast.LtE):
            return (f"{unparse(r)} < {unparse(l)}", not pol)
        if isinstance(op, ast.GtE):
            return (f"{unparse(l)} < {unparse(r)}", not pol)
        if isinstance(op, ast.IsNot):
            return (f"{unparse(l)} is {unparse(r)}", not pol)
        if isinstance(op, ast.NotEq):
            return (f"{unparse(l)} == {unparse(r)}", not pol)
    return (unparse(e), pol)


def _membership_outcome(test):
    """('present'-edge label) of a plain `x in self` / `x not in self` test, else None"""
    if isinstance(test, ast.Compare) and len(test.ops) == 1 and isinstance(test.ops[0], (ast.In, ast.NotIn)) \
            and isinstance(test.comparators[0], ast.Name) and test.comparators[0].id == "self":
        return "true" if isinstance(test.ops[0], ast.In) else "false"
    return None


@R.rule("C38-R6", floor=31, template="T-PATH",
        desc="every wrapper applies the operation it wraps: each normal path from entry to exit passes the underlying "
             "call, a delegation to an instrumented sibling mutator (self.X(..), self[k] = v, del self[k]), a loop over "
             "such a delegation, an explicit no-mutation event, or `return NotImplemented`; the only other way out is "
             "the 'already present' outcome of a membership test in an add-only mutator")
def r6(ctx):
    facs = _interfaces(ctx)
    helpers = _event_helpers(ctx)
    effects = load("python_mutator_effects.json")
    for t in TYPES:
        fac = facs[t]
        decs = _decorators(ctx, fac)
        eff = effects[t]
        for mname in sorted(eff):
            key = f"{fac.key}.{mname}:applied"
            if mname not in decs:
                ctx.ok(key, "no wrapper to examine (missing decorator is reported by C38-R1)", nontrivial=False)
                continue
            d, w, fnparam = decs[mname]
            loc = f"{fac.module.path}:{w.lineno}"
            g = ctx.cfg(w)
            ev, under = _wrapper_calls(g, helpers, fnparam)

            def applies(node):
                """does AST `node` contain the underlying call or a delegation to an instrumented mutator"""
                for n in [node] + list(walk_local(node)):
                    if isinstance(n, ast.Call):
                        nm = call_name(n) or ""
                        if nm == fnparam:
                            return True
                        if nm.startswith("self.") and nm.count(".") == 1 and nm[5:] in decs and nm[5:] in eff:
                            return True
                    elif isinstance(n, (ast.Assign, ast.AugAssign)):
                        for tg in (n.targets if isinstance(n, ast.Assign) else [n.target]):
                            if isinstance(tg, ast.Subscript) and isinstance(tg.value, ast.Name) and tg.value.id == "self" \
                                    and "__setitem__" in decs:
                                return True
                    elif isinstance(n, ast.Delete):
                        for tg in n.targets:
                            if isinstance(tg, ast.Subscript) and isinstance(tg.value, ast.Name) and tg.value.id == "self" \
                                    and "__delitem__" in decs:
                                return True
                return False

            markers = set(i for i, _ in under) | set(i for i, _ in ev["set_wo"])
            cut = set()
            wenv = env_of(w)
            noop_atoms = {_canon_atom(ast.parse(txt, mode="eval").body, pol)
                          for (wk, txt, pol) in NOOP_BRANCHES if wk == fac.key + "." + mname}
            for n in g.nodes:
                if n.stmt is None or not isinstance(n.stmt, ast.stmt) or n.kind in ("with_exit", "handler", "join"):
                    continue
                if n.kind == "for":
                    if any(applies(st) for st in n.stmt.body):
                        markers.add(n.id)
                    continue
                if n.kind == "test" and isinstance(n.stmt, ast.While) and any(applies(st) for st in n.stmt.body):
                    markers.add(n.id)
                    continue
                if n.kind == "test":
                    test = n.stmt.test
                    for lab in ("true", "false"):
                        # the branch outcome IMPLIES a registered no-op condition (whichever way the test is written)
                        have = {_canon_atom(e, p) for e, p in atom_exprs(test, lab == "true", wenv)}
                        if have & noop_atoms:
                            cut.add((n.id, lab))
                    if eff[mname] == "add":
                        lab = _membership_outcome(test)
                        if lab is not None:
                            cut.add((n.id, lab))
                    continue
                if isinstance(n.stmt, ast.Return) and isinstance(n.stmt.value, ast.Name) and n.stmt.value.id == "NotImplemented":
                    markers.add(n.id)
                    continue
                if any(applies(p) for p in own_exprs(n.stmt)) or (isinstance(n.stmt, (ast.Assign, ast.AugAssign, ast.Delete)) and applies(n.stmt)):
                    markers.add(n.id)

            def edge_ok(a, b, lab):
                return lab != "exc" and (a, lab) not in cut

            problems = []
            wit = g.witness([g.entry], [g.exit], avoid=markers, edge_ok=edge_ok)
            if wit is not None:
                problems.append(
                    f"{t}.{mname}: a normal path through the wrapper neither calls the underlying {t}.{mname} nor an "
                    f"instrumented sibling: the collection is left unchanged (or events were fired for nothing): "
                    + " -> ".join(g.describe_path(wit)[-4:]))
            # the operation / the events are applied to THIS collection
            for kind_ in ev:
                for _, c in ev[kind_]:
                    if not (c.args and isinstance(c.args[0], ast.Name) and c.args[0].id == "self"):
                        problems.append(f"event helper call `{unparse(c)[:60]}` does not pass `self` as the collection")
            for _, uc in under:
                if not (uc.args and isinstance(uc.args[0], ast.Name) and uc.args[0].id == "self"):
                    problems.append(f"underlying call `{unparse(uc)[:60]}` is not applied to `self`")
            # every iteration of a loop does something: applies the operation or fires an event
            ev_ids = {i for kind_ in ev for i, _ in ev[kind_]}
            for n in g.nodes:
                if n.kind != "for" or n.copy:
                    continue
                body_heads = [b for b, lab in g.succ[n.id] if lab == "true"]
                doing = (markers - {n.id}) | ev_ids
                starts = [b for b in body_heads if b not in doing]
                if not starts:
                    continue
                w2 = g.witness(starts, [n.id], avoid=doing, edge_ok=edge_ok) if n.id not in starts else [n.id]
                if w2 is not None:
                    problems.append(
                        f"{t}.{mname}: an iteration of `for {unparse(n.stmt.target)} in {unparse(n.stmt.iter)[:40]}` can complete "
                        "without applying the operation or firing an event (the element is silently skipped): "
                        + " -> ".join(g.describe_path(w2)[-3:]))
            ctx.check(not problems, key, "; ".join(dict.fromkeys(problems)),
                      f"{len(markers)} applying statement(s) cover every normal path", loc,
                      g.describe_path(wit) if wit else None)


@R.rule("C38-R7", floor=13, template="T-GUARD",
        desc="a remove event fired BEFORE the underlying call is fired for a member only: the item was read from the "
             "collection (self[k], an element of self / self[k]) or, when it is the caller's argument itself, the event "
             "is dominated by `<arg> in self` (siblings set.remove/discard, dict.__delitem__); otherwise a call that "
             "raises for a non-member (list.remove -> ValueError) has already announced a removal that never happens")
def r7(ctx):
    facs = _interfaces(ctx)
    helpers = _event_helpers(ctx)
    effects = load("python_mutator_effects.json")
    for t in TYPES:
        fac = facs[t]
        decs = _decorators(ctx, fac)
        removers = {m for m, e in effects[t].items() if e in ("remove", "both")}
        for mname in sorted(removers | set(decs)):
            key = f"{fac.key}.{mname}:remove-member-only"
            if mname not in decs:
                ctx.ok(key, "no wrapper to examine (missing decorator is reported by C38-R1)", nontrivial=False)
                continue
            d, w, fnparam = decs[mname]
            g = ctx.cfg(w)
            ev, under = _wrapper_calls(g, helpers, fnparam)
            if not under:
                continue
            if not ev["del"]:
                if mname in removers:
                    ctx.ok(key, "no remove event in this wrapper (kind coverage is C38-R2's)", nontrivial=False)
                continue
            loc = f"{fac.module.path}:{w.lineno}"
            org = _Origin(w, fnparam)
            problems, how, n_pre = [], [], 0
            for nid, c in ev["del"]:
                after_ids = g.reachable([nid], edge_ok=no_exc, include_starts=False)
                if not any(i in after_ids for i, _ in under):
                    continue  # event after the call (pop style): C38-R5
                n_pre += 1
                if len(c.args) < 2:
                    continue
                atoms = _atoms_at(g, nid, org.env)
                item_txt = unparse(c.args[1])
                for txt, pol in atoms:
                    m_ = _IN_SELF.match(txt)
                    if m_ and not pol:
                        problems.append(
                            f"{t}.{mname}: the remove event `{unparse(c)[:50]}` is on the branch where `{m_.group(1)}` is NOT a "
                            "member: members that leave fire no event")
                    m_ = _IS_NONE.match(txt)
                    if m_ and pol and m_.group(1) == item_txt:
                        problems.append(
                            f"{t}.{mname}: the remove event is fired only when the item `{item_txt}` is None: real members "
                            "that are replaced/removed fire no event")
                for p in org.item(c.args[1], g.nodes[nid].stmt):
                    if p.kind != "sel" or not p.direct:
                        how.append("item read from the collection")
                        continue
                    if (f"{p.sel} in self", True) in atoms:
                        how.append(f"guarded by `{p.sel} in self`")
                    else:
                        problems.append(
                            f"{t}.{mname}: the remove event for the caller's argument `{p.sel}` is fired before the underlying "
                            f"call without `{p.sel} in self` being established: for a non-member the builtin raises / does "
                            "nothing, but the event (listeners, backref, hasparent=False -> delete-orphan) has already "
                            "announced its removal"
                            + (f" (guards found: {sorted(atoms)})" if atoms else ""))
            if n_pre:
                # ... and for every member: the underlying removal is reached without a remove event only through the
                # 'not a member' / 'is None' outcome of a test
                del_ids = {i for i, _ in ev["del"]}
                for n in g.nodes:
                    if n.kind == "for" and not n.copy and any(
                            call_name(c_) in helpers and helpers[call_name(c_)] == "del"
                            for st in n.stmt.body for c_ in calls_in(st)):
                        del_ids.add(n.id)
                cut = set()
                for n in g.nodes:
                    if n.kind != "test":
                        continue
                    for lab in ("true", "false"):
                        for txt, pol in _resolved_atoms(n.stmt.test, lab == "true", org.env):
                            if (_IN_SELF.match(txt) and not pol) or (_IS_NONE.match(txt) and pol):
                                cut.add((n.id, lab))

                def edge_ok(a, b, lab):
                    return lab != "exc" and (a, lab) not in cut

                for uid, uc in under:
                    wit = g.witness([g.entry], [uid], avoid=del_ids, edge_ok=edge_ok)
                    if wit is not None:
                        problems.append(
                            f"{t}.{mname}: a normal path reaches the underlying `{unparse(uc)}` without a remove event although "
                            "no test established that nothing is being removed: " + " -> ".join(g.describe_path(wit)[-3:]))
                ctx.check(not problems, key, "; ".join(dict.fromkeys(problems)), ", ".join(dict.fromkeys(how)), loc,
                          nontrivial=any("guarded" in h for h in how) or bool(problems))
            else:
                ctx.ok(key, "remove event only after the underlying call (C38-R5)", nontrivial=False)


MARK = "_sa_instrumented"


def _marks_param(fn_node):
    """does function `fn_node` unconditionally store `<its first parameter>._sa_instrumented = True`"""
    if not fn_node.args.args:
        return False
    p0 = fn_node.args.args[0].arg
    for st in fn_node.body:
        if isinstance(st, ast.Assign):  # the consumers test hasattr(): any stored value marks
            for tg in st.targets:
                if isinstance(tg, ast.Attribute) and tg.attr == MARK and isinstance(tg.value, ast.Name) and tg.value.id == p0:
                    return True
    return False


def _marked_in(body, wname, helpers_):
    """is the function named `wname` marked by a top-level statement of `body`"""
    for st in body:
        if isinstance(st, ast.Assign):
            for tg in st.targets:
                if isinstance(tg, ast.Attribute) and tg.attr == MARK and isinstance(tg.value, ast.Name) and tg.value.id == wname:
                    return "direct store"
        # `_tidy(w)` / `w = _tidy(w)` / `return _tidy(w)`
        if isinstance(st, (ast.Expr, ast.Return, ast.Assign)) and isinstance(st.value, ast.Call) and isinstance(st.value.func, ast.Name) \
                and st.value.func.id in helpers_ and st.value.args \
                and isinstance(st.value.args[0], ast.Name) and st.value.args[0].id == wname:
            return f"via {st.value.func.id}()"
    return None


@R.rule("C38-R8", floor=35, template="T-PROTOCOL",
        desc="single instrumentation: every wrapper produced by a decorator factory (and by "
             "_instrument_membership_mutator) carries the `_sa_instrumented` marker before it is returned, and the "
             "places that apply decorators / implicit appender-remover instrumentation test that marker first -- "
             "otherwise a method is wrapped twice and every append/remove event fires twice")
def r8(ctx):
    from ..astutil import guard_atoms, lexical_guards
    facs = _interfaces(ctx)
    m = ctx.index.module(COLL)
    pm = m.parents()
    for t in TYPES:
        fac = facs[t]
        decs = _decorators(ctx, fac)
        local_markers = {st.name for st in fac.node.body if isinstance(st, FuncNode) and _marks_param(st)}
        mod_markers = {name for name, f in m.functions.items() if _marks_param(f.node)}
        members, _order_only = python_mutators(t)
        for mname in sorted(set(members) | set(decs)):
            if mname not in decs:
                ctx.ok(f"{fac.key}.{mname}:marked", "no wrapper to examine (missing decorator is reported by C38-R1)",
                       nontrivial=False)
                continue
            d, w, _ = decs[mname]
            how = _marked_in(d.body, w.name, local_markers | mod_markers)
            ctx.check(how is not None, f"{fac.key}.{mname}:marked",
                      f"the wrapper returned by {fac.name}().{mname} is never marked `{MARK}`: "
                      "_setup_canned_roles/_assert_required_roles will wrap the method again (subclasses, the "
                      "appender/remover roles) and each event fires twice",
                      how or "", f"{fac.module.path}:{d.lineno}", nontrivial=False)
    gen = ctx.func(f"{COLL}::_instrument_membership_mutator")
    rets = [n for n in gen.node.body if isinstance(n, ast.Return) and isinstance(n.value, ast.Name)]
    ctx.require(len(rets) == 1, f"{gen.key}: expected one top-level `return <wrapper>`")
    how = _marked_in(gen.node.body, rets[0].value.id, {name for name, f in m.functions.items() if _marks_param(f.node)})
    ctx.check(how is not None, f"{gen.key}:marked",
              f"the generic wrapper returned by _instrument_membership_mutator is never marked `{MARK}`", how or "", gen.loc)
    # consumers
    scr = ctx.func(f"{COLL}::_setup_canned_roles")
    sets = [c for c in calls_in(scr.node) if call_name(c) == "setattr" and len(c.args) == 3 and isinstance(c.args[2], ast.Call)]
    ctx.require(sets, f"{scr.key}: `setattr(cls, method, decorator(fn))` not found")
    for c in sets:
        inner = c.args[2]
        ctx.require(inner.args, f"{scr.key}: decorator application without argument")
        arg = unparse(inner.args[0])
        atoms = set(guard_atoms_at(ctx.cfg(scr), pm, c, env_of(scr.node)))
        ctx.check((f"hasattr({arg}, '{MARK}')", False) in atoms, f"{scr.key}:applies-once",
                  f"`{unparse(c)}` is applied without `not hasattr({arg}, '{MARK}')`: an already instrumented method "
                  "(inherited from an instrumented base class) is wrapped again and fires every event twice",
                  "guarded by the marker test", f"{scr.module.path}:{c.lineno}")
    arr = ctx.func(f"{COLL}::_assert_required_roles")
    n_roles = 0
    for n in walk_local(arr.node):
        if not (isinstance(n, ast.Assign) and len(n.targets) == 1 and isinstance(n.targets[0], ast.Subscript)
                and isinstance(n.targets[0].value, ast.Name) and n.targets[0].value.id == "methods"):
            continue
        role = unparse(n.targets[0].slice)
        atoms = set(guard_atoms_at(ctx.cfg(arr), pm, n, env_of(arr.node)))
        n_roles += 1
        ctx.check((f"hasattr(getattr(cls, {role}), '{MARK}')", False) in atoms, f"{arr.key}:{role}:implicit-once",
                  f"implicit instrumentation `{unparse(n)[:70]}` is added without "
                  f"`not hasattr(getattr(cls, {role}), '{MARK}')`: the canned {role} wrapper is wrapped a second time and its "
                  "event fires twice", "guarded by the marker test", f"{arr.module.path}:{n.lineno}")
    ctx.require(n_roles >= 2, f"{arr.key}: implicit appender/remover instrumentation not found")


@R.rule("C38-R9", floor=3, template="T-GUARD",
        desc="the no-mutation event (`__set_wo_mutation`: 'this object was set again, nothing changed') is fired only for "
             "an object that is already the member: the item was read from the collection, or the event is dominated "
             "by a positive membership test (set: `x in self`; dict: `k in self` and `self[k] is x`) -- otherwise a new "
             "or replacing member enters with no append event")
def r9(ctx):
    facs = _interfaces(ctx)
    helpers = _event_helpers(ctx)
    effects = load("python_mutator_effects.json")
    for t in TYPES:
        fac = facs[t]
        decs = _decorators(ctx, fac)
        adders = {m for m, e in effects[t].items() if e in ("add", "both")}
        for mname in sorted(adders | set(decs)):
            key = f"{fac.key}.{mname}:no-mutation-event"
            if mname not in decs:
                ctx.ok(key, "no wrapper to examine (missing decorator is reported by C38-R1)", nontrivial=False)
                continue
            d, w, fnparam = decs[mname]
            g = ctx.cfg(w)
            ev, under = _wrapper_calls(g, helpers, fnparam)
            if not ev["set_wo"]:
                continue
            loc = f"{fac.module.path}:{w.lineno}"
            org = _Origin(w, fnparam)
            problems, how = [], []
            for nid, c in ev["set_wo"]:
                ctx.require(len(c.args) >= 2, f"{key}: `{unparse(c)}` has no item argument")
                it = unparse(c.args[1])
                provs = org.item(c.args[1], g.nodes[nid].stmt)
                if provs and all(p.kind in ("sel", "whole") and not p.direct for p in provs):
                    how.append(f"`{it}` read from the collection")
                    continue
                atoms = _atoms_at(g, nid, org.env)
                present = [m_.group(1) for txt, pol in atoms for m_ in [_IN_SELF.match(txt)] if m_ and pol]
                if t == "dict":
                    ok = any((f"self[{k}] is {it}", True) in atoms for k in present)
                    want = f"`<k> in self` and `self[<k>] is {it}`"
                else:
                    ok = it in present
                    want = f"`{it} in self`"
                if ok:
                    how.append(f"`{it}` under {want}")
                else:
                    problems.append(
                        f"{t}.{mname}: `{unparse(c)[:60]}` announces 'set again, nothing changed' without {want} being "
                        f"established (guards: {sorted(a for a, _ in atoms)[:4]}): a value that is not yet the member is "
                        "stored or skipped with no append event")
            ctx.check(not problems, key, "; ".join(dict.fromkeys(problems)), ", ".join(dict.fromkeys(how)), loc)


@R.rule("C38-R10", floor=5, template="T-PATH",
        desc="wrappers of builtins that return the affected member (pop, popitem, setdefault) return a value on every "
             "normal path -- never a bare return / None / falling off the end -- and the pop family returns what the "
             "underlying call returned")
def r10(ctx):
    facs = _interfaces(ctx)
    effects = load("python_mutator_effects.json")
    for t in TYPES:
        fac = facs[t]
        decs = _decorators(ctx, fac)
        for mname in sorted(effects["returns_value"][t]):
            key = f"{fac.key}.{mname}:returns-member"
            if mname not in decs:
                ctx.ok(key, "no wrapper to examine (missing decorator is reported by C38-R1)", nontrivial=False)
                continue
            d, w, fnparam = decs[mname]
            loc = f"{fac.module.path}:{w.lineno}"
            g = ctx.cfg(w)
            org = _Origin(w, fnparam)
            rets = [r_ for r_ in walk_local(w) if isinstance(r_, ast.Return)]
            problems = []
            for r_ in rets:
                if r_.value is None or (isinstance(r_.value, ast.Constant) and r_.value.value is None):
                    problems.append(f"{t}.{mname} returns None at line {r_.lineno} where the builtin returns the member")
            if g.exit in g.reachable([g.entry], avoid=[i for r_ in rets for i in g.nodes_for(r_)], edge_ok=no_exc):
                problems.append(f"{t}.{mname} can fall off the end (returns None) where the builtin returns the member")
            if effects[t].get(mname) in ("remove", "both"):
                for r_ in rets:
                    if r_.value is None:
                        continue
                    provs = org.item(r_.value, r_)
                    if not (provs and all(p.kind == "returned" for p in provs)):
                        problems.append(f"{t}.{mname} returns `{unparse(r_.value)}`, which is not the value the underlying "
                                        "call returned")
            ctx.check(not problems, key, "; ".join(dict.fromkeys(problems)), f"{len(rets)} return(s) carry the member", loc)


@R.rule("C38-R11", floor=2, template="T-GUARD",
        desc="an optional wrapper parameter whose default is a sentinel (NO_ARG) is used -- forwarded to the underlying "
             "call, iterated, subscripted -- only where `<p> is <sentinel>` is false, and an underlying call that "
             "omits it is made only where it is true (builtin behaviour with and without the optional argument)")
def r11(ctx):
    facs = _interfaces(ctx)
    effects = load("python_mutator_effects.json")
    for t in TYPES:
        fac = facs[t]
        decs = _decorators(ctx, fac)
        for mname in sorted(set(effects[t]) | set(decs)):
            if mname not in decs:
                ctx.ok(f"{fac.key}.{mname}:sentinel", "no wrapper to examine (missing decorator is reported by C38-R1)",
                       nontrivial=False)
                continue
            d, w, fnparam = decs[mname]
            a = w.args
            pos = a.posonlyargs + a.args
            sentinels = {}
            for arg, dflt in zip(pos[len(pos) - len(a.defaults):], a.defaults):
                if isinstance(dflt, ast.Name) and dflt.id.isupper():
                    sentinels[arg.arg] = dflt.id
            for arg, dflt in zip(a.kwonlyargs, a.kw_defaults):
                if isinstance(dflt, ast.Name) and dflt.id.isupper():
                    sentinels[arg.arg] = dflt.id
            if not sentinels:
                continue
            g = ctx.cfg(w)
            org = _Origin(w, fnparam)
            pm = parent_map(w)
            for pname, sent in sorted(sentinels.items()):
                key = f"{fac.key}.{mname}:{pname}:sentinel"
                loc = f"{fac.module.path}:{w.lineno}"
                problems = []
                atom = f"{pname} is {sent}"
                uses = []
                for n in walk_local(w):
                    if isinstance(n, ast.Name) and n.id == pname and isinstance(n.ctx, ast.Load):
                        par = pm.get(n)
                        if isinstance(par, ast.Compare) and len(par.ops) == 1 and isinstance(par.ops[0], (ast.Is, ast.IsNot)) \
                                and {unparse(par.left), unparse(par.comparators[0])} == {pname, sent}:
                            continue  # the sentinel test itself
                        uses.append(n)
                for n in uses:
                    ok = False
                    for nid in g.nodes_containing(n):
                        if (atom, False) in _atoms_at(g, nid, org.env):
                            ok = True
                    if not ok:
                        problems.append(f"`{pname}` is used at line {n.lineno} without `{atom}` being known false: the "
                                        f"sentinel {sent} itself would be forwarded / iterated")
                under = [c for c in calls_in(w) if call_name(c) == fnparam]
                passing = [c for c in under if any(isinstance(x, ast.Name) and x.id == pname for x in ast.walk(c))]
                if passing:
                    for c in under:
                        if c in passing:
                            continue
                        ok = any((atom, True) in _atoms_at(g, nid, org.env) for nid in g.nodes_containing(c))
                        if not ok:
                            problems.append(f"`{unparse(c)}` omits `{pname}` without `{atom}` being known true: a supplied "
                                            f"{pname} is ignored")
                ctx.check(not problems, key, "; ".join(dict.fromkeys(problems)),
                          f"{len(uses)} use(s) of {pname} under `{pname} is not {sent}`", loc)


# ----------------------------------------------------------------- R12: bounded model check against the builtin type
def _model_interp(ctx, t, fac):
    """a `PyModel` interpreter in which the wrappers of factory `fac` are installed as the mutators of the model
    collection: the wrapped method `fn` is the builtin method of type `t`, the event helpers only log"""
    from . import _helpers_str2_q as Q
    m = ctx.index.module(COLL)
    helpers = _event_helpers(ctx)
    interp = Q.PyModel(None)
    cache = {}

    def module_env(name):
        if name in cache:
            return cache[name]
        if name in helpers:
            v = Q.EventHelper(helpers[name])
        elif name in m.functions and isinstance(m.functions[name].node, ast.FunctionDef):
            v = Q.FuncVal(m.functions[name].node, [])
        elif name in m.assigns and len(m.assigns[name]) == 1:
            v = interp.ev(m.assigns[name][0], [])
        elif name in m.imports and name.isupper():
            v = Q.Sent(name)  # NO_ARG / NO_KEY: marker objects, only their identity matters
        else:
            raise KeyError(name)
        cache[name] = v
        return v

    interp.module_env = module_env
    fac_env = {}
    for st in fac.node.body:
        if isinstance(st, ast.FunctionDef):
            fac_env[st.name] = Q.FuncVal(st, [fac_env])
    for mname, (d, w, fnparam) in _decorators(ctx, fac).items():
        inner = [st for st in d.body if isinstance(st, FuncNode) and st.name == w.name]
        ctx.require(len(inner) == 1, f"{fac.key}.{mname}: wrapper {w.name} not found in its decorator")
        interp.wrappers[mname] = Q.FuncVal(inner[0], [{fnparam: Q.Underlying(mname)}, fac_env])
    return interp


@R.rule("C38-R12", floor=45, template="T-MODEL",
        desc="bounded model check of the property itself: every wrapper is interpreted (AST interpreter; the wrapped "
             "method is the builtin method, the event helpers only log) on every collection state of size <= 4 with every "
             "argument of a small domain (members / non-members, lists with repeated elements, tuples, sets, frozensets, "
             "one-shot iterators, the collection itself, mapping / pairs / keyword forms of dict.update, negative / "
             "out-of-range / reversed indices and slices) and must leave the same contents, return the same value and "
             "raise the same exception class as builtin list/set/dict, with append/remove events that account exactly "
             "for the members that entered and left")
def r12(ctx):
    from . import _helpers_str2_q as Q
    facs = _interfaces(ctx)
    for t in TYPES:
        fac = facs[t]
        decs = _decorators(ctx, fac)
        members, order_only = python_mutators(t)
        mutators = set(members) | set(order_only)
        interp = _model_interp(ctx, t, fac)
        per_key = {}
        # (memory_guard: a wrapper variant that makes a builtin consume an ever growing container ends in MemoryError ->
        # exit 2 instead of exhausting the machine)
        with Q.memory_guard():
            for case in Q.CASES[t](ctx.thorough):
                if case.mname not in decs:
                    continue  # missing decorator: C38-R1
                key = f"{fac.key}.{case.mname}:model" + (f"[{case.aspect}]" if case.aspect else "")
                rec = per_key.setdefault(key, [0, [], case.mname])
                rec[0] += 1
                interp.budget = 100000
                try:
                    bad = Q.compare(interp, t, mutators, case)
                except Q.Unsupported as e:
                    ctx.error(f"{key}: the wrapper uses a construct outside the model-checked subset: {e} (input: {case.show})")
                if bad:
                    rec[1].append(bad)
        for key, (n, bads, mname) in sorted(per_key.items()):
            _, w, _ = decs[mname]
            loc = f"{fac.module.path}:{w.lineno}"
            if bads:
                # one example per kind of divergence
                kinds = {}
                for b in bads:
                    kinds.setdefault(re.sub(r"\[[^\]]*\]|\{[^}]*\}|\([^)]*\)", "..", b.split("` ", 1)[-1]), b)
                # contents first, then return values, then exception classes
                ex = sorted(kinds.values(), key=lambda b: (0 if "` leaves " in b else 1 if " but the builtin r" in b and "raises" not in b.split("` ", 1)[-1].split(" but ")[0] else 2))[:3]
                ctx.violation(key, f"{t}.{mname} differs from builtin {t} on {len(bads)} of {n} inputs, e.g. " + "; ".join(ex), loc)
            else:
                ctx.ok(key, f"agrees with builtin {t} on {n} inputs (contents, return value, exception, event accounting)")


# --------------------------------------------------------------------------------- self-test
# R1
R.mutant("list-clear-decorator-removed", COLL,
         sub("    def clear(fn):\n        def clear(self, index=-1):\n            for item in self:\n                __del(self, item, None, index)\n            fn(self)\n\n        _tidy(clear)\n        return clear\n", ""),
         "C38-R1")
R.mutant("set-remove-popped-from-dict", COLL,
         sub("        _tidy(__ixor__)\n        return __ixor__\n\n    l = locals().copy()\n    l.pop(\"_tidy\")\n",
             "        _tidy(__ixor__)\n        return __ixor__\n\n    l = locals().copy()\n    l.pop(\"_tidy\")\n    l.pop(\"remove\")\n"),
         "C38-R1")
R.mutant("interfaces-dict-uses-set-factory", COLL,
         sub("dict: ({\"iterator\": \"values\"}, _dict_decorators()),", "dict: ({\"iterator\": \"values\"}, _set_decorators()),"),
         "C38-R1")
# R2
R.mutant("list-remove-event-after", COLL,
         sub("            __del(self, value, _sa_initiator, NO_KEY)\n            # testlib.pragma exempt:__eq__\n            fn(self, value)\n",
             "            fn(self, value)\n            __del(self, value, _sa_initiator, NO_KEY)\n"),
         "C38-R2")
R.mutant("list-append-drops-event-result", COLL,
         sub("            item = __set(self, item, _sa_initiator, NO_KEY)\n            fn(self, item)\n",
             "            __set(self, item, _sa_initiator, NO_KEY)\n            fn(self, item)\n"),
         "C38-R2")
R.mutant("dict-delitem-no-event", COLL,
         sub("            if key in self:\n                __del(self, self[key], _sa_initiator, key)\n            fn(self, key)\n",
             "            fn(self, key)\n"),
         "C38-R2")
R.mutant("set-pop-no-before-hook", COLL,
         sub("        def pop(self):\n            __before_pop(self)\n            item = fn(self)\n", "        def pop(self):\n            item = fn(self)\n"),
         "C38-R2")
R.mutant("list-extend-raw", COLL,
         sub("        def extend(self, iterable):\n            for value in list(iterable):\n                self.append(value)\n",
             "        def extend(self, iterable):\n            fn(self, iterable)\n"),
         "C38-R2")
R.mutant("dict-setitem-insert-before-event", COLL,
         sub("            value = __set(self, value, _sa_initiator, key)\n            fn(self, key, value)\n",
             "            fn(self, key, value)\n            value = __set(self, value, _sa_initiator, key)\n"),
         "C38-R2")
R.mutant("dict-setitem-event-announces-key", COLL,
         sub("            value = __set(self, value, _sa_initiator, key)\n            fn(self, key, value)\n",
             "            value = __set(self, key, _sa_initiator, key)\n            fn(self, key, value)\n"),
         "C38-R2")
# R3
R.mutant("set-isub-adds", COLL,
         sub("                return NotImplemented\n            for item in value:\n                self.discard(item)\n            return self\n",
             "                return NotImplemented\n            for item in value:\n                self.add(item)\n            return self\n"),
         "C38-R3")
R.mutant("list-iadd-no-return-self", COLL,
         sub("            for value in list(iterable):\n                self.append(value)\n            return self\n",
             "            for value in list(iterable):\n                self.append(value)\n"),
         "C38-R3")
R.mutant("set-ior-no-type-check", COLL,
         sub("        def __ior__(self, value):\n            if not _set_binops_check_strict(self, value):\n                return NotImplemented\n",
             "        def __ior__(self, value):\n"),
         "C38-R3")
# R4
R.mutant("list-delslice-whole-shortcut-ignores-step", COLL,
         sub("                for item in self[index]:\n                    __del(self, item, None, index)\n",
             "                if index.start is None and index.stop is None:\n                    members = self\n                else:\n                    members = self[index]\n                for item in members:\n                    __del(self, item, None, index)\n"),
         "C38-R4")
R.mutant("list-delslice-events-drop-step", COLL,
         sub("                for item in self[index]:\n                    __del(self, item, None, index)\n",
             "                for item in self[index.start : index.stop]:\n                    __del(self, item, None, index)\n"),
         "C38-R4")
R.mutant("dict-delitem-event-for-every-value", COLL,
         sub("            if key in self:\n                __del(self, self[key], _sa_initiator, key)\n            fn(self, key)\n",
             "            for k in self:\n                __del(self, self[k], _sa_initiator, k)\n            fn(self, key)\n"),
         "C38-R4")
R.mutant("set-pop-event-item-not-returned", COLL,
         sub("            __del(self, item, None, NO_KEY)\n            return item\n",
             "            for member in self:\n                __del(self, member, None, NO_KEY)\n            return item\n"),
         "C38-R4")
# R5
R.mutant("dict-pop-decides-by-returned-is-default", COLL,
         sub("            _to_del = key in self\n            if default is NO_ARG:\n                item = fn(self, key)\n            else:\n                item = fn(self, key, default)\n            if _to_del:\n                __del(self, item, None, key)\n            return item\n",
             "            if default is NO_ARG:\n                item = fn(self, key)\n            else:\n                item = fn(self, key, default)\n                if item is default:\n                    return item\n            __del(self, item, None, key)\n            return item\n"),
         "C38-R5")
R.mutant("dict-pop-membership-computed-after-call", COLL,
         sub("            _to_del = key in self\n            if default is NO_ARG:\n                item = fn(self, key)\n            else:\n                item = fn(self, key, default)\n            if _to_del:\n",
             "            if default is NO_ARG:\n                item = fn(self, key)\n            else:\n                item = fn(self, key, default)\n            _to_del = key in self\n            if _to_del:\n"),
         "C38-R5")
R.mutant("dict-pop-membership-tested-after-call", COLL,
         sub("            if _to_del:\n                __del(self, item, None, key)\n", "            if key in self:\n                __del(self, item, None, key)\n"),
         "C38-R5")
R.mutant("list-pop-skips-event-for-default-index", COLL,
         sub("            item = fn(self, index)\n            __del(self, item, None, index)\n            return item\n",
             "            item = fn(self, index)\n            if item == index:\n                return item\n            __del(self, item, None, index)\n            return item\n"),
         "C38-R5")
# R6
R.mutant("list-append-event-only", COLL,
         sub("            item = __set(self, item, _sa_initiator, NO_KEY)\n            fn(self, item)\n",
             "            item = __set(self, item, _sa_initiator, NO_KEY)\n"),
         "C38-R6")
R.mutant("set-update-fires-event-without-adding", COLL,
         sub("        def update(self, value):\n            for item in value:\n                self.add(item)\n",
             "        def update(self, value):\n            for item in value:\n                __set(self, item, None, NO_KEY)\n"),
         "C38-R6")
R.mutant("dict-setdefault-absent-not-stored", COLL,
         sub("            if key not in self:\n                self.__setitem__(key, default)\n                return default\n",
             "            if key not in self:\n                return default\n"),
         "C38-R6")
R.mutant("list-delitem-scalar-event-only", COLL,
         sub("                item = self[index]\n                __del(self, item, None, index)\n                fn(self, index)\n",
             "                item = self[index]\n                __del(self, item, None, index)\n"),
         "C38-R6")
# R7
R.mutant("set-remove-event-without-membership-test", COLL,
         sub("            # testlib.pragma exempt:__hash__\n            if value in self:\n                __del(self, value, _sa_initiator, NO_KEY)\n            # testlib.pragma exempt:__hash__\n            fn(self, value)\n",
             "            # testlib.pragma exempt:__hash__\n            __del(self, value, _sa_initiator, NO_KEY)\n            # testlib.pragma exempt:__hash__\n            fn(self, value)\n"),
         "C38-R7")
R.mutant("set-discard-event-for-non-members", COLL,
         sub("            if value in self:\n                __del(self, value, _sa_initiator, NO_KEY)\n                # testlib.pragma exempt:__hash__\n            fn(self, value)\n",
             "            if value not in self:\n                __del(self, value, _sa_initiator, NO_KEY)\n                # testlib.pragma exempt:__hash__\n            fn(self, value)\n"),
         "C38-R7")
# R8
R.mutant("list-tidy-no-marker", COLL,
         sub("    def _tidy(fn):\n        fn._sa_instrumented = True\n        fn.__doc__ = getattr(list, fn.__name__).__doc__\n",
             "    def _tidy(fn):\n        fn.__doc__ = getattr(list, fn.__name__).__doc__\n"),
         "C38-R8")
R.mutant("set-add-wrapper-not-tidied", COLL,
         sub("        _tidy(add)\n        return add\n", "        return add\n"),
         "C38-R8")
R.mutant("canned-roles-wrap-without-marker-test", COLL,
         sub("                and method not in methods\n                and not hasattr(fn, \"_sa_instrumented\")\n",
             "                and method not in methods\n"),
         "C38-R8")
R.mutant("implicit-remover-without-marker-test", COLL,
         sub("    elif roles[\"remover\"] not in methods and not hasattr(\n        getattr(cls, roles[\"remover\"]), \"_sa_instrumented\"\n    ):\n",
             "    elif roles[\"remover\"] not in methods:\n"),
         "C38-R8")
# R5 (event side)
R.mutant("dict-pop-event-when-key-was-absent", COLL,
         sub("            if _to_del:\n                __del(self, item, None, key)\n", "            if not _to_del:\n                __del(self, item, None, key)\n"),
         "C38-R5")
# R6 (loops, receiver)
R.mutant("dict-update-pairs-not-stored", COLL,
         sub("                        if key not in self or self[key] is not value:\n                            self[key] = value\n",
             "                        if key not in self or self[key] is not value:\n                            pass\n"),
         "C38-R6")
R.mutant("list-setitem-slice-old-members-kept", COLL,
         sub("                        if len(self) > start:\n                            del self[start]\n",
             "                        if len(self) > start:\n                            pass\n"),
         "C38-R6")
R.mutant("set-add-underlying-call-on-value", COLL,
         sub("            # testlib.pragma exempt:__hash__\n            fn(self, value)\n\n        _tidy(add)\n",
             "            # testlib.pragma exempt:__hash__\n            fn(value, self)\n\n        _tidy(add)\n"),
         "C38-R6")
# R7 (polarity, every path)
R.mutant("dict-delitem-event-only-for-absent-key", COLL,
         sub("            if key in self:\n                __del(self, self[key], _sa_initiator, key)\n            fn(self, key)\n",
             "            if key not in self:\n                __del(self, self[key], _sa_initiator, key)\n            fn(self, key)\n"),
         "C38-R7")
R.mutant("list-setitem-event-only-for-none", COLL,
         sub("                if existing is not None:\n                    __del(self, existing, None, index)\n",
             "                if existing is None:\n                    __del(self, existing, None, index)\n"),
         "C38-R7")
R.mutant("list-delitem-scalar-no-remove-event", COLL,
         sub("                item = self[index]\n                __del(self, item, None, index)\n                fn(self, index)\n",
             "                item = self[index]\n                fn(self, index)\n"),
         "C38-R7")
# R9
R.mutant("set-add-branches-swapped", COLL,
         sub("            if value not in self:\n                value = __set(self, value, _sa_initiator, NO_KEY)\n            else:\n                __set_wo_mutation(self, value, _sa_initiator)\n",
             "            if value in self:\n                value = __set(self, value, _sa_initiator, NO_KEY)\n            else:\n                __set_wo_mutation(self, value, _sa_initiator)\n"),
         "C38-R9")
R.mutant("dict-update-kw-replaced-value-not-stored", COLL,
         sub("                if key not in self or self[key] is not kw[key]:\n", "                if key not in self:\n"),
         "C38-R9")
R.mutant("dict-update-pairs-or-becomes-and", COLL,
         sub("                        if key not in self or self[key] is not value:\n", "                        if key not in self and self[key] is not value:\n"),
         "C38-R9")
# R10
R.mutant("dict-pop-returns-nothing", COLL,
         sub("            if _to_del:\n                __del(self, item, None, key)\n            return item\n", "            if _to_del:\n                __del(self, item, None, key)\n"),
         "C38-R10")
R.mutant("set-pop-returns-none", COLL,
         sub("            __del(self, item, None, NO_KEY)\n            return item\n", "            __del(self, item, None, NO_KEY)\n            return None\n"),
         "C38-R10")
R.mutant("dict-setdefault-existing-not-returned", COLL,
         sub("                    __set_wo_mutation(self, value, None)\n\n                return value\n", "                    __set_wo_mutation(self, value, None)\n"),
         "C38-R10")
# R11
R.mutant("dict-pop-sentinel-test-inverted", COLL,
         sub("            if default is NO_ARG:\n                item = fn(self, key)\n", "            if default is not NO_ARG:\n                item = fn(self, key)\n"),
         "C38-R11")
R.mutant("dict-update-iterates-sentinel", COLL,
         sub("            if __other is not NO_ARG:\n                if hasattr(__other, \"keys\"):\n", "            if __other is NO_ARG:\n                if hasattr(__other, \"keys\"):\n"),
         "C38-R11")
# R3 (argument order of the operand check)
R.mutant("set-iand-binop-check-args-swapped", COLL,
         sub("        def __iand__(self, other):\n            if not _set_binops_check_strict(self, other):\n",
             "        def __iand__(self, other):\n            if not _set_binops_check_strict(other, self):\n"),
         "C38-R3")
# benign
R.mutant("benign-list-remove-membership-guard", COLL,
         sub("            # testlib.pragma exempt:__eq__\n            if value in self:\n                __del(self, value, _sa_initiator, NO_KEY)\n            # testlib.pragma exempt:__eq__\n            fn(self, value)\n",
             "            is_member = value in self\n            if not is_member:\n                pass\n            else:\n                __del(self, value, _sa_initiator, NO_KEY)\n            fn(self, value)\n"),
         None)
R.mutant("benign-tidy-marker-any-value", COLL,
         sub("    def _tidy(fn):\n        fn._sa_instrumented = True\n        fn.__doc__ = getattr(dict, fn.__name__).__doc__\n",
             "    def _tidy(fn):\n        fn._sa_instrumented = 1\n        fn.__doc__ = getattr(dict, fn.__name__).__doc__\n"),
         None)
R.mutant("benign-dict-pop-sentinel-test-other-way", COLL,
         sub("            if default is NO_ARG:\n                item = fn(self, key)\n            else:\n                item = fn(self, key, default)\n",
             "            if default is not NO_ARG:\n                item = fn(self, key, default)\n            else:\n                item = fn(self, key)\n"),
         None)
R.mutant("benign-set-add-present-flag", COLL,
         sub("            if value not in self:\n                value = __set(self, value, _sa_initiator, NO_KEY)\n            else:\n                __set_wo_mutation(self, value, _sa_initiator)\n",
             "            present = value in self\n            if present:\n                __set_wo_mutation(self, value, _sa_initiator)\n            else:\n                value = __set(self, value, _sa_initiator, NO_KEY)\n"),
         None)
R.mutant("benign-dict-pop-marked-directly", COLL,
         sub("            if _to_del:\n                __del(self, item, None, key)\n            return item\n\n        _tidy(pop)\n        return pop\n",
             "            if _to_del:\n                __del(self, item, None, key)\n            return item\n\n        pop._sa_instrumented = True\n        pop.__doc__ = dict.pop.__doc__\n        return pop\n"),
         None)
R.mutant("benign-set-discard-membership-flag", COLL,
         sub("            if value in self:\n                __del(self, value, _sa_initiator, NO_KEY)\n                # testlib.pragma exempt:__hash__\n            fn(self, value)\n",
             "            present = value in self\n            if present:\n                __del(self, value, _sa_initiator, NO_KEY)\n                # testlib.pragma exempt:__hash__\n            fn(self, value)\n"),
         None)
R.mutant("benign-set-clear-while-loop", COLL,
         sub("        def clear(self):\n            for item in list(self):\n                self.remove(item)\n",
             "        def clear(self):\n            while len(self):\n                self.remove(next(iter(self)))\n"),
         None)
R.mutant("benign-list-insert-returns-result", COLL,
         sub("            value = __set(self, value, None, index)\n            fn(self, index, value)\n",
             "            value = __set(self, value, None, index)\n            result = fn(self, index, value)\n            return result\n"),
         None)
R.mutant("benign-delslice-named-selection", COLL,
         sub("                for item in self[index]:\n                    __del(self, item, None, index)\n",
             "                leaving = list(self[index])\n                for member in leaving:\n                    __del(self, member, None, index)\n"),
         None)
R.mutant("benign-delslice-whole-shortcut-all-fields", COLL,
         sub("                for item in self[index]:\n                    __del(self, item, None, index)\n",
             "                if index.start is None and index.stop is None and index.step is None:\n                    members = list(self)\n                else:\n                    members = self[index]\n                for item in members:\n                    __del(self, item, None, index)\n"),
         None)
R.mutant("benign-dict-pop-rename-and-split", COLL,
         sub("            _to_del = key in self\n            if default is NO_ARG:\n                item = fn(self, key)\n            else:\n                item = fn(self, key, default)\n            if _to_del:\n                __del(self, item, None, key)\n            return item\n",
             "            present = key in self\n            if default is not NO_ARG:\n                item = fn(self, key, default)\n            else:\n                item = fn(self, key)\n            if not present:\n                return item\n            __del(self, item, None, key)\n            return item\n"),
         None)
R.mutant("benign-rename-local-pop", COLL,
         sub("            __before_pop(self)\n            item = fn(self, index)\n            __del(self, item, None, index)\n            return item\n",
             "            __before_pop(self)\n            popped = fn(self, index)\n            __del(self, popped, None, index)\n            return popped\n"),
         None)
R.mutant("benign-ior-delegates-to-update", COLL,
         sub("                return NotImplemented\n            for item in value:\n                self.add(item)\n            return self\n",
             "                return NotImplemented\n            self.update(value)\n            return self\n"),
         None)
R.mutant("benign-extra-decorator", COLL,
         sub("    # __imul__ : not wrapping this.",
             "    def copy(fn):\n        def copy(self):\n            return fn(self)\n\n        _tidy(copy)\n        return copy\n\n    # __imul__ : not wrapping this."),
         None)


# -------------------------------------------------------------------------------------- rob-F2: benign refactor families
def _chain(*edits):
    def edit(src):
        for e in edits:
            src = e(src)
        return src
    return edit


# family rfF_10: list.__setitem__ slice branch, `stop` if/else inverted; arms of the isinstance test swapped is covered
# by the CFG; the no-op shortcut written the other way round
R.mutant("benign-list-setitem-stop-arms-inverted", COLL,
         sub("                if index.stop is not None:\n                    stop = index.stop\n                else:\n                    stop = len(self)\n",
             "                if index.stop is None:\n                    stop = len(self)\n                else:\n                    stop = index.stop\n"),
         None)
R.mutant("benign-list-setitem-noop-tests-inverted", COLL,
         sub("                    if value is self:\n                        return\n                    for i in range(start, stop, step):\n                        if len(self) > start:\n                            del self[start]\n\n"
             "                    for i, item in enumerate(value):\n                        self.insert(i + start, item)\n",
             "                    if value is not self:\n                        for i in range(start, stop, step):\n                            if start < len(self):\n                                del self[start]\n\n"
             "                        for i, item in enumerate(value):\n                            self.insert(i + start, item)\n"),
         None)
# family rfF_11: dict.pop / setdefault, renamed flag + inverted if/else
R.mutant("benign-dict-setdefault-arms-inverted", COLL,
         sub("            if key not in self:\n                self.__setitem__(key, default)\n                return default\n            else:\n                value = self.__getitem__(key)\n                if value is default:\n                    __set_wo_mutation(self, value, None)\n\n                return value\n",
             "            if key in self:\n                value = self.__getitem__(key)\n                if value is default:\n                    __set_wo_mutation(self, value, None)\n                return value\n            self.__setitem__(key, default)\n            return default\n"),
         None)
R.mutant("benign-dict-pop-was-present-inverted", COLL,
         sub("            _to_del = key in self\n            if default is NO_ARG:\n                item = fn(self, key)\n            else:\n                item = fn(self, key, default)\n            if _to_del:\n                __del(self, item, None, key)\n            return item\n",
             "            was_present = key in self\n            if default is not NO_ARG:\n                item = fn(self, key, default)\n            else:\n                item = fn(self, key)\n            if not was_present:\n                pass\n            else:\n                __del(self, item, None, key)\n            return item\n"),
         None)
# the block repeated in intersection_update/__iand__/symmetric_difference_update/__ixor__ becomes one closure
_SYNC = ("            remove, add = have - want, want - have\n\n            for item in remove:\n                self.remove(item)\n            for item in add:\n                self.add(item)\n")
R.mutant("benign-set-sync-block-extracted-to-closure", COLL,
         _chain(sub("            want, have = self.intersection(other), set(self)\n" + _SYNC, "            _sync_members(self, self.intersection(other))\n", count=2),
                sub("            want, have = self.symmetric_difference(other), set(self)\n" + _SYNC, "            _sync_members(self, self.symmetric_difference(other))\n", count=2),
                sub("    def intersection_update(fn):\n",
                    "    def _sync_members(collection, want):\n        have = set(collection)\n        for item in have - want:\n            collection.remove(item)\n"
                    "        for item in want - have:\n            collection.add(item)\n\n    def intersection_update(fn):\n"),
                sub("        _tidy(__ixor__)\n        return __ixor__\n\n    l = locals().copy()\n    l.pop(\"_tidy\")\n",
                    "        _tidy(__ixor__)\n        return __ixor__\n\n    l = locals().copy()\n    l.pop(\"_tidy\")\n    l.pop(\"_sync_members\")\n")),
         None)
# ... and the same closure left in the returned dict (no set method of that name: never applied)
R.mutant("benign-set-sync-closure-left-in-dict", COLL,
         _chain(sub("            want, have = self.intersection(other), set(self)\n" + _SYNC, "            _sync_members(self, self.intersection(other))\n", count=2),
                sub("            want, have = self.symmetric_difference(other), set(self)\n" + _SYNC, "            _sync_members(self, self.symmetric_difference(other))\n", count=2),
                sub("    def intersection_update(fn):\n",
                    "    def _sync_members(collection, want):\n        have = set(collection)\n        for item in have - want:\n            collection.remove(item)\n"
                    "        for item in want - have:\n            collection.add(item)\n\n    def intersection_update(fn):\n")),
         None)
# dict.update: the three copies of the store-or-announce block become a closure
_PUT_OLD = ("                    for key in list(__other):\n                        if key not in self or self[key] is not __other[key]:\n                            self[key] = __other[key]\n"
            "                        else:\n                            __set_wo_mutation(self, __other[key], None)\n"
            "                else:\n                    for key, value in __other:\n                        if key not in self or self[key] is not value:\n                            self[key] = value\n"
            "                        else:\n                            __set_wo_mutation(self, value, None)\n"
            "            for key in kw:\n                if key not in self or self[key] is not kw[key]:\n                    self[key] = kw[key]\n                else:\n                    __set_wo_mutation(self, kw[key], None)\n")
_PUT_NEW = ("                    for key in list(__other):\n                        _put(self, key, __other[key])\n"
            "                else:\n                    for key, value in __other:\n                        _put(self, key, value)\n"
            "            for key in kw:\n                _put(self, key, kw[key])\n")
_PUT_DEF = ("    def _put(mapping, key, value):\n        if key in mapping and mapping[key] is value:\n            __set_wo_mutation(mapping, value, None)\n"
            "        else:\n            mapping[key] = value\n\n    def update(fn):\n        def update(self, __other=NO_ARG, **kw):\n")
R.mutant("benign-dict-update-put-extracted-to-closure", COLL,
         _chain(sub(_PUT_OLD, _PUT_NEW),
                sub("    def update(fn):\n        def update(self, __other=NO_ARG, **kw):\n", _PUT_DEF),
                sub("        _tidy(__ior__)\n        return __ior__\n\n    l = locals().copy()\n    l.pop(\"_tidy\")\n    return l\n\n\n_set_binop_bases",
                    "        _tidy(__ior__)\n        return __ior__\n\n    l = locals().copy()\n    l.pop(\"_tidy\")\n    del l[\"_put\"]\n    return l\n\n\n_set_binop_bases")),
         None)
# the remove-event loop of the list wrappers in a module function
R.mutant("benign-list-remove-events-in-module-function", COLL,
         _chain(sub("                for item in self[index]:\n                    __del(self, item, None, index)\n                fn(self, index)\n",
                    "                __del_each(self, self[index], index)\n                fn(self, index)\n"),
                sub("def _list_decorators() -> Dict[str, Callable[[_FN], _FN]]:\n",
                    "def __del_each(collection, items, key):\n    for item in items:\n        __del(collection, item, None, key)\n\n\n"
                    "def _list_decorators() -> Dict[str, Callable[[_FN], _FN]]:\n")),
         None)
# set in-place operators: the operand check the other way round
R.mutant("benign-set-ior-binop-check-arms-inverted", COLL,
         sub("            if not _set_binops_check_strict(self, value):\n                return NotImplemented\n            for item in value:\n                self.add(item)\n            return self\n",
             "            if _set_binops_check_strict(self, value):\n                for item in value:\n                    self.add(item)\n                return self\n            return NotImplemented\n"),
         None)
R.mutant("benign-set-isub-binop-check-flag", COLL,
         sub("            if not _set_binops_check_strict(self, value):\n                return NotImplemented\n            for item in value:\n                self.discard(item)\n            return self\n",
             "            compatible = _set_binops_check_strict(self, value)\n            if not compatible:\n                return NotImplemented\n            for item in value:\n                self.discard(item)\n            return self\n"),
         None)
# `_tidy` hands the wrapper back: `return _tidy(append)`
R.mutant("benign-list-tidy-returns-wrapper", COLL,
         _chain(sub("    def _tidy(fn):\n        fn._sa_instrumented = True\n        fn.__doc__ = getattr(list, fn.__name__).__doc__\n",
                    "    def _tidy(fn):\n        fn._sa_instrumented = True\n        fn.__doc__ = getattr(list, fn.__name__).__doc__\n        return fn\n"),
                sub("        _tidy(append)\n        return append\n", "        return _tidy(append)\n"),
                sub("        _tidy(insert)\n        return insert\n", "        insert = _tidy(insert)\n        return insert\n")),
         None)
# _setup_canned_roles: the three conditions as early continues
R.mutant("benign-canned-roles-early-continue", COLL,
         sub("            fn = getattr(cls, method, None)\n            if (\n                fn\n                and method not in methods\n                and not hasattr(fn, \"_sa_instrumented\")\n            ):\n                setattr(cls, method, decorator(fn))\n",
             "            fn = getattr(cls, method, None)\n            if not fn or method in methods:\n                continue\n            already = hasattr(fn, \"_sa_instrumented\")\n            if already:\n                continue\n            setattr(cls, method, decorator(fn))\n"),
         None)
# set.add: early exit structure
R.mutant("benign-dict-setitem-delitem-membership-flag", COLL,
         sub("        def __delitem__(self, key, _sa_initiator=None):\n            if key in self:\n                __del(self, self[key], _sa_initiator, key)\n            fn(self, key)\n",
             "        def __delitem__(self, key, _sa_initiator=None):\n            if key not in self:\n                fn(self, key)\n                return\n            leaving = self[key]\n            __del(self, leaving, _sa_initiator, key)\n            fn(self, key)\n"),
         None)
# breaking edits on top of the refactored shapes
_SYNC_DEF_BAD = ("    def _sync_members(collection, want):\n        have = set(collection)\n        for item in have - want:\n            collection.add(item)\n"
                 "        for item in want - have:\n            collection.add(item)\n\n    def intersection_update(fn):\n")
R.mutant("set-sync-closure-never-removes", COLL,
         _chain(sub("            want, have = self.intersection(other), set(self)\n" + _SYNC, "            _sync_members(self, self.intersection(other))\n", count=2),
                sub("            want, have = self.symmetric_difference(other), set(self)\n" + _SYNC, "            _sync_members(self, self.symmetric_difference(other))\n", count=2),
                sub("    def intersection_update(fn):\n", _SYNC_DEF_BAD),
                sub("        _tidy(__ixor__)\n        return __ixor__\n\n    l = locals().copy()\n    l.pop(\"_tidy\")\n",
                    "        _tidy(__ixor__)\n        return __ixor__\n\n    l = locals().copy()\n    l.pop(\"_tidy\")\n    l.pop(\"_sync_members\")\n")),
         "C38-R2")
R.mutant("dict-update-put-closure-skips-store", COLL,
         _chain(sub(_PUT_OLD, _PUT_NEW),
                sub("    def update(fn):\n        def update(self, __other=NO_ARG, **kw):\n", _PUT_DEF.replace("        else:\n            mapping[key] = value\n", "")),
                sub("        _tidy(__ior__)\n        return __ior__\n\n    l = locals().copy()\n    l.pop(\"_tidy\")\n    return l\n\n\n_set_binop_bases",
                    "        _tidy(__ior__)\n        return __ior__\n\n    l = locals().copy()\n    l.pop(\"_tidy\")\n    del l[\"_put\"]\n    return l\n\n\n_set_binop_bases")),
         "C38-R6")
R.mutant("dict-update-put-closure-announces-for-different-value", COLL,
         _chain(sub(_PUT_OLD, _PUT_NEW),
                sub("    def update(fn):\n        def update(self, __other=NO_ARG, **kw):\n", _PUT_DEF.replace("if key in mapping and mapping[key] is value:", "if key in mapping:")),
                sub("        _tidy(__ior__)\n        return __ior__\n\n    l = locals().copy()\n    l.pop(\"_tidy\")\n    return l\n\n\n_set_binop_bases",
                    "        _tidy(__ior__)\n        return __ior__\n\n    l = locals().copy()\n    l.pop(\"_tidy\")\n    del l[\"_put\"]\n    return l\n\n\n_set_binop_bases")),
         "C38-R9")
R.mutant("list-remove-events-module-function-after-call", COLL,
         _chain(sub("                for item in self[index]:\n                    __del(self, item, None, index)\n                fn(self, index)\n",
                    "                leaving = self[index]\n                fn(self, index)\n                __del_each(self, leaving, index)\n"),
                sub("def _list_decorators() -> Dict[str, Callable[[_FN], _FN]]:\n",
                    "def __del_each(collection, items, key):\n    for item in items:\n        __del(collection, item, None, key)\n\n\n"
                    "def _list_decorators() -> Dict[str, Callable[[_FN], _FN]]:\n")),
         "C38-R2")
R.mutant("set-ior-inverted-arms-check-not-negated", COLL,
         sub("            if not _set_binops_check_strict(self, value):\n                return NotImplemented\n            for item in value:\n                self.add(item)\n            return self\n",
             "            if not _set_binops_check_strict(self, value):\n                for item in value:\n                    self.add(item)\n                return self\n            return NotImplemented\n"),
         "C38-R3")
R.mutant("canned-roles-early-continue-without-marker-test", COLL,
         sub("            fn = getattr(cls, method, None)\n            if (\n                fn\n                and method not in methods\n                and not hasattr(fn, \"_sa_instrumented\")\n            ):\n                setattr(cls, method, decorator(fn))\n",
             "            fn = getattr(cls, method, None)\n            if not fn or method in methods:\n                continue\n            already = hasattr(fn, \"_sa_instrumented\")\n            if already:\n                pass\n            setattr(cls, method, decorator(fn))\n"),
         "C38-R8")
R.mutant("list-setitem-noop-inverted-wrong-way", COLL,
         sub("                    if value is self:\n                        return\n", "                    if value is not self:\n                        return\n"),
         "C38-R6")
R.mutant("list-tidy-returns-wrapper-unmarked", COLL,
         _chain(sub("    def _tidy(fn):\n        fn._sa_instrumented = True\n        fn.__doc__ = getattr(list, fn.__name__).__doc__\n",
                    "    def _tidy(fn):\n        fn._sa_instrumented = True\n        fn.__doc__ = getattr(list, fn.__name__).__doc__\n        return fn\n\n"
                    "    def _plain(fn):\n        return fn\n"),
                sub("        _tidy(append)\n        return append\n", "        return _plain(append)\n"),
                sub("    l = locals().copy()\n    l.pop(\"_tidy\")\n    return l\n\n\ndef _dict_decorators()", "    l = locals().copy()\n    l.pop(\"_tidy\")\n    l.pop(\"_plain\")\n    return l\n\n\ndef _dict_decorators()")),
         "C38-R8")
# further everyday shapes
R.mutant("benign-set-add-early-return-for-present-member", COLL,
         sub("            if value not in self:\n                value = __set(self, value, _sa_initiator, NO_KEY)\n            else:\n                __set_wo_mutation(self, value, _sa_initiator)\n            # testlib.pragma exempt:__hash__\n            fn(self, value)\n",
             "            if value in self:\n                __set_wo_mutation(self, value, _sa_initiator)\n                fn(self, value)\n                return\n            value = __set(self, value, _sa_initiator, NO_KEY)\n            # testlib.pragma exempt:__hash__\n            fn(self, value)\n"),
         None)
R.mutant("benign-dict-update-sentinel-arms-swapped", COLL,
         sub("            if __other is not NO_ARG:\n                if hasattr(__other, \"keys\"):\n", "            if __other is NO_ARG:\n                pass\n            else:\n                if hasattr(__other, \"keys\"):\n"),
         None)
R.mutant("benign-list-setitem-scalar-existing-none-arms-swapped", COLL,
         sub("                existing = self[index]\n                if existing is not None:\n                    __del(self, existing, None, index)\n",
             "                existing = self[index]\n                if existing is None:\n                    pass\n                else:\n                    __del(self, existing, None, index)\n"),
         None)
R.mutant("benign-list-iadd-delegates-to-extend", COLL,
         sub("            # raise as-is instead of returning NotImplemented\n            for value in list(iterable):\n                self.append(value)\n            return self\n",
             "            # raise as-is instead of returning NotImplemented\n            self.extend(iterable)\n            return self\n"),
         None)
R.mutant("benign-dict-popitem-unpacked", COLL,
         sub("            item = fn(self)\n            __del(self, item[1], None, 1)\n            return item\n",
             "            popped = fn(self)\n            value = popped[1]\n            __del(self, value, None, 1)\n            return popped\n"),
         None)

# ---- round 2 (str2-q): seeds C38_3 / C38_4 and the family they belong to (C38-R12, bounded model check)
_SYMDIFF = ("            want, have = self.symmetric_difference(other), set(self)\n            remove, add = have - want, want - have\n\n"
            "            for item in remove:\n                self.remove(item)\n            for item in add:\n                self.add(item)\n")
_TOGGLE = "            for item in list(other):\n                if item in self:\n                    self.remove(item)\n                else:\n                    self.add(item)\n"
R.mutant("seed3-set-symdiff-update-per-item-toggle", COLL, sub(_SYMDIFF, _TOGGLE, count=2), "C38-R12")
R.mutant("set-symdiff-update-toggle-named-method-only", COLL,
         sub("        def symmetric_difference_update(self, other):\n" + _SYMDIFF, "        def symmetric_difference_update(self, other):\n" + _TOGGLE),
         "C38-R12")
# for `^=` the operand is a set (strict type check): toggling its members one by one IS the symmetric difference
R.mutant("benign-set-ixor-toggle-after-strict-type-check", COLL,
         sub("                return NotImplemented\n" + _SYMDIFF + "            return self\n", "                return NotImplemented\n" + _TOGGLE + "            return self\n"),
         None)
R.mutant("benign-set-symdiff-update-toggle-over-deduplicated-operand", COLL,
         sub("        def symmetric_difference_update(self, other):\n" + _SYMDIFF,
             "        def symmetric_difference_update(self, other):\n" + _TOGGLE.replace("list(other)", "set(other)")),
         None)
R.mutant("benign-set-symdiff-update-locals-renamed-one-loop-each", COLL,
         sub("        def symmetric_difference_update(self, other):\n" + _SYMDIFF,
             "        def symmetric_difference_update(self, other):\n            target = self.symmetric_difference(other)\n            current = set(self)\n"
             "            for gone in current - target:\n                self.remove(gone)\n            for new in target - current:\n                self.add(new)\n"),
         None)
R.mutant("set-intersection-update-tests-membership-in-the-raw-operand", COLL,
         sub("        def intersection_update(self, other):\n            want, have = self.intersection(other), set(self)\n            remove, add = have - want, want - have\n\n"
             "            for item in remove:\n                self.remove(item)\n            for item in add:\n                self.add(item)\n",
             "        def intersection_update(self, other):\n            for item in list(self):\n                if item not in other:\n                    self.remove(item)\n"),
         "C38-R12")
_DUPD = ("            if __other is not NO_ARG:\n                if hasattr(__other, \"keys\"):\n                    for key in list(__other):\n"
         "                        if key not in self or self[key] is not __other[key]:\n                            self[key] = __other[key]\n"
         "                        else:\n                            __set_wo_mutation(self, __other[key], None)\n"
         "                else:\n                    for key, value in __other:\n                        if key not in self or self[key] is not value:\n"
         "                            self[key] = value\n                        else:\n                            __set_wo_mutation(self, value, None)\n"
         "            for key in kw:\n                if key not in self or self[key] is not kw[key]:\n                    self[key] = kw[key]\n"
         "                else:\n                    __set_wo_mutation(self, kw[key], None)\n")
_DUPD_LOOP = ("            for key, value in pairs:\n                if key not in self or self[key] is not value:\n                    self[key] = value\n"
              "                else:\n                    __set_wo_mutation(self, value, None)\n")
R.mutant("seed4-dict-update-one-loop-keywords-only-without-positional", COLL,
         sub(_DUPD, "            if __other is NO_ARG:\n                pairs = kw.items()\n            elif hasattr(__other, \"keys\"):\n"
                    "                pairs = [(key, __other[key]) for key in list(__other)]\n            else:\n                pairs = __other\n" + _DUPD_LOOP),
         "C38-R12")
R.mutant("benign-dict-update-one-loop-keywords-appended", COLL,
         sub(_DUPD, "            if __other is NO_ARG:\n                pairs = []\n            elif hasattr(__other, \"keys\"):\n"
                    "                pairs = [(key, __other[key]) for key in list(__other)]\n            else:\n                pairs = list(__other)\n"
                    "            pairs = pairs + list(kw.items())\n" + _DUPD_LOOP),
         None)
R.mutant("dict-update-pairs-form-never-replaces", COLL,
         sub("                    for key, value in __other:\n                        if key not in self or self[key] is not value:\n",
             "                    for key, value in __other:\n                        if key not in self:\n"),
         "C38-R12")
R.mutant("list-pop-default-index-is-first", COLL,
         sub("        def pop(self, index=-1):\n            __before_pop(self)\n", "        def pop(self, index=0):\n            __before_pop(self)\n"), "C38-R12")
R.mutant("list-setitem-index-announces-removal-of-new-value", COLL,
         sub("                if existing is not None:\n                    __del(self, existing, None, index)\n",
             "                if existing is not None:\n                    __del(self, value, None, index)\n"),
         "C38-R12")
R.mutant("benign-list-insert-keyword-free-helper-closure", COLL,
         sub("    def insert(fn):\n        def insert(self, index, value):\n            value = __set(self, value, None, index)\n            fn(self, index, value)\n",
             "    def _announce(coll, member, position):\n        return __set(coll, member, None, position)\n\n"
             "    def insert(fn):\n        def insert(self, index, value):\n            value = _announce(self, value, index)\n            fn(self, index, value)\n"),
         None)
# the repairs proposed for the C38-R12 findings on the unchanged tree (notes/str2-q.md) must raise nothing new
_SLICE_OLD = ("                step = index.step or 1\n                start = index.start or 0\n                if start < 0:\n                    start += len(self)\n"
              "                if index.stop is not None:\n                    stop = index.stop\n                else:\n                    stop = len(self)\n"
              "                if stop < 0:\n                    stop += len(self)\n\n                if step == 1:\n                    if value is self:\n                        return\n"
              "                    for i in range(start, stop, step):\n                        if len(self) > start:\n                            del self[start]\n")
_SLICE_FIX = ("                value = list(value)\n                start, stop, step = index.indices(len(self))\n\n                if step == 1:\n"
              "                    for i in range(start, max(start, stop)):\n                        del self[start]\n")
R.mutant("fix-list-setitem-slice-by-slice-indices", COLL, sub(_SLICE_OLD, _SLICE_FIX), None)
R.mutant("fix-set-difference-update-iterates-a-snapshot", COLL,
         _chain(sub("        def difference_update(self, value):\n            for item in value:\n", "        def difference_update(self, value):\n            for item in list(value):\n"),
                sub("                return NotImplemented\n            for item in value:\n                self.discard(item)\n", "                return NotImplemented\n            for item in list(value):\n                self.discard(item)\n")),
         None)
# ... and a half repair is still shown (start clamped, negative steps still read with the defaults of a positive one)
R.mutant("list-setitem-slice-clamps-start-only", COLL,
         sub("                if start < 0:\n                    start += len(self)\n", "                if start < 0:\n                    start = max(0, start + len(self))\n"),
         None)
R.mutant("benign-dict-pop-forwards-optional-default-as-star-args", COLL,
         sub("        def pop(self, key, default=NO_ARG):\n            __before_pop(self)\n            _to_del = key in self\n            if default is NO_ARG:\n                item = fn(self, key)\n            else:\n                item = fn(self, key, default)\n",
             "        def pop(self, key, *default):\n            __before_pop(self)\n            _to_del = key in self\n            item = fn(self, key, *default)\n"),
         None)
R.mutant("benign-list-setitem-error-message-as-fstring-and-walrus", COLL,
         sub("                    rng = list(range(start, stop, step))\n                    if len(value) != len(rng):\n                        raise ValueError(\n                            \"attempt to assign sequence of size %s to \"\n                            \"extended slice of size %s\"\n                            % (len(value), len(rng))\n                        )\n",
             "                    rng = list(range(start, stop, step))\n                    if (given := len(value)) != len(rng):\n                        raise ValueError(\n                            f\"attempt to assign sequence of size {given} to \"\n                            f\"extended slice of size {len(rng)}\"\n                        )\n"),
         None)
# a wrapper that never returns on a 1-element collection is a divergence too (bounded interpreter: steps, size, memory)
R.mutant("list-extend-iterates-the-live-operand", COLL,
         sub("        def extend(self, iterable):\n            for value in list(iterable):\n                self.append(value)\n",
             "        def extend(self, iterable):\n            for value in iterable:\n                self.append(value)\n"),
         "C38-R12")
