"""Helpers of sub-agent str2-z1 (C15 / C40, first seed round).

`sqlite_primary_key(sql)` -- what SQLite makes of the PRIMARY KEY declarations in a CREATE TABLE statement
(oracles/sqlite_primary_key_grammar.json).  This is the *backend* between the DDL compiler (writer) and the
reflection code (reader) of C15: the statement text is produced by running /repo's DDL compiler on a model,
the answer of `PRAGMA table_info` (column `pk`) is derived from that text here.  Nothing of /repo is parsed
with this: it is a model of SQLite's own CREATE TABLE grammar, restricted to what decides the primary key.
"""

from __future__ import annotations

import re
from typing import List, Optional, Tuple

from ..oracles import load


class SqliteRejects(Exception):
    """SQLite would refuse the statement (message as the backend words it); `about` = which part of the
    primary key grammar: 'count' (more than one declaration / unknown column) or 'autoincrement'"""

    def __init__(self, message: str, about: str = "count"):
        super().__init__(message)
        self.about = about


class NotUnderstood(Exception):
    """the statement is outside the modelled part of the grammar"""


_OPEN, _CLOSE = "([", ")]"


def _scan(text: str):
    """yield (index, char, depth, in_quote) for every character; quotes: '..', "..", `..` with doubled escapes"""
    depth, q, i, n = 0, None, 0, len(text)
    while i < n:
        ch = text[i]
        if q is not None:
            if ch == q:
                if i + 1 < n and text[i + 1] == q:
                    yield i, ch, depth, True
                    yield i + 1, ch, depth, True
                    i += 2
                    continue
                q = None
            yield i, ch, depth, True
        elif ch in "'\"`":
            q = ch
            yield i, ch, depth, True
        elif ch in _OPEN:
            depth += 1
            yield i, ch, depth, False
        elif ch in _CLOSE:
            yield i, ch, depth, False
            depth -= 1
        else:
            yield i, ch, depth, False
        i += 1


def table_body(sql: str) -> str:
    """text between the parenthesis that opens the column list and its partner"""
    start = None
    for i, ch, depth, quoted in _scan(sql):
        if quoted:
            continue
        if ch == "(" and depth == 1 and start is None:
            start = i
        elif ch == ")" and depth == 1 and start is not None:
            return sql[start + 1: i]
    raise NotUnderstood("no column list in the CREATE TABLE statement")


def split_top_level(body: str) -> List[str]:
    out, last = [], 0
    for i, ch, depth, quoted in _scan(body):
        if ch == "," and depth == 0 and not quoted:
            out.append(body[last:i])
            last = i + 1
    out.append(body[last:])
    return [s.strip() for s in out if s.strip()]


def _flatten(segment: str) -> str:
    """the segment with quoted strings and parenthesised groups blanked (same length is not needed)"""
    out = []
    for i, ch, depth, quoted in _scan(segment):
        if quoted or depth > 0 or ch in _CLOSE:
            if not out or out[-1] != "\0":
                out.append("\0")
        else:
            out.append(ch)
    return "".join(out)


_IDENT = re.compile(r'\s*(?:"((?:[^"]|"")+)"|`((?:[^`]|``)+)`|\[([^\]]+)\]|([A-Za-z_][\w$]*))')


def _ident(text: str) -> Tuple[Optional[str], bool, int]:
    """(name, was quoted, end offset) of the identifier `text` starts with"""
    m = _IDENT.match(text)
    if not m:
        return None, False, 0
    if m.group(1) is not None:
        return m.group(1).replace('""', '"'), True, m.end()
    if m.group(2) is not None:
        return m.group(2).replace("``", "`"), True, m.end()
    if m.group(3) is not None:
        return m.group(3), True, m.end()
    return m.group(4), False, m.end()


_PK_COL = re.compile(r"\bPRIMARY\s+KEY\b(?:\s+(?:ASC|DESC)\b)?(?:\s+ON\s+CONFLICT\s+\w+)?(\s+AUTOINCREMENT\b)?", re.I)
_PK_TABLE = re.compile(r"^\s*(?:CONSTRAINT\s+(?:\0|[\w$]+)\s+)?PRIMARY\s+KEY\s*\0", re.I)
_AUTOINC = re.compile(r"\bAUTOINCREMENT\b", re.I)


def sqlite_primary_key(sql: str) -> List[str]:
    """column names of the primary key SQLite gives the table created by `sql`, in key order ([] = no primary
    key).  Raises SqliteRejects where SQLite refuses the statement over its primary key clauses."""
    o = load("sqlite_primary_key_grammar.json")
    ckw = {k.upper() for k in o["column_constraint_keywords"]}
    tkw = {k.upper() for k in o["table_constraint_keywords"]}
    decls: List[List[str]] = []
    columns: List[str] = []
    auto_problem: Optional[SqliteRejects] = None
    for seg in split_top_level(table_body(sql)):
        name, quoted, end = _ident(seg)
        if name is None:
            raise NotUnderstood(f"segment {seg[:40]!r} does not start with an identifier")
        flat = _flatten(seg)
        if not quoted and name.upper() in tkw:
            # table constraint
            if _PK_TABLE.match(flat):
                start = next(i for i, ch, _d, quoted in _scan(seg) if ch == "(" and not quoted)
                inner = seg[start + 1:]
                inner = inner[: _matching_close(inner)]
                cols = []
                for part in split_top_level(inner):
                    cn, _, _ = _ident(part)
                    if cn is None:
                        raise NotUnderstood(f"primary key member {part!r}")
                    cols.append(cn)
                decls.append(cols)
            if _AUTOINC.search(flat) and o["autoincrement_only_after_column_level_primary_key"]:
                auto_problem = auto_problem or SqliteRejects('near "AUTOINCREMENT": syntax error', "autoincrement")
            continue
        # column definition: name, declared type (tokens up to the first constraint keyword), constraints
        columns.append(name)
        rest = _flatten(seg[end:])
        words = re.findall(r"[A-Za-z_][\w$]*|\0", rest)
        tyw = []
        for w in words:
            if w.upper() in ckw:
                break
            if w != "\0":
                tyw.append(w)
        declared = " ".join(tyw)
        hits = list(_PK_COL.finditer(rest))
        n_auto = len(_AUTOINC.findall(rest))
        n_auto_ok = sum(1 for h in hits if h.group(1))
        if n_auto > n_auto_ok and o["autoincrement_only_after_column_level_primary_key"]:
            auto_problem = auto_problem or SqliteRejects('near "AUTOINCREMENT": syntax error', "autoincrement")
        elif n_auto_ok and declared.upper() != o["autoincrement_requires_declared_type"]:
            auto_problem = auto_problem or SqliteRejects("AUTOINCREMENT is only allowed on an INTEGER PRIMARY KEY",
                                                         "autoincrement")
        for _ in hits:
            decls.append([name])
    if len(decls) > 1 and o["more_than_one_primary_key_is_an_error"]:
        raise SqliteRejects("table has more than one primary key")
    if auto_problem is not None:
        raise auto_problem
    pk = decls[0] if decls else []
    low = {c.lower(): c for c in columns}
    out = []
    for c in pk:
        if c.lower() not in low:
            raise SqliteRejects(f"no such column in PRIMARY KEY: {c}")
        out.append(low[c.lower()])
    return out


def _matching_close(text: str) -> int:
    """offset of the `)` that closes a group whose `(` was just consumed"""
    depth = 1
    for i, ch, _d, quoted in _scan(text):
        if quoted:
            continue
        if ch == "(":
            depth += 1
        elif ch == ")":
            depth -= 1
            if depth == 0:
                return i
    raise NotUnderstood("unbalanced parenthesis in PRIMARY KEY clause")


# =============================================================================================== C40
# `LiteSQL` -- na-c's source interpreter with two additions needed to run ORM strategy code on a model:
#  * a call of a function of the SQL expression package (sql/...) is not interpreted; it yields a *recording*
#    model object that remembers the callee and the ordered arguments (what the construct is made of);
#  * `collections.namedtuple` (a record type built at class level) is the analysing interpreter's own.

import collections as _collections

from ._helpers_na_c import FuncVal, Inst, Lite, Unsupported


class LiteSQL(Lite):
    def sql_construct(self, info, args, kwargs) -> Inst:
        i = Inst(None, {"_sql_callee": info.key}, tuple(args), dict(kwargs), label=f"sql:{info.name}")
        i.default_attr = lambda a: None
        return i

    def call_function(self, fv: FuncVal, args: list, kwargs: dict):
        info = fv.info
        if info is not None and info.key not in self.func_stubs and info.module.relpath.startswith("sql/"):
            self._tick()
            return self.sql_construct(info, args, kwargs)
        return super().call_function(fv, args, kwargs)

    def getattr(self, base, attr: str, node=None, frame=None):
        if base is _collections and attr == "namedtuple":
            return _collections.namedtuple
        return super().getattr(base, attr, node, frame)

    def call(self, fn, args: list, kwargs: dict, node=None):
        if fn is _collections.namedtuple:
            self._tick()
            return fn(*args, **kwargs)
        if isinstance(fn, type) and issubclass(fn, tuple) and hasattr(fn, "_fields"):
            self._tick()
            try:
                return fn(*args, **kwargs)
            except TypeError as e:
                from ._helpers_na_c import ModelRaise
                raise ModelRaise("TypeError", str(e))
        return super().call(fn, args, kwargs, node)


def ordered_column_groups(value, is_column, depth: int = 0):
    """every ordered group (len >= 2) of model columns inside a result value: python sequences and the ordered
    arguments of recorded SQL constructs, searched through tuples / lists / records"""
    out = []
    if depth > 4:
        return out
    if isinstance(value, Inst) and "_sql_callee" in value.attrs:
        cols = [a for a in value.args if is_column(a)]
        if len(cols) >= 2 and len(cols) == len(value.args):
            out.append(("arguments of " + value.label, cols))
        for a in value.args:
            if not is_column(a):
                out.extend(ordered_column_groups(a, is_column, depth + 1))
        return out
    if isinstance(value, (list, tuple)):
        cols = [a for a in value if is_column(a)]
        if len(cols) >= 2 and len(cols) == len(value):
            out.append(("sequence", list(value)))
        else:
            fields = getattr(value, "_fields", None)
            for n, a in enumerate(value):
                for what, g in ordered_column_groups(a, is_column, depth + 1):
                    out.append(((f"{fields[n]}: " if fields else "") + what, g))
    return out
