"""Helpers of the round-2 strengthening of C01 / C02 (str2-b).

`OperandMutation` -- T-FRESH typestate "an expression constructor never mutates an operand":
forward freshness analysis (sqlastatic.fresh.FreshAnalysis) of a function with every parameter SHARED, `*args` /
`**kw` containers fresh, results of constructors / _clone() / __new__ fresh, results of any other call that
receives a shared object "may alias it" (shared).  Sinks on a shared object:

  * a store / augmented store / delete of a STRUCTURAL attribute (`x.clauses = ..`, `x.clauses += (..)`), where
    structural = named in a `_traverse_internals`-style table of the element family (the attributes that define an
    element's rendering and cache key; caches / memoisations are not structural),
  * an in-place container mutation of a structural attribute (`x.clauses.append(..)`, `x.clauses[i] = ..`),
    directly or through a local alias (`lst = x.clauses; lst.append(..)`),
  * a call `x.m(..)` of a method that does one of the above to its `self` (resolved by name over the element
    family, closed over `self.helper()` calls),
  * handing it to a function / classmethod of the same modules whose summary says it mutates that parameter.

Nothing here looks at names of locals or statement text; helpers are followed through summaries.
"""

from __future__ import annotations

import ast
from typing import Dict, List, Optional, Set, Tuple

from ..astutil import MUTATING_METHODS, call_name, dotted, own_exprs, unparse
from ..fresh import F, S, U, FreshAnalysis
from ..index import ClassInfo, FuncInfo

# methods that run on an object under construction / on a fresh copy by protocol
_INITIALISERS = {"__init__", "_init", "__new__", "__setstate__", "_copy_internals", "__init_subclass__"}
_COPYING_DECORATORS = ("_generative", "memoized_property", "memoized_attribute", "memoized_instancemethod",
                       "ro_memoized_property", "property", "classmethod", "staticmethod", "overload")


def traversed_attrs(classes) -> Set[str]:
    """Attribute names listed in any `*traverse_internals` / `_cache_key_traversal` table of the classes."""
    out: Set[str] = set()
    for c in classes:
        for nm, nodes in c.assigns.items():
            if not (nm.endswith("traverse_internals") or nm == "_cache_key_traversal"):
                continue
            for node in nodes:
                for t in ast.walk(node):
                    if isinstance(t, ast.Tuple) and len(t.elts) >= 2 and isinstance(t.elts[0], ast.Constant) \
                            and isinstance(t.elts[0].value, str):
                        out.add(t.elts[0].value)
    return out


def _params(fn) -> Tuple[List[str], List[str]]:
    a = fn.args
    return [x.arg for x in a.posonlyargs + a.args + a.kwonlyargs], [x.arg for x in (a.vararg, a.kwarg) if x is not None]


def _root_name(e: ast.AST) -> Optional[str]:
    while isinstance(e, (ast.Attribute, ast.Subscript)):
        e = e.value
    return e.id if isinstance(e, ast.Name) else None


class OperandMutation:
    def __init__(self, ctx, structural: Set[str], family_classes: List[ClassInfo]):
        self.ctx, self.structural, self.family = ctx, structural, family_classes
        self._summary: Dict[str, Set[str]] = {}
        self._busy: Set[str] = set()
        self.self_mutators: Dict[str, str] = {}  # method name -> key of a definition that mutates its self
        self._phase2 = False
        # methods that return a modified COPY of their receiver (the @_generative decorator copies first)
        self.generative = {m.name for c in family_classes for m in c.methods.values()
                           if any(d.rsplit(".", 1)[-1] == "_generative" for d in m.decorators)}

    # ------------------------------------------------------------------ resolution of callees
    def _resolve(self, f: FuncInfo, call: ast.Call):
        """-> (callee FuncInfo, [(parameter name, argument expr)]) for calls whose target is known statically:
        self.m() / cls.m() / super().m() (through the MRO), Class.m(), module_function()."""
        ix = self.ctx.index
        fn = call.func
        tgt, bound_self = None, None
        if isinstance(fn, ast.Attribute) and isinstance(fn.value, ast.Name) and fn.value.id in ("self", "cls") and f.cls is not None:
            tgt = ix.resolve_method(f.cls, fn.attr)
            bound_self = fn.value
        elif isinstance(fn, (ast.Name, ast.Attribute)):
            nm = dotted(fn) or ""
            if nm and "()" not in nm:
                r = ix.resolve(f.module, nm)
                if isinstance(r, FuncInfo):
                    tgt = r
                elif isinstance(r, ClassInfo):
                    return None  # a constructor call: the new object is fresh; __init__ judged as an initialiser
        if tgt is None or tgt.type_only or tgt.node is f.node:
            return None
        pos, star = _params(tgt.node)
        pairs = []
        names = list(pos)
        if tgt.cls is not None and names and names[0] in ("self", "cls"):
            first = names.pop(0)
            if first == "self" and bound_self is not None and bound_self.id == "self":
                pairs.append(("self", bound_self))
        npos = len(tgt.node.args.posonlyargs) + len(tgt.node.args.args) - (len(pos) - len(names))
        for i, a in enumerate(call.args):
            if isinstance(a, ast.Starred):
                break
            if i < npos:
                pairs.append((names[i], a))
        for k in call.keywords:
            if k.arg and k.arg in names:
                pairs.append((k.arg, k.value))
        return tgt, pairs

    # ------------------------------------------------------------------ the analysis of one function
    def sinks(self, f: FuncInfo, depth: int = 0) -> List[Tuple[str, str, str, int]]:
        """[(parameter-or-local root, kind, description, lineno)] mutations of SHARED objects in f."""
        ctx = self.ctx
        g = ctx.cfg(f)
        pos, star = _params(f.node)
        env = {p: S for p in pos}
        env.update({p: F for p in star})
        if "cls" in env:
            env["cls"] = U
        ix = ctx.index
        mod = f.module

        def fresh_call(call: ast.Call, state_of):
            nm = call_name(call) or ""
            short = nm.rsplit(".", 1)[-1]
            if nm and "()" not in nm and isinstance(call.func, (ast.Name, ast.Attribute)):
                r = ix.resolve(mod, nm)
                if isinstance(r, ClassInfo):
                    return F
            from ..fresh import FRESH_BUILTINS, FRESH_METHOD_NAMES
            if short in FRESH_METHOD_NAMES or nm in FRESH_BUILTINS:
                return None  # built-in rules: fresh
            if short in self.generative and isinstance(call.func, ast.Attribute):
                return F
            # any other call: the result may be (a part of) a shared object it was given
            recv = call.func.value if isinstance(call.func, ast.Attribute) else None
            parts = ([recv] if recv is not None else []) + [a.value if isinstance(a, ast.Starred) else a for a in call.args] \
                + [k.value for k in call.keywords]
            def shared(p):
                r = _root_name(p)
                if r is None:
                    return isinstance(p, ast.Call) and state_of(p) == S
                return state_of(ast.Name(id=r, ctx=ast.Load())) in (S, F) if not isinstance(p, ast.Name) else state_of(p) == S
            if any(shared(p) for p in parts):
                return S
            return None

        an = FreshAnalysis(g, env, fresh_call=fresh_call, default_name_state=U)
        out: List[Tuple[str, str, str, int]] = []

        def owner_state(nid: int, path: str) -> str:
            """state of the object denoted by dotted `path` at cfg node nid"""
            pre = an.pre.get(nid, {})
            if path in pre:
                return pre[path]
            root = path.split(".")[0]
            rs = pre.get(root, U)
            if "." not in path:
                return rs
            # a sub-object of a known object is shared, whatever the owner (shallow copies share members)
            return S if rs in (S, F) else U

        def recv_state(nid: int, e: ast.AST, pre) -> str:
            if isinstance(e, ast.Name):
                return pre.get(e.id, U)
            if isinstance(e, ast.Attribute):
                d = dotted(e)
                return owner_state(nid, d) if d and "()" not in d else an.state(e.value, pre) if isinstance(e.value, ast.Call) else U
            if isinstance(e, ast.Call):
                return an.state(e, pre)
            return U

        def arg_state(nid: int, e: ast.AST, pre) -> str:
            return recv_state(nid, e, pre)

        for nid, kind, root, d, node in an.mutation_sinks():
            ln = getattr(node, "lineno", f.node.lineno)
            if kind == "attr-store":
                owner, attr = d.rsplit(".", 1)
                if attr in self.structural and owner_state(nid, owner) == S:
                    verb = "augments" if isinstance(node, ast.AugAssign) else ("deletes" if isinstance(node, ast.Delete) else "rebinds")
                    out.append((root, "attr-store", f"{verb} `{d}` of a shared object", ln))
            else:
                attr = d.rsplit(".", 1)[-1]
                if attr in self.structural and owner_state(nid, d) == S:
                    out.append((root, "inplace", f"mutates the container `{d}` of a shared object in place (`{unparse(node)[:60]}`)", ln))
        for node in g.nodes:
            st = node.stmt
            if st is None or not isinstance(st, ast.stmt) or node.kind not in ("stmt", "test", "for", "with_enter"):
                continue
            pre = an.pre.get(node.id, {})
            for part in own_exprs(st):
                for c in ast.walk(part):
                    if not isinstance(c, ast.Call):
                        continue
                    ln = getattr(c, "lineno", f.node.lineno)
                    if isinstance(c.func, ast.Attribute):
                        recv, m = c.func.value, c.func.attr
                        root = _root_name(recv)
                        if root is not None and root not in ("self", "cls") or (root == "self" and not isinstance(recv, ast.Name)):
                            rstate = recv_state(node.id, recv, pre)
                            if self._phase2 and m in self.self_mutators and rstate == S:
                                out.append((root, "mutator-call",
                                            f"calls the in-place mutator `{unparse(c.func)}()` ({self.self_mutators[m]} changes "
                                            f"structural state of its self) on a shared object", ln))
                            elif isinstance(recv, ast.Name) and m in MUTATING_METHODS and rstate == S \
                                    and self._is_structural_alias(f, recv.id):
                                out.append((root, "inplace", f"mutates a shared structural container through the alias "
                                                             f"`{recv.id}` (`{unparse(c)[:60]}`)", ln))
                    if depth < 2:
                        r = self._resolve(f, c)
                        if r is None:
                            continue
                        tgt, pairs = r
                        if tgt.name in _INITIALISERS or self._copies_first(tgt) and "classmethod" not in "".join(tgt.decorators) \
                                and "staticmethod" not in "".join(tgt.decorators):
                            continue
                        mutated = self.summary(tgt, depth + 1)
                        for pname, arg in pairs:
                            if pname in mutated and isinstance(arg, (ast.Name, ast.Attribute)) and arg_state(node.id, arg, pre) == S:
                                out.append((_root_name(arg) or "?", "via-callee:" + tgt.key,
                                            f"hands `{unparse(arg)}` to {tgt.qualname}(), which mutates its parameter "
                                            f"`{pname}` in place", ln))
        return out

    def _is_structural_alias(self, f: FuncInfo, name: str) -> bool:
        """is local `name` bound (anywhere in f) to a structural attribute of something: `lst = x.clauses`"""
        from ..astutil import name_stores
        for n, v, st in name_stores(f.node):
            if n == name and isinstance(v, ast.Attribute) and v.attr in self.structural:
                return True
        return False

    def summary(self, f: FuncInfo, depth: int = 0) -> Set[str]:
        """parameter names of f whose object f mutates structurally (directly or through followed callees)"""
        if f.key in self._summary:
            return self._summary[f.key]
        if f.key in self._busy or depth > 3:
            return set()
        self._busy.add(f.key)
        try:
            pos, star = _params(f.node)
            res = {root for root, kind, desc, ln in self.sinks(f, depth) if root in pos}
        finally:
            self._busy.discard(f.key)
        self._summary[f.key] = res
        return res

    def _copies_first(self, m: FuncInfo) -> bool:
        return any(d.rsplit(".", 1)[-1].startswith(_COPYING_DECORATORS) or d.endswith(".setter") for d in m.decorators)

    def _direct_self_mutation(self, m: FuncInfo) -> bool:
        """does the body store to / mutate in place a structural attribute of its `self` (syntactic: `self` is
        shared by definition, so no freshness is involved)"""
        from ..astutil import walk_local
        for n in walk_local(m.node):
            tgts = []
            if isinstance(n, (ast.Assign, ast.Delete)):
                tgts = list(n.targets)
            elif isinstance(n, ast.AugAssign) or (isinstance(n, ast.AnnAssign) and n.value is not None):
                tgts = [n.target]
            for t in tgts:
                for e in ast.walk(t):
                    if isinstance(e, (ast.Attribute, ast.Subscript)) and isinstance(e.ctx, (ast.Store, ast.Del)):
                        base = e if isinstance(e, ast.Attribute) else e.value
                        while isinstance(base, ast.Subscript):
                            base = base.value
                        if isinstance(base, ast.Attribute) and isinstance(base.value, ast.Name) and base.value.id == "self" \
                                and base.attr in self.structural:
                            return True
            if isinstance(n, ast.Call) and isinstance(n.func, ast.Attribute) and n.func.attr in MUTATING_METHODS:
                base = n.func.value
                while isinstance(base, ast.Subscript):
                    base = base.value
                if isinstance(base, ast.Attribute) and isinstance(base.value, ast.Name) and base.value.id == "self" \
                        and base.attr in self.structural:
                    return True
        return False

    def compute_self_mutators(self):
        """Names of methods of the family that change structural state of their `self` -- directly or through
        `self.helper()` -- and are neither initialisers nor methods that work on a copy by decorator."""
        from ..astutil import walk_local
        cands = []
        for c in self.family:
            for m in c.methods.values():
                if m.type_only or m.is_overload or m.name in _INITIALISERS or self._copies_first(m):
                    continue
                pos, _ = _params(m.node)
                if pos and pos[0] == "self":
                    cands.append((c, m))
        from ..astutil import name_stores

        def direct(m):
            if not self._direct_self_mutation(m):
                return False
            if any(n == "self" for n, v, st in name_stores(m.node)):
                # `self = self._generate()` idiom: flow-sensitive judgement
                return any(root == "self" for root, kind, desc, ln in self.sinks(m))
            return True
        mut = {m.key: m for c, m in cands if direct(m)}
        changed = True
        while changed:
            changed = False
            for c, m in cands:
                if m.key in mut:
                    continue
                for n in walk_local(m.node):
                    if isinstance(n, ast.Call) and isinstance(n.func, ast.Attribute) and isinstance(n.func.value, ast.Name) \
                            and n.func.value.id == "self":
                        tgt = self.ctx.index.resolve_method(c, n.func.attr)
                        if tgt is not None and tgt.key in mut:
                            mut[m.key] = m
                            changed = True
                            break
        for k in sorted(mut):
            self.self_mutators.setdefault(mut[k].name, k)
        self._phase2 = True
