"""Helpers of the str2-e strengthening pass (C11, C12; round-2 seeds).

Everything here works on `ast` only -- nothing imports or runs SQLAlchemy.

* `Conc`   a small *concrete* interpreter for the container-bookkeeping subset of Python (ints, bools, None, str,
           tuple / list / dict / set values, slices, comprehensions, `|` on dicts, `for` / `while` / `if` /
           `break` / `continue` / `return`, attribute reads and stores on *model objects*, calls of a whitelist of
           builtins and container methods).  A rule hands it a **model** of the inputs of a function (e.g. a cached
           keymap and the column list of the invoked statement; a parameter list and a page size) and judges the
           function by the *result it computes on the model*, not by how the computation is spelled: a dict-merge
           written as `a | {..}`, `{**a, **b}`, `copy + update` or a loop with item assignment gives the same
           result; `setdefault` does not.  Anything outside the subset raises `Unsupported` (-> ANALYSIS-ERROR,
           exit 2): never a guess.
* `Obj`    a model object: a bag of attributes, hashable by identity.  Reading an attribute the model does not
           define calls `Conc.missing_attr` (default: Unsupported); calling a method calls `Conc.call_method`.
* `Free`   an unconstrained input discovered while executing (an attribute chain of `self` / a parameter that the
           model did not define).  When a Free value is used as a number / truth value / length it takes its
           value from the current *scenario* (`Conc.free_value`), in the order of first use.
* `path_to` / `relevant_closure` / `prune`  program slice of a function body w.r.t. a set of relevant locals and a target loop
           (statements that neither bind relevant locals nor contain the target are dropped; `if` statements on the
           way to the target are replaced by the arm that leads to it).
"""

from __future__ import annotations

import ast
import copy
from typing import Callable, Dict, Iterable, List, Optional, Sequence, Set, Tuple

from ..astutil import unparse


class Unsupported(Exception):
    pass


class ModelRaise(Exception):
    """the interpreted code executed a `raise` statement / a failing container operation"""

    def __init__(self, what: str):
        super().__init__(what)
        self.what = what


class _Return(Exception):
    def __init__(self, value):
        self.value = value


class _Break(Exception):
    pass


class _Continue(Exception):
    pass


class Obj:
    """model object; attributes live in `.attrs`"""

    def __init__(self, name: str, **attrs):
        self.name = name
        self.attrs: Dict[str, object] = dict(attrs)

    def __repr__(self):
        return f"<{self.name}>"


class Free(Obj):
    """an input the model leaves open (attribute chain)"""


class BoundModelMethod:
    def __init__(self, obj: Obj, name: str):
        self.obj, self.name = obj, name


_CONTAINER_METHODS = {
    dict: {"get", "items", "keys", "values", "setdefault", "update", "copy", "pop", "__contains__"},
    list: {"append", "extend", "insert", "pop", "copy", "index", "clear", "reverse"},
    set: {"add", "update", "discard", "copy", "union", "intersection", "difference", "issubset"},
    frozenset: {"union", "intersection", "difference", "issubset"},
    tuple: {"index", "count"},
    str: {"startswith", "endswith", "lower", "upper"},
}


def _divmod(a, b):
    return divmod(a, b)


class Conc:
    def __init__(self, globals_: Optional[Dict[str, object]] = None, budget: int = 200000):
        self.globals = dict(globals_ or {})
        self.budget = budget
        self.yielded: List[object] = []
        self.free_order: List[str] = []          # names of Free inputs in order of first numeric use
        self.free_values: Dict[str, object] = {}

    # ------------------------------------------------------------------ hooks
    def missing_attr(self, obj: Obj, attr: str):
        raise Unsupported(f"attribute `{attr}` of model object {obj!r}")

    def call_method(self, obj: Obj, name: str, args: list, kwargs: dict):
        raise Unsupported(f"call of `{obj!r}.{name}()`")

    def call_function(self, name: str, args: list, kwargs: dict):
        raise Unsupported(f"call of `{name}()`")

    def on_yield(self, node: ast.Yield, env: dict):
        self.yielded.append(self.ev(node.value, env) if node.value is not None else None)

    def free_value(self, f: Free, kind: str):
        """value of an open input in the current scenario (kind: 'int' | 'len')"""
        raise Unsupported(f"open input {f!r} used as {kind}")

    # ------------------------------------------------------------------ coercions
    def num(self, v, kind="int"):
        if isinstance(v, Free):
            if v.name not in self.free_values:
                self.free_order.append(v.name)
                self.free_values[v.name] = self.free_value(v, kind)
            return self.free_values[v.name]
        return v

    def truth(self, v) -> bool:
        v = self.num(v)
        if isinstance(v, Obj):
            return True
        if v is None or isinstance(v, (bool, int, str, list, tuple, set, frozenset, dict, range)):
            return bool(v)
        raise Unsupported(f"truth value of {v!r}")

    def _tick(self):
        self.budget -= 1
        if self.budget < 0:
            raise Unsupported("step budget exhausted (non-terminating loop on the model?)")

    # ------------------------------------------------------------------ expressions
    def ev(self, e: ast.AST, env: dict):
        self._tick()
        if isinstance(e, ast.Constant):
            return e.value
        if isinstance(e, ast.Name):
            if e.id in env:
                return env[e.id]
            if e.id in self.globals:
                return self.globals[e.id]
            if e.id in _BUILTINS:
                return _BUILTINS[e.id]
            raise Unsupported(f"name `{e.id}`")
        if isinstance(e, ast.Attribute):
            base = self.ev(e.value, env)
            return self.getattr(base, e.attr, e)
        if isinstance(e, ast.NamedExpr) and isinstance(e.target, ast.Name):
            v = self.ev(e.value, env)
            env[e.target.id] = v
            return v
        if isinstance(e, ast.UnaryOp):
            v = self.ev(e.operand, env)
            if isinstance(e.op, ast.Not):
                return not self.truth(v)
            v = self.num(v)
            if isinstance(e.op, ast.USub) and isinstance(v, (int, float)):
                return -v
            if isinstance(e.op, ast.UAdd) and isinstance(v, (int, float)):
                return v
            raise Unsupported(f"unary `{unparse(e)}`")
        if isinstance(e, ast.BoolOp):
            v = None
            for x in e.values:
                v = self.ev(x, env)
                t = self.truth(v)
                if isinstance(e.op, ast.And) and not t:
                    return v
                if isinstance(e.op, ast.Or) and t:
                    return v
            return v
        if isinstance(e, ast.IfExp):
            return self.ev(e.body if self.truth(self.ev(e.test, env)) else e.orelse, env)
        if isinstance(e, ast.Compare):
            left = self.ev(e.left, env)
            for op, rn in zip(e.ops, e.comparators):
                right = self.ev(rn, env)
                if not self._cmp(op, left, right, e):
                    return False
                left = right
            return True
        if isinstance(e, ast.BinOp):
            return self._binop(e.op, self.ev(e.left, env), self.ev(e.right, env), e)
        if isinstance(e, ast.Subscript):
            box = self.ev(e.value, env)
            return self._getitem(box, self._index(e.slice, env), e)
        if isinstance(e, ast.Slice):
            return self._index(e, env)
        if isinstance(e, (ast.Tuple, ast.List, ast.Set)):
            vals = []
            for x in e.elts:
                if isinstance(x, ast.Starred):
                    vals.extend(self._iter(self.ev(x.value, env), x))
                else:
                    vals.append(self.ev(x, env))
            return tuple(vals) if isinstance(e, ast.Tuple) else (set(vals) if isinstance(e, ast.Set) else vals)
        if isinstance(e, ast.Dict):
            out = {}
            for k, v in zip(e.keys, e.values):
                if k is None:
                    d = self.ev(v, env)
                    if not isinstance(d, dict):
                        raise Unsupported(f"`**` of {d!r}")
                    out.update(d)
                else:
                    out[self._key(self.ev(k, env))] = self.ev(v, env)
            return out
        if isinstance(e, (ast.ListComp, ast.SetComp, ast.GeneratorExp, ast.DictComp)):
            return self._comp(e, env)
        if isinstance(e, ast.Call):
            return self._call(e, env)
        if isinstance(e, ast.Starred):
            raise Unsupported("starred expression")
        raise Unsupported(f"expression `{unparse(e)[:60]}`")

    def getattr(self, base, attr: str, e=None):
        if isinstance(base, Obj):
            if attr in base.attrs:
                return base.attrs[attr]
            return self.missing_attr(base, attr)
        for typ, names in _CONTAINER_METHODS.items():
            if isinstance(base, typ) and attr in names:
                return getattr(base, attr)
        raise Unsupported(f"attribute `{attr}` of {type(base).__name__} value" + (f" in `{unparse(e)[:50]}`" if e is not None else ""))

    def _key(self, k):
        try:
            hash(k)
        except TypeError:
            raise Unsupported(f"unhashable key {k!r}")
        return k

    def _index(self, s, env):
        if isinstance(s, ast.Slice):
            def b(x):
                if x is None:
                    return None
                v = self.num(self.ev(x, env))
                if v is not None and (isinstance(v, bool) or not isinstance(v, int)):
                    raise Unsupported(f"slice bound {v!r}")
                return v
            return slice(b(s.lower), b(s.upper), b(s.step))
        return self.ev(s, env)

    def _getitem(self, box, k, e):
        k = self.num(k) if not isinstance(k, slice) else k
        if isinstance(box, (list, tuple, str, range)):
            if isinstance(k, slice) or (isinstance(k, int) and not isinstance(k, bool)):
                self.note_slice(box, k, e)
                try:
                    return box[k]
                except IndexError:
                    raise ModelRaise(f"IndexError: `{unparse(e)[:50]}` with index {k}")
            raise Unsupported(f"index {k!r} in `{unparse(e)[:50]}`")
        if isinstance(box, dict):
            k = self._key(k)
            if k in box:
                return box[k]
            raise ModelRaise(f"KeyError: `{unparse(e)[:60]}` for key {k!r}")
        raise Unsupported(f"subscript of {box!r} in `{unparse(e)[:50]}`")

    def note_slice(self, box, k, e):
        """hook: a sequence was read at index / slice k"""

    def _iter(self, v, e=None) -> list:
        if isinstance(v, (list, tuple, set, frozenset, range, str)):
            return list(v)
        if isinstance(v, dict):
            return list(v)
        if type(v).__name__ in ("dict_keys", "dict_values", "dict_items", "enumerate", "zip", "reversed", "list_iterator", "map"):
            return list(v)
        raise Unsupported(f"iteration over {v!r}" + (f" in `{unparse(e)[:50]}`" if e is not None else ""))

    def _cmp(self, op, a, b, e):
        if isinstance(op, ast.Is):
            if isinstance(a, (int, str, bool)) and isinstance(b, (int, str, bool)):
                return type(a) is type(b) and a == b  # interned constants
            return a is b
        if isinstance(op, ast.IsNot):
            return not self._cmp(ast.Is(), a, b, e)
        if isinstance(op, (ast.In, ast.NotIn)):
            if isinstance(b, (dict, set, frozenset)):
                r = self._key(a) in b
            elif isinstance(b, (list, tuple, range)) or type(b).__name__ in ("dict_keys", "dict_values"):
                r = any(x is a or x == a for x in b)
            elif isinstance(b, str) and isinstance(a, str):
                r = a in b
            else:
                raise Unsupported(f"membership in {b!r} (`{unparse(e)[:50]}`)")
            return r == isinstance(op, ast.In)
        a, b = self.num(a), self.num(b)
        if isinstance(op, ast.Eq):
            return a == b
        if isinstance(op, ast.NotEq):
            return a != b
        if isinstance(a, Obj) or isinstance(b, Obj) or a is None or b is None:
            raise Unsupported(f"ordering comparison `{unparse(e)[:50]}` of {a!r}, {b!r}")
        try:
            if isinstance(op, ast.Lt):
                return a < b
            if isinstance(op, ast.LtE):
                return a <= b
            if isinstance(op, ast.Gt):
                return a > b
            if isinstance(op, ast.GtE):
                return a >= b
        except TypeError:
            raise Unsupported(f"ordering comparison `{unparse(e)[:50]}`")
        raise Unsupported(f"comparison `{unparse(e)[:50]}`")

    def _binop(self, op, a, b, e):
        a, b = self.num(a), self.num(b)
        try:
            if isinstance(op, ast.BitOr) and isinstance(a, dict) and isinstance(b, dict):
                return a | b
            if isinstance(op, (ast.BitOr, ast.BitAnd, ast.Sub, ast.BitXor)) and isinstance(a, (set, frozenset)) and isinstance(b, (set, frozenset)):
                return {ast.BitOr: a | b, ast.BitAnd: a & b, ast.Sub: a - b, ast.BitXor: a ^ b}[type(op)]
            if isinstance(op, ast.Add) and isinstance(a, (list, tuple, str)) and type(a) is type(b):
                return a + b
            if isinstance(op, ast.Mult) and isinstance(a, (list, tuple)) and isinstance(b, int):
                return a * b
            if isinstance(a, (int, float)) and isinstance(b, (int, float)):
                if isinstance(op, ast.Add):
                    return a + b
                if isinstance(op, ast.Sub):
                    return a - b
                if isinstance(op, ast.Mult):
                    return a * b
                if isinstance(op, ast.FloorDiv):
                    return a // b
                if isinstance(op, ast.Mod):
                    return a % b
                if isinstance(op, ast.Div):
                    return a / b
                if isinstance(op, ast.BitOr) and isinstance(a, int) and isinstance(b, int):
                    return a | b
                if isinstance(op, ast.BitAnd) and isinstance(a, int) and isinstance(b, int):
                    return a & b
        except ZeroDivisionError:
            raise ModelRaise(f"ZeroDivisionError in `{unparse(e)[:50]}`")
        raise Unsupported(f"operator in `{unparse(e)[:50]}` on {type(a).__name__}, {type(b).__name__}")

    def _comp(self, e, env):
        is_dict = isinstance(e, ast.DictComp)
        out_list: List[object] = []
        out_dict: Dict[object, object] = {}

        def rec(i, env2):
            if i == len(e.generators):
                if is_dict:
                    out_dict[self._key(self.ev(e.key, env2))] = self.ev(e.value, env2)
                else:
                    out_list.append(self.ev(e.elt, env2))
                return
            gen = e.generators[i]
            if gen.is_async:
                raise Unsupported("async comprehension")
            for x in self._iter(self.ev(gen.iter, env2), gen.iter):
                self._tick()
                env3 = dict(env2)
                self.bind(gen.target, x, env3)
                if all(self.truth(self.ev(c, env3)) for c in gen.ifs):
                    rec(i + 1, env3)

        rec(0, dict(env))
        if is_dict:
            return out_dict
        if isinstance(e, ast.SetComp):
            return set(out_list)
        return out_list

    def _call(self, e: ast.Call, env):
        args: list = []
        for a in e.args:
            if isinstance(a, ast.Starred):
                args.extend(self._iter(self.ev(a.value, env), a))
            else:
                args.append(self.ev(a, env))
        kwargs = {}
        for k in e.keywords:
            if k.arg is None:
                d = self.ev(k.value, env)
                if not isinstance(d, dict):
                    raise Unsupported(f"`**` of {d!r}")
                kwargs.update(d)
            else:
                kwargs[k.arg] = self.ev(k.value, env)
        f = e.func
        # typing.cast / util.cast: the value
        nm = f.id if isinstance(f, ast.Name) else (f.attr if isinstance(f, ast.Attribute) else None)
        if nm == "cast" and len(args) == 2 and not kwargs:
            return args[1]
        if isinstance(f, ast.Attribute):
            base = self.ev(f.value, env)
            if isinstance(base, Obj):
                if f.attr in base.attrs and callable(base.attrs[f.attr]):
                    return base.attrs[f.attr](*args, **kwargs)
                return self.call_method(base, f.attr, args, kwargs)
            fn = self.getattr(base, f.attr, e)
            return self._apply(fn, args, kwargs, e)
        if isinstance(f, ast.Name) and f.id not in env and f.id not in self.globals and f.id not in _BUILTINS:
            return self.call_function(f.id, args, kwargs)
        fn = self.ev(f, env)
        if isinstance(fn, BoundModelMethod):
            return self.call_method(fn.obj, fn.name, args, kwargs)
        return self._apply(fn, args, kwargs, e)

    def _apply(self, fn, args, kwargs, e):
        if fn is len:
            if len(args) == 1 and isinstance(args[0], Free):
                return self.num(args[0], "len")
            if len(args) == 1 and isinstance(args[0], (list, tuple, dict, set, frozenset, str, range)):
                return len(args[0])
            raise Unsupported(f"`{unparse(e)[:50]}`")
        if fn in (min, max, abs, int, bool, divmod, sorted, sum):
            args = [self.num(a) for a in args]
            if fn is bool:
                return self.truth(args[0]) if args else False
            if fn is sorted and kwargs:
                raise Unsupported(f"`{unparse(e)[:50]}`")
        if not callable(fn):
            raise Unsupported(f"call of {fn!r} in `{unparse(e)[:50]}`")
        if fn is range:
            args = [self.num(a) for a in args]
        if any(isinstance(a, Obj) for a in args) and fn in (list, tuple, set, frozenset, dict, enumerate, zip, reversed, sorted, sum, min, max, range):
            raise Unsupported(f"`{unparse(e)[:50]}` on a model object")
        ok_builtin = any(fn is b for b in _BUILTINS.values()) or (
            getattr(fn, "__self__", None) is not None and isinstance(fn.__self__, (dict, list, set, frozenset, tuple, str)))
        if not ok_builtin:
            raise Unsupported(f"call of {fn!r} in `{unparse(e)[:50]}`")
        try:
            r = fn(*args, **kwargs)
        except KeyError as ex:
            raise ModelRaise(f"KeyError {ex} in `{unparse(e)[:50]}`")
        except IndexError as ex:
            raise ModelRaise(f"IndexError {ex} in `{unparse(e)[:50]}`")
        except ZeroDivisionError:
            raise ModelRaise(f"ZeroDivisionError in `{unparse(e)[:50]}`")
        except (TypeError, ValueError) as ex:
            raise Unsupported(f"`{unparse(e)[:50]}`: {type(ex).__name__}: {ex}")
        if type(r).__name__ in ("enumerate", "zip", "reversed", "map"):
            r = list(r)
        return r

    # ------------------------------------------------------------------ assignment
    def bind(self, target, value, env):
        if isinstance(target, ast.Name):
            env[target.id] = value
        elif isinstance(target, (ast.Tuple, ast.List)):
            vals = self._iter(value, target) if not isinstance(value, (tuple, list)) else list(value)
            if any(isinstance(t, ast.Starred) for t in target.elts) or len(vals) != len(target.elts):
                raise Unsupported(f"unpacking into `{unparse(target)[:50]}`")
            for t, v in zip(target.elts, vals):
                self.bind(t, v, env)
        elif isinstance(target, ast.Attribute):
            base = self.ev(target.value, env)
            if not isinstance(base, Obj):
                raise Unsupported(f"attribute store `{unparse(target)[:50]}`")
            base.attrs[target.attr] = value
        elif isinstance(target, ast.Subscript):
            box = self.ev(target.value, env)
            k = self._index(target.slice, env)
            if isinstance(box, dict) and not isinstance(k, slice):
                box[self._key(k)] = value
            elif isinstance(box, list):
                if isinstance(k, slice):
                    self.note_slice(box, k, target)
                    box[k] = self._iter(value, target)
                else:
                    k = self.num(k)
                    try:
                        box[k] = value
                    except (IndexError, TypeError):
                        raise ModelRaise(f"IndexError: `{unparse(target)[:50]}`")
            else:
                raise Unsupported(f"item store `{unparse(target)[:50]}`")
        else:
            raise Unsupported(f"assignment target `{unparse(target)[:50]}`")

    # ------------------------------------------------------------------ statements
    def run(self, body: Sequence[ast.stmt], env: dict):
        for st in body:
            self._tick()
            self.stmt(st, env)

    def stmt(self, st, env):
        if isinstance(st, ast.Return):
            raise _Return(self.ev(st.value, env) if st.value is not None else None)
        elif isinstance(st, ast.Assign):
            v = self.ev(st.value, env)
            for t in st.targets:
                self.bind(t, v, env)
        elif isinstance(st, ast.AnnAssign):
            if st.value is not None:
                self.bind(st.target, self.ev(st.value, env), env)
        elif isinstance(st, ast.AugAssign):
            load = copy.copy(st.target)
            load.ctx = ast.Load()
            cur = self.ev(load, env)
            rhs = self.ev(st.value, env)
            if isinstance(cur, list) and isinstance(st.op, ast.Add):
                cur.extend(self._iter(rhs, st))
                new = cur
            elif isinstance(cur, dict) and isinstance(st.op, ast.BitOr) and isinstance(rhs, dict):
                cur.update(rhs)
                new = cur
            elif isinstance(cur, set) and isinstance(st.op, ast.BitOr) and isinstance(rhs, (set, frozenset)):
                cur.update(rhs)
                new = cur
            else:
                new = self._binop(st.op, cur, rhs, st)
            self.bind(st.target, new, env)
        elif isinstance(st, ast.If):
            self.run(st.body if self.truth(self.ev(st.test, env)) else st.orelse, env)
        elif isinstance(st, ast.For):
            broke = False
            for x in self._iter(self.ev(st.iter, env), st.iter):
                self._tick()
                self.bind(st.target, x, env)
                try:
                    self.run(st.body, env)
                except _Break:
                    broke = True
                    break
                except _Continue:
                    continue
            if not broke:
                self.run(st.orelse, env)
        elif isinstance(st, ast.While):
            broke = False
            while self.truth(self.ev(st.test, env)):
                self._tick()
                try:
                    self.run(st.body, env)
                except _Break:
                    broke = True
                    break
                except _Continue:
                    continue
            if not broke:
                self.run(st.orelse, env)
        elif isinstance(st, ast.Expr):
            if isinstance(st.value, ast.Constant):
                return
            if isinstance(st.value, ast.Yield):
                self.on_yield(st.value, env)
                return
            self.ev(st.value, env)
        elif isinstance(st, (ast.Pass, ast.Assert, ast.Import, ast.ImportFrom)):
            return  # internal assertions have no effect on the result
        elif isinstance(st, ast.Break):
            raise _Break()
        elif isinstance(st, ast.Continue):
            raise _Continue()
        elif isinstance(st, ast.Delete):
            for t in st.targets:
                if isinstance(t, ast.Subscript):
                    box = self.ev(t.value, env)
                    k = self._index(t.slice, env)
                    if isinstance(box, list):
                        if isinstance(k, slice):
                            self.note_slice(box, k, t)
                        try:
                            del box[k]
                        except IndexError:
                            raise ModelRaise(f"IndexError: `del {unparse(t)[:40]}`")
                    elif isinstance(box, dict) and not isinstance(k, slice):
                        if k not in box:
                            raise ModelRaise(f"KeyError: `del {unparse(t)[:40]}`")
                        del box[k]
                    else:
                        raise Unsupported(f"`del {unparse(t)[:40]}`")
                elif isinstance(t, ast.Name):
                    env.pop(t.id, None)
                else:
                    raise Unsupported(f"`del {unparse(t)[:40]}`")
        elif isinstance(st, ast.Raise):
            raise ModelRaise(f"raise `{unparse(st)[:60]}`")
        else:
            raise Unsupported(f"statement `{unparse(st).splitlines()[0][:60]}`")

    def call(self, fnode, env: dict):
        """run the body of `fnode` in `env` (parameters already bound); -> return value"""
        body = list(fnode.body)
        try:
            self.run(body, env)
        except _Return as r:
            return r.value
        except (_Break, _Continue):
            raise Unsupported("break/continue outside a loop")
        except RecursionError:
            raise Unsupported("recursion limit")
        return None


_BUILTINS = {
    "len": len, "list": list, "dict": dict, "tuple": tuple, "set": set, "frozenset": frozenset, "enumerate": enumerate,
    "zip": zip, "range": range, "min": min, "max": max, "sorted": sorted, "reversed": reversed, "bool": bool, "int": int,
    "abs": abs, "divmod": divmod, "sum": sum, "True": True, "False": False, "None": None,
}


def bind_params(fnode, args: Dict[str, object], default=None) -> dict:
    """environment for a call of `fnode` with the given keyword arguments; a missing parameter takes `default(name)`"""
    a = fnode.args
    env = {}
    for p in a.posonlyargs + a.args + a.kwonlyargs:
        if p.arg in args:
            env[p.arg] = args[p.arg]
        elif default is not None:
            env[p.arg] = default(p.arg)
        else:
            raise Unsupported(f"no model value for parameter `{p.arg}`")
    return env


# ---------------------------------------------------------------------------------------------- program slice
def stored_names(st) -> Set[str]:
    """locals a statement (with everything nested in it) binds or mutates in place: plain stores, `x[...] = ..`,
    `del x[...]`, `x.append(..)` and friends"""
    out: Set[str] = set()
    for n in ast.walk(st):
        if isinstance(n, ast.Name) and isinstance(n.ctx, (ast.Store, ast.Del)):
            out.add(n.id)
        elif isinstance(n, ast.Subscript) and isinstance(n.ctx, (ast.Store, ast.Del)) and isinstance(n.value, ast.Name):
            out.add(n.value.id)
        elif isinstance(n, ast.Call) and isinstance(n.func, ast.Attribute) and isinstance(n.func.value, ast.Name) \
                and n.func.attr in ("append", "extend", "insert", "pop", "clear", "update", "add", "remove", "discard", "setdefault", "reverse", "sort"):
            out.add(n.func.value.id)
    return out


def _own_reads(st) -> Set[str]:
    """names read by the statement itself (for compound statements: the header only)"""
    if isinstance(st, (ast.If, ast.While)):
        parts = [st.test]
    elif isinstance(st, (ast.For, ast.AsyncFor)):
        parts = [st.iter]
    elif isinstance(st, (ast.With, ast.AsyncWith, ast.Try)):
        parts = []
    else:
        parts = [st]
    return {n.id for p_ in parts for n in ast.walk(p_) if isinstance(n, ast.Name) and isinstance(n.ctx, ast.Load)} | \
        {n.value.id for p_ in parts for n in ast.walk(p_) if isinstance(n, ast.Subscript) and isinstance(n.ctx, (ast.Store, ast.Del)) and isinstance(n.value, ast.Name)}


def _terminates(body) -> bool:
    """every path through the block leaves the function (return / raise)"""
    for st in body:
        if isinstance(st, (ast.Return, ast.Raise)):
            return True
        if isinstance(st, ast.If) and st.orelse and _terminates(st.body) and _terminates(st.orelse):
            return True
    return False


def _contains(st, target) -> bool:
    return any(x is target for x in ast.walk(st))


def path_to(body: Sequence[ast.stmt], target: ast.AST) -> Optional[List[ast.stmt]]:
    """The statements executed before `target` on the executions that reach it, `target` itself last.  An `if` that
    holds the target in one arm is replaced by that arm; an `if` one arm of which always leaves the function is
    replaced by the other arm (the executions that reach the target did not take the leaving arm); every other
    statement is kept as it is.  None when the target is not in `body`."""
    out: List[ast.stmt] = []
    for st in body:
        if st is target:
            out.append(st)
            return out
        if _contains(st, target):
            if isinstance(st, ast.If):
                for arm in (st.body, st.orelse):
                    sub = path_to(arm, target)
                    if sub is not None:
                        return out + sub
            raise Unsupported(f"the loop is nested in `{unparse(st).splitlines()[0][:50]}`")
        if isinstance(st, ast.If):
            if _terminates(st.body) and not _terminates(st.orelse):
                out.extend(_flatten_no_target(st.orelse))
                continue
            if st.orelse and _terminates(st.orelse) and not _terminates(st.body):
                out.extend(_flatten_no_target(st.body))
                continue
        out.append(st)
    return None


def _flatten_no_target(body):
    out = []
    for st in body:
        if isinstance(st, ast.If):
            if _terminates(st.body) and not _terminates(st.orelse):
                out.extend(_flatten_no_target(st.orelse))
                continue
            if st.orelse and _terminates(st.orelse) and not _terminates(st.body):
                out.extend(_flatten_no_target(st.body))
                continue
        out.append(st)
    return out


def relevant_closure(stmts: Sequence[ast.stmt], seeds: Iterable[str], ignore: Iterable[str] = ()) -> Set[str]:
    """Backward closure of `seeds` over the data and control dependences of the statement list: a statement that
    binds a relevant name makes the names it reads relevant, and so do the tests / iterables of the compound
    statements around it."""
    ignore = set(ignore)
    rel = set(seeds) - ignore
    changed = True

    def visit(block, ctrl: Set[str]):
        nonlocal changed
        for st in block:
            if isinstance(st, (ast.FunctionDef, ast.AsyncFunctionDef, ast.ClassDef)):
                continue
            if isinstance(st, (ast.If, ast.While, ast.For, ast.AsyncFor, ast.With, ast.AsyncWith, ast.Try)):
                inner_ctrl = ctrl | _own_reads(st)
                if isinstance(st, (ast.For, ast.AsyncFor)):
                    tgt = {n.id for n in ast.walk(st.target) if isinstance(n, ast.Name)}
                    if tgt & rel:
                        new = (inner_ctrl - ignore) - rel
                        if new:
                            rel.update(new)
                            changed = True
                for blk in _blocks(st):
                    visit(blk, inner_ctrl)
                continue
            binds = bool(stored_names(st) & rel)
            if binds or _has_jump(st):
                # a jump / yield matters for WHEN it happens (the tests around it), not for what it carries
                new = (((_own_reads(st) if binds else set()) | ctrl) - ignore) - rel
                if new:
                    rel.update(new)
                    changed = True

    while changed:
        changed = False
        visit(stmts, set())
    return rel


def _has_jump(st) -> bool:
    return isinstance(st, (ast.Break, ast.Continue, ast.Return)) or (isinstance(st, ast.Expr) and isinstance(st.value, (ast.Yield, ast.YieldFrom)))


def _blocks(st):
    for name in ("body", "orelse", "finalbody"):
        b = getattr(st, name, None)
        if b:
            yield b
    for h in getattr(st, "handlers", []) or []:
        yield h.body


def prune(stmts: Sequence[ast.stmt], rel: Set[str]) -> List[ast.stmt]:
    """copy of the statement list without the simple statements that neither bind a relevant name nor jump / yield,
    and without the compound statements that hold none"""
    out: List[ast.stmt] = []
    for st in stmts:
        if isinstance(st, (ast.FunctionDef, ast.AsyncFunctionDef, ast.ClassDef)):
            continue
        if isinstance(st, (ast.If, ast.While, ast.For, ast.AsyncFor)):
            c = copy.copy(st)
            c.body = prune(st.body, rel)
            c.orelse = prune(st.orelse, rel)
            keep = bool(c.body or c.orelse)
            if isinstance(st, (ast.For, ast.AsyncFor)) and {n.id for n in ast.walk(st.target) if isinstance(n, ast.Name)} & rel:
                keep = True
            if keep:
                if not c.body:
                    c.body = [ast.Pass()]
                out.append(c)
            continue
        if isinstance(st, (ast.With, ast.AsyncWith, ast.Try)):
            if stored_names(st) & rel or any(_has_jump(x) for x in ast.walk(st) if isinstance(x, ast.stmt)):
                raise Unsupported(f"`{unparse(st).splitlines()[0][:50]}` takes part in the bookkeeping")
            continue
        if stored_names(st) & rel or _has_jump(st):
            out.append(st)
    return out


# ---------------------------------------------------------------------------------------------- last store on a path
def last_stores_through(g, n: int, stores: Iterable[int], edge_ok=None) -> Tuple[Set[int], bool]:
    """For the executions that pass CFG node `n` and then leave the function normally: the nodes of `stores` that can
    be the LAST one executed (before or after `n`), and whether an execution exists on which none is executed."""
    S = set(stores)
    last: Set[int] = set()
    after = {s for s in S if s in g.reachable([n], edge_ok=edge_ok, include_starts=False)}
    for s in after:
        if g.witness([s], [g.exit], avoid=S - {s}, edge_ok=edge_ok) is not None or s == g.exit:
            last.add(s)
    none = False
    if n in S:
        if g.witness([n], [g.exit], avoid=S - {n}, edge_ok=edge_ok) is not None:
            last.add(n)
    elif g.witness([n], [g.exit], avoid=S, edge_ok=edge_ok) is not None:
        for s in S:
            if g.witness([s], [n], avoid=S - {s}, edge_ok=edge_ok) is not None:
                last.add(s)
        if n == g.entry or g.witness([g.entry], [n], avoid=S, edge_ok=edge_ok) is not None:
            none = True
    return last, none


# ---------------------------------------------------------------------------------------------- boolean expressions
def _atom_text(e) -> Optional[str]:
    if isinstance(e, (ast.Name, ast.Attribute)):
        from ..astutil import dotted
        return dotted(e)
    if isinstance(e, ast.Compare):
        return unparse(e)
    return None


def possible_truth(expr: ast.expr, fixed: Optional[Dict[str, bool]] = None, max_atoms: int = 8) -> Set[bool]:
    """Truth values a boolean expression over opaque atoms (names, attribute chains, comparisons) can take when the
    atoms in `fixed` have the given truth value and all others are free.  Unsupported for anything else (calls ...)."""
    fixed = dict(fixed or {})
    atoms: List[str] = []

    def collect(e):
        if isinstance(e, ast.Constant):
            return
        if isinstance(e, ast.UnaryOp) and isinstance(e.op, ast.Not):
            return collect(e.operand)
        if isinstance(e, ast.BoolOp):
            for v in e.values:
                collect(v)
            return
        if isinstance(e, ast.IfExp):
            for v in (e.test, e.body, e.orelse):
                collect(v)
            return
        t = _atom_text(e)
        if t is None or any(isinstance(x, ast.Call) for x in ast.walk(e)):
            raise Unsupported(f"boolean expression `{unparse(e)[:60]}`")
        if t not in atoms:
            atoms.append(t)

    collect(expr)
    free = [a for a in atoms if a not in fixed]
    if len(free) > max_atoms:
        raise Unsupported(f"too many atoms in `{unparse(expr)[:60]}`")

    def ev(e, asg):
        if isinstance(e, ast.Constant):
            return bool(e.value)
        if isinstance(e, ast.UnaryOp):
            return not ev(e.operand, asg)
        if isinstance(e, ast.BoolOp):
            vals = [ev(v, asg) for v in e.values]
            return all(vals) if isinstance(e.op, ast.And) else any(vals)
        if isinstance(e, ast.IfExp):
            return ev(e.body, asg) if ev(e.test, asg) else ev(e.orelse, asg)
        return asg[_atom_text(e)]

    out: Set[bool] = set()
    for bits in range(1 << len(free)):
        asg = dict(fixed)
        for i, a in enumerate(free):
            asg[a] = bool(bits >> i & 1)
        out.add(ev(expr, asg))
    return out
