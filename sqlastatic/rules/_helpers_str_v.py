"""Helpers of the str-v strengthening pass (C55): the two BUILD VARIANTS of a function and a small abstract
description of each variant that is necessary for the two builds to be interchangeable.

* `specialise(fn, pol)`  -- copy of a function in which every `if cython.compiled:` (statement or conditional
                            expression) is replaced by the arm of build `pol` (True = compiled).
* `Variant`              -- one variant with a flow-insensitive abstract value per expression
                            (`AV`: which parameters the value may BE, which parameters it is derived from,
                            which container kind it has; meaning of builtins / C-API from
                            oracles/python_value_builders.json) and the features read off it:
    - `returns()`        container kinds and may-alias-parameter set of the returned values
    - `mutations()`      (parameter, what, stored value) for every store into / mutator call on a parameter alias
    - `raises()`         explicitly raised exception names, parameters constrained by `assert`
    - `applications()`   every call of a callable that is not a builtin: callee, arguments, the guard atoms that
                         dominate it (lexical + comprehension filters + early exits), split into guards that
                         depend on the values passed and other guards, and the loops it runs in
    - `hashing()`        parameters every element of which is hashed on every returning path
* `call_site_shapes`     -- how a caller computes the argument bound to an arm-private parameter
                            (`len(V)`, indexes of V where <filter>, empty) in terms of another argument V.

Everything is a necessary-condition description: equal descriptions do not prove equal behaviour, different
descriptions of the listed kinds do show a behavioural difference.  Shapes that are not understood are returned as
opaque tokens (`?...`); the rule turns a disagreement that involves an opaque token into an AnalysisError.
"""

from __future__ import annotations

import ast
import builtins
import copy
from dataclasses import dataclass
from typing import Dict, List, Optional, Tuple

from ..astutil import (
    MUTATING_METHODS, FuncNode, ancestors, call_name, const_str, dotted, enclosing_stmt, lexical_guards,
    parent_map, raised_name, test_atoms, unparse, walk_local,
)
from ..errors import AnalysisError
from ..oracles import load, python_mutators

CONTAINER = frozenset({"list", "tuple", "set", "dict", "frozenset", "bytearray"})
COMPS = (ast.ListComp, ast.SetComp, ast.GeneratorExp, ast.DictComp)
BUILTIN_TYPES = {"set", "list", "dict", "tuple", "object", "str", "frozenset", "bytes", "type"}


def is_compiled_test(test) -> Optional[bool]:
    neg = False
    if isinstance(test, ast.UnaryOp) and isinstance(test.op, ast.Not):
        neg, test = True, test.operand
    if dotted(test) == "cython.compiled":
        return not neg
    return None


class _Spec(ast.NodeTransformer):
    def __init__(self, pol: bool):
        self.pol = pol

    def visit_If(self, node):
        c = is_compiled_test(node.test)
        if c is None:
            return self.generic_visit(node)
        arm = node.body if c == self.pol else node.orelse
        out = []
        for st in arm:
            r = self.visit(st)
            if isinstance(r, list):
                out.extend(r)
            elif r is not None:
                out.append(r)
        return out or [ast.copy_location(ast.Pass(), node)]

    def visit_IfExp(self, node):
        c = is_compiled_test(node.test)
        if c is None:
            return self.generic_visit(node)
        return self.visit(node.body if c == self.pol else node.orelse)


def _inline_global_aliases(fn: ast.AST) -> None:
    """`setter = object.__setattr__` / `add = set.add` / `size_of = len` (a local bound exactly once, by a plain
    assignment, to a Name / attribute chain whose root is NOT a local or parameter of the function): every read of the
    local is replaced by the chain, in place.  The meaning of builtins / C-API calls is looked up by dotted name; a local
    alias of one must not make the call unknown.  (rob-H2)"""
    a = fn.args
    params = {x.arg for x in a.posonlyargs + a.args + a.kwonlyargs} | {x.arg for x in (a.vararg, a.kwarg) if x is not None}
    stores: Dict[str, int] = {}
    vals: Dict[str, ast.AST] = {}
    for n in ast.walk(fn):
        if isinstance(n, ast.Name) and isinstance(n.ctx, (ast.Store, ast.Del)):
            stores[n.id] = stores.get(n.id, 0) + 1
        elif isinstance(n, (ast.FunctionDef, ast.AsyncFunctionDef, ast.ClassDef)) and n is not fn:
            stores[n.name] = stores.get(n.name, 0) + 1
            for x in n.args.posonlyargs + n.args.args + n.args.kwonlyargs if not isinstance(n, ast.ClassDef) else []:
                stores[x.arg] = stores.get(x.arg, 0) + 2
        elif isinstance(n, (ast.Global, ast.Nonlocal)):
            for nm in n.names:
                stores[nm] = stores.get(nm, 0) + 2
        elif isinstance(n, ast.ExceptHandler) and n.name:
            stores[n.name] = stores.get(n.name, 0) + 2
        elif isinstance(n, (ast.Import, ast.ImportFrom)):
            for al in n.names:
                nm = (al.asname or al.name).split(".")[0]
                stores[nm] = stores.get(nm, 0) + 2
    local_names = set(stores) | params
    for st in walk_local(fn):
        if isinstance(st, ast.Assign) and len(st.targets) == 1 and isinstance(st.targets[0], ast.Name):
            v = st.value
            root = v
            while isinstance(root, ast.Attribute):
                root = root.value
            if isinstance(v, (ast.Name, ast.Attribute)) and isinstance(root, ast.Name) and root.id not in local_names \
                    and stores.get(st.targets[0].id) == 1 and st.targets[0].id not in params:
                vals[st.targets[0].id] = v
    if not vals:
        return

    class T(ast.NodeTransformer):
        def visit_Name(self, n):
            if isinstance(n.ctx, ast.Load) and n.id in vals:
                new = copy.deepcopy(vals[n.id])
                for x in ast.walk(new):
                    ast.copy_location(x, n)
                return new
            return n

    fn.body = [T().visit(st) for st in fn.body]
    ast.fix_missing_locations(fn)


def specialise(fn: ast.AST, pol: bool) -> ast.AST:
    new = _Spec(pol).visit(copy.deepcopy(fn))
    left = [n for n in ast.walk(new) if isinstance(n, ast.Attribute) and dotted(n) == "cython.compiled"]
    if left:
        raise AnalysisError(f"`cython.compiled` used in a shape that is not a plain if/else test (line {left[0].lineno} of {getattr(fn, 'name', '?')})")
    return new


@dataclass(frozen=True)
class AV:
    alias: frozenset = frozenset()   # parameters the value may BE (same object)
    roots: frozenset = frozenset()   # parameters the value is derived from (itself, an element, a copy, a function of it)
    kinds: frozenset = frozenset()   # container kinds / scalar kinds / opaque tokens

    def __or__(self, o: "AV") -> "AV":
        return AV(self.alias | o.alias, self.roots | o.roots, self.kinds | o.kinds)


BOTTOM = AV()


def _k(*kinds) -> frozenset:
    return frozenset(kinds)


def _fmt_roots(roots) -> str:
    return "<" + "+".join(sorted(roots)) + ">"


# A root says HOW a value derives from a parameter p:  "p" the whole content (p itself or a copy of it),
# "p[]" an element, "p#" its size, "p~" any other function of it.
def root_base(r: str) -> str:
    return r.rstrip("[]#~")


def _r_elem(roots) -> frozenset:
    return frozenset(r if r.endswith("[]") else (r + "[]" if r == root_base(r) else root_base(r) + "~") for r in roots)


def _r_size(roots) -> frozenset:
    return frozenset(r + "#" if r == root_base(r) else root_base(r) + "~" for r in roots)


def _r_other(roots) -> frozenset:
    return frozenset(root_base(r) + "~" for r in roots)


def whole_roots(roots) -> frozenset:
    return frozenset(r for r in roots if r == root_base(r))


def fmt_atoms(atoms) -> str:
    if not atoms:
        return "no condition"
    return " and ".join(sorted(t if p else f"not ({t})" for t, p in atoms))


@dataclass(frozen=True)
class App:
    callee: str
    derived: bool                 # callee comes from a parameter (an arbitrary callable supplied by the caller)
    args: tuple
    arg_guards: frozenset         # guard atoms that depend on the values passed
    other_guards: frozenset
    loops: tuple                  # ((kind, frozenset(roots) | text), ...) outermost first
    line: int
    text: str


def _split(test, pol):
    if isinstance(test, ast.UnaryOp) and isinstance(test.op, ast.Not):
        return _split(test.operand, not pol)
    if isinstance(test, ast.BoolOp) and ((isinstance(test.op, ast.And) and pol) or (isinstance(test.op, ast.Or) and not pol)):
        out = []
        for v in test.values:
            out.extend(_split(v, pol))
        return out
    return [(test, pol)]


class Variant:
    """One build's variant of a function."""

    def __init__(self, ctx, fn: ast.AST, pol: bool, label: str):
        self.ctx, self.pol, self.label = ctx, pol, label
        self.fn = specialise(fn, pol)
        _inline_global_aliases(self.fn)
        ctx.__dict__.setdefault("_strv_keep", []).append(self.fn)  # ctx.cfg caches by id(): keep the node alive
        self.pm = parent_map(self.fn)
        a = self.fn.args
        self.params = [x.arg for x in a.posonlyargs + a.args + a.kwonlyargs]
        self.params += [x.arg for x in (a.vararg, a.kwarg) if x is not None]
        self.O = load("python_value_builders.json")
        self.mutators = set(MUTATING_METHODS)
        for t in ("list", "set", "dict"):
            m, o = python_mutators(t)
            self.mutators |= set(m) | set(o)
        self.bind: Dict[str, List[Tuple[str, ast.AST]]] = {}
        self.declared_free = set()
        self._g = None
        self._reach_memo = {}
        for n in self.nodes():
            self._collect(n)

    # ------------------------------------------------------------------ structure
    def nodes(self):
        for st in self.fn.body:
            yield st
            if not isinstance(st, (ast.FunctionDef, ast.AsyncFunctionDef, ast.ClassDef, ast.Lambda)):
                yield from walk_local(st)

    def cfg(self):
        if self._g is None:
            self._g = self.ctx.cfg(self.fn)
        return self._g

    def param_reads(self) -> set:
        """parameters read anywhere in the variant (nested closures included)"""
        ps = set(self.params)
        return {n.id for st in self.fn.body for n in ast.walk(st) if isinstance(n, ast.Name) and isinstance(n.ctx, ast.Load) and n.id in ps}

    def _add(self, name, how, v, owner):
        self.bind.setdefault(name, []).append((how, v, owner))

    def _bind_target(self, t, how, value, owner):
        if isinstance(t, ast.Name):
            self._add(t.id, how, value, owner)
        elif isinstance(t, (ast.Tuple, ast.List)):
            for e in t.elts:
                self._bind_target(e, "part", value, owner)
        elif isinstance(t, ast.Starred):
            self._bind_target(t.value, "part", value, owner)

    def _bind_iter(self, target, it, owner):
        if isinstance(target, ast.Tuple) and len(target.elts) == 2 and all(isinstance(e, ast.Name) for e in target.elts) \
                and isinstance(it, ast.Call) and call_name(it) == "enumerate" and it.args:
            self._add(target.elts[0].id, "index", it.args[0], owner)
            self._add(target.elts[1].id, "elem", it.args[0], owner)
            return
        if isinstance(target, ast.Tuple) and isinstance(it, ast.Call) and call_name(it) == "zip" and not it.keywords \
                and len(it.args) == len(target.elts) and not any(isinstance(a, ast.Starred) for a in it.args):
            for t, a in zip(target.elts, it.args):
                self._bind_iter(t, a, owner)
            return
        for n in ast.walk(target):
            if isinstance(n, ast.Name):
                self._add(n.id, "elem", it, owner)

    def _collect(self, n):
        """bindings (how, value, owner): owner = the statement (or comprehension clause) that makes the binding"""
        if isinstance(n, ast.Assign):
            for t in n.targets:
                self._bind_target(t, "val", n.value, n)
        elif isinstance(n, ast.AnnAssign):
            if n.value is not None:
                self._bind_target(n.target, "val", n.value, n)
        elif isinstance(n, ast.AugAssign):
            self._bind_target(n.target, "aug", n.value, n)
        elif isinstance(n, (ast.For, ast.AsyncFor)):
            self._bind_iter(n.target, n.iter, n)
        elif isinstance(n, ast.comprehension):
            self._bind_iter(n.target, n.iter, n)
        elif isinstance(n, ast.NamedExpr):
            self._bind_target(n.target, "val", n.value, enclosing_stmt(self.pm, n))
        elif isinstance(n, (ast.FunctionDef, ast.AsyncFunctionDef, ast.ClassDef)):
            self._add(n.name, "def", n, n)
        elif isinstance(n, (ast.With, ast.AsyncWith)):
            for it in n.items:
                if it.optional_vars is not None:
                    self._bind_target(it.optional_vars, "val", it.context_expr, n)
        elif isinstance(n, ast.ExceptHandler) and n.name:
            self._add(n.name, "opaque", n, n)
        elif isinstance(n, (ast.Import, ast.ImportFrom)):
            for al in n.names:
                self._add((al.asname or al.name).split(".")[0], "opaque", n, n)
        elif isinstance(n, (ast.Global, ast.Nonlocal)):
            self.declared_free |= set(n.names)

    # ------------------------------------------------------------------ reaching definitions of a name read
    def _reaches(self, g, starts, targets, kill) -> bool:
        seen, todo = set(), list(starts)
        while todo:
            n = todo.pop()
            if n in seen:
                continue
            seen.add(n)
            if n in targets:
                return True
            if n in kill:
                continue
            todo.extend(b for b, _lab in g.succ[n])
        return False

    def defs_at(self, e: ast.Name):
        """(bindings of e.id that can reach this read, does the parameter's entry value reach it?)"""
        nm = e.id
        binds = self.bind.get(nm, [])
        is_param = nm in self.params
        for anc in ancestors(self.pm, e):
            if isinstance(anc, FuncNode + (ast.Lambda,)):
                break
            if isinstance(anc, COMPS):
                for gen in anc.generators:
                    if any(isinstance(x, ast.Name) and x.id == nm for x in ast.walk(gen.target)):
                        return [b for b in binds if b[2] is gen], False
        sb = [b for b in binds if not isinstance(b[2], ast.comprehension)]
        st = enclosing_stmt(self.pm, e)
        if len(sb) + (1 if is_param else 0) <= 1 or st is None or st is self.fn:
            return sb, is_param
        key = (nm, id(st))
        if key not in self._reach_memo:
            g = self.cfg()
            targets = set(g.nodes_for(st))
            if not targets:
                self._reach_memo[key] = (sb, is_param)
            else:
                kill = {n for b in sb for n in g.nodes_for(b[2])}
                reach = []
                for b in sb:
                    starts = [t for n in g.nodes_for(b[2]) for t, lab in g.succ[n] if lab != "exc"]
                    if self._reaches(g, starts, targets, kill):
                        reach.append(b)
                entry = is_param and self._reaches(g, [g.entry], targets, kill)
                if not reach and not entry:   # nothing reaches (dead code / unusual shape): stay conservative
                    reach, entry = sb, is_param
                self._reach_memo[key] = (reach, entry)
        return self._reach_memo[key]

    def is_local(self, name) -> bool:
        return name in self.bind and name not in self.params

    # ------------------------------------------------------------------ abstract values
    def av(self, e, stack=()) -> AV:
        if e is None:
            return AV(kinds=_k("NoneType"))
        if len(stack) > 12:
            return AV(kinds=_k("?deep"))
        if isinstance(e, ast.Name):
            nm = e.id
            out = BOTTOM
            known = nm in self.params or nm in self.bind
            if known:
                binds, entry = self.defs_at(e)
                if entry:
                    out |= AV(_k(nm), _k(nm), _k("param"))
                for how, v, owner in binds:
                    k = (nm, id(owner))
                    if k in stack:
                        continue
                    if how == "aug":   # x op= v: the previous value of x flows on as well
                        prev = ast.copy_location(ast.Name(id=nm, ctx=ast.Load()), owner)
                        self.pm[prev] = owner
                        out |= self.av(prev, stack + (k,))
                        out |= AV(roots=self.av(v, stack + (k,)).roots)
                    else:
                        out |= self._bound(how, v, stack + (k,))
            if not known or nm in self.declared_free:
                out |= AV(kinds=_k(f"free:{nm}"))
            return out
        if isinstance(e, ast.Constant):
            return AV(kinds=_k(type(e.value).__name__))
        if isinstance(e, ast.JoinedStr):
            return AV(kinds=_k("str"))
        if isinstance(e, (ast.List, ast.Tuple, ast.Set)):
            r = frozenset().union(*[self.av(x, stack).roots for x in e.elts]) if e.elts else frozenset()
            if len(e.elts) == 1 and isinstance(e.elts[0], ast.Starred):
                pass   # [*x] / (*x,): a copy of the whole content
            else:
                r = _r_other(r)
            return AV(roots=r, kinds=_k({ast.List: "list", ast.Tuple: "tuple", ast.Set: "set"}[type(e)]))
        if isinstance(e, ast.Dict):
            r = frozenset().union(*[self.av(x, stack).roots for x in list(e.keys) + list(e.values) if x is not None]) if e.values else frozenset()
            return AV(roots=_r_other(r), kinds=_k("dict"))
        if isinstance(e, COMPS):
            r = frozenset()
            for g in e.generators:
                r |= _r_other(self.av(g.iter, stack).roots)
            kind = {ast.ListComp: "list", ast.SetComp: "set", ast.GeneratorExp: "gen", ast.DictComp: "dict"}[type(e)]
            return AV(roots=r, kinds=_k(kind))
        if isinstance(e, ast.Starred):
            return self.av(e.value, stack)
        if isinstance(e, ast.NamedExpr):
            return self.av(e.value, stack)
        if isinstance(e, ast.IfExp):
            return self.av(e.body, stack) | self.av(e.orelse, stack)
        if isinstance(e, ast.BoolOp):
            out = BOTTOM
            for v in e.values:
                out |= self.av(v, stack)
            return out
        if isinstance(e, ast.Compare):
            r = self.av(e.left, stack).roots
            for c in e.comparators:
                r |= self.av(c, stack).roots
            return AV(roots=r, kinds=_k("bool"))
        if isinstance(e, ast.UnaryOp):
            v = self.av(e.operand, stack)
            return AV(roots=v.roots, kinds=_k("bool") if isinstance(e.op, ast.Not) else _k("?unary"))
        if isinstance(e, ast.BinOp):
            a, b = self.av(e.left, stack), self.av(e.right, stack)
            ks = a.kinds if (a.kinds == b.kinds and len(a.kinds) == 1 and a.kinds <= (CONTAINER | {"int", "str"})) else _k("?binop")
            return AV(roots=_r_other(a.roots | b.roots), kinds=ks)
        if isinstance(e, ast.Subscript):
            v = self.av(e.value, stack)
            if isinstance(e.slice, ast.Slice):
                ks = v.kinds & CONTAINER
                return AV(roots=v.roots, kinds=ks if ks and ks == v.kinds else _k("slice"))
            return self._elem(v)
        if isinstance(e, ast.Attribute):
            return AV(roots=_r_other(self.av(e.value, stack).roots), kinds=_k("attr"))
        if isinstance(e, ast.Lambda):
            return AV(kinds=_k("lambda"))
        if isinstance(e, ast.Call):
            return self._call(e, stack)
        return AV(kinds=_k("?" + type(e).__name__))

    def _elem(self, v: AV) -> AV:
        if v.kinds and v.kinds <= {"range"}:
            return AV(kinds=_k("int"))
        return AV(roots=_r_elem(v.roots), kinds=_k("elem"))

    def _bound(self, how, v, stack) -> AV:
        if how == "val":
            return self.av(v, stack)
        if how in ("part", "elem"):
            return self._elem(self.av(v, stack))
        if how == "index":
            return AV(kinds=_k("int"))
        if how == "def":
            return AV(kinds=_k(f"def:{v.name}"))
        return AV(kinds=_k("?"))

    def _shadowed(self, nm: str) -> bool:
        base = nm.split(".")[0]
        return base in self.bind or base in self.params

    def _call(self, c: ast.Call, stack) -> AV:
        nm = call_name(c) or ""
        O = self.O
        args = [self.av(a, stack) for a in c.args] + [self.av(k.value, stack) for k in c.keywords]
        roots = frozenset().union(*[a.roots for a in args]) if args else frozenset()
        if nm and not self._shadowed(nm):
            if nm == "cython.cast" and len(c.args) == 2:
                return args[1]
            if nm in O["constructors"]:
                return AV(roots=roots, kinds=_k(O["constructors"][nm]))
            if nm in O["same_type_identity"]:
                # tuple(t) may be t itself, but only when t already is an (immutable) tuple: the identity is not
                # observable through mutation, so the result is not tracked as an alias of the argument
                return AV(roots=roots, kinds=_k(O["same_type_identity"][nm]))
            if nm in O["scalars"]:
                sized = nm in ("len", "PyList_GET_SIZE", "PyTuple_GET_SIZE")
                return AV(roots=_r_size(roots) if sized else _r_other(roots), kinds=_k(O["scalars"][nm]))
            if nm == "range":
                return AV(kinds=_k("range"))
            if nm in O["iterators"]:
                return AV(roots=roots if nm in ("enumerate", "reversed", "iter", "zip") else _r_other(roots), kinds=_k("iter"))
            if nm in O["noop"] or nm in O["store_into_arg0"] or nm in O["setattr_arg0"]:
                return AV(kinds=_k("NoneType"))
        if isinstance(c.func, ast.Attribute) and c.func.attr in self.mutators:
            base = c.func.value
            recv = args[0] if (isinstance(base, ast.Name) and base.id in BUILTIN_TYPES and not self._shadowed(base.id) and c.args) else self.av(base, stack)
            if recv.kinds and recv.kinds <= CONTAINER or (isinstance(base, ast.Name) and base.id in BUILTIN_TYPES):
                return AV(roots=_r_other(roots), kinds=_k("NoneType") if c.func.attr not in ("pop", "popitem", "setdefault") else _k("elem"))
        tok, _ = self.callee_token(c.func)
        al = frozenset().union(*[a.alias for a in args]) if args else frozenset()
        return AV(roots=_r_other(roots | self.av(c.func, stack).roots), kinds=_k(f"?{tok}({','.join(sorted(al))})"))

    def tok(self, e) -> str:
        """canonical token of a value (argument position, stored value)"""
        v = self.av(e)
        if v.alias:
            return "<=" + "+".join(sorted(v.alias)) + ">"
        if v.roots:
            return _fmt_roots(v.roots)
        if isinstance(e, ast.Constant):
            return repr(e.value)
        return "|".join(sorted(v.kinds)) or "?"

    # ------------------------------------------------------------------ callees
    def callee_token(self, f) -> Tuple[str, bool]:
        d = dotted(f)
        if d and (d.startswith("self.") or d.startswith("cls.")):
            return d, False
        v = self.av(f) if not isinstance(f, ast.Call) else BOTTOM
        if v.roots:
            suffix = "." + f.attr if isinstance(f, ast.Attribute) else ""
            return _fmt_roots(v.roots) + suffix, True
        if isinstance(f, ast.Name):
            return "|".join(sorted(v.kinds)) or f.id, False
        return d or unparse(f), False

    def known_call(self, c: ast.Call) -> bool:
        nm = call_name(c) or ""
        O = self.O
        if nm and not self._shadowed(nm):
            if nm == "cython.cast" or nm.startswith("cython."):
                return True
            if any(nm in O[t] for t in ("constructors", "same_type_identity", "scalars", "noop", "store_into_arg0")) \
                    or nm in O["iterators"] or nm in O["setattr_arg0"]:
                return True
            if isinstance(c.func, ast.Name) and hasattr(builtins, nm):
                return True
            parts = nm.split(".")
            if len(parts) == 2 and parts[0] in BUILTIN_TYPES and hasattr(getattr(builtins, parts[0]), parts[1]):
                return True
        if isinstance(c.func, ast.Attribute):
            recv = self.av(c.func.value)
            if recv.kinds and recv.kinds <= (CONTAINER | {"slice"}) and not recv.alias:
                return True   # method of a container built here
            if recv.alias and c.func.attr in self.mutators:
                return True   # recorded by mutations()
        return False

    # ------------------------------------------------------------------ guards
    def guards(self, node) -> List[Tuple[ast.expr, bool]]:
        out, seen = [], set()

        def add(t, p):
            if (id(t), p) not in seen:
                seen.add((id(t), p))
                out.append((t, p))

        for t, p in lexical_guards(self.pm, node):
            add(t, p)
        child = node
        prev = None
        for anc in ancestors(self.pm, node):
            if isinstance(anc, FuncNode + (ast.Lambda,)):
                break
            if isinstance(anc, COMPS):
                gens = anc.generators
                k = [i for i, g in enumerate(gens) if g is child]
                if k:
                    g = gens[k[0]]
                    for g2 in gens[:k[0]]:
                        for t in g2.ifs:
                            add(t, True)
                    if prev is not None and any(prev is t for t in g.ifs):
                        for t in g.ifs[:[i for i, t in enumerate(g.ifs) if t is prev][0]]:
                            add(t, True)
                else:
                    for g in gens:
                        for t in g.ifs:
                            add(t, True)
            prev, child = child, anc
        st = enclosing_stmt(self.pm, node)
        if st is not None and st is not self.fn:
            g = self.cfg()
            per = [{(id(t), p): (t, p) for t, p in g.edge_guards(i)} for i in g.nodes_for(st)]
            if per:
                common = set(per[0])
                for d in per[1:]:
                    common &= set(d)
                for key in sorted(common, key=lambda k: (getattr(per[0][k][0], "lineno", 0), getattr(per[0][k][0], "col_offset", 0))):
                    add(*per[0][key])
        return out

    def _subst(self, e):
        """copy of `e` in which maximal call-free Name/Subscript/Attribute sub-expressions are replaced by a token for
        where their value comes from (decided on the ORIGINAL nodes: name reads are flow-sensitive)"""
        repl = {}

        def visit(n):
            if isinstance(n, (ast.Name, ast.Subscript, ast.Attribute)):
                r = self._sub1(n)
                if r is not None:
                    repl[id(n)] = r
                    return
            for c in ast.iter_child_nodes(n):
                visit(c)

        visit(e)
        cp = copy.deepcopy(e)
        idmap = {id(c): repl[id(o)] for o, c in zip(ast.walk(e), ast.walk(cp)) if id(o) in repl}

        class T(ast.NodeTransformer):
            def visit(self, n):
                if id(n) in idmap:
                    return idmap[id(n)]
                return self.generic_visit(n)

        return ast.fix_missing_locations(T().visit(cp))

    def _sub1(self, n):
        d = dotted(n)
        if d and (d.startswith("self.") or d.startswith("cls.")) and "()" not in d:
            return ast.Name(id=d, ctx=ast.Load())
        if any(isinstance(x, ast.Call) for x in ast.walk(n)):
            return None
        v = self.av(n)
        if v.alias:
            return ast.Name(id="<=" + "+".join(sorted(v.alias)) + ">", ctx=ast.Load())
        if v.roots:
            return ast.Name(id=_fmt_roots(v.roots), ctx=ast.Load())
        if isinstance(n, ast.Name) and self.is_local(n.id) and not any(k.startswith(("def:", "free:")) for k in v.kinds):
            return ast.Name(id="<local:" + "|".join(sorted(v.kinds)) + ">", ctx=ast.Load())
        return None

    def canon_text(self, e) -> str:
        return unparse(self._subst(e))

    def canon(self, test, pol) -> List[Tuple[str, bool, frozenset]]:
        out = []
        for node, p in _split(test, pol):
            roots = self.av(node).roots
            txt, pp = test_atoms(self._subst(node), p)[0]
            out.append((txt, pp, roots))
        return out

    # ------------------------------------------------------------------ loops
    def _len_of(self, n, depth=0) -> Optional[frozenset]:
        """roots of X when `n` is len(X) (possibly through a local bound only to len(X))"""
        if depth > 4:
            return None
        if isinstance(n, ast.Call) and call_name(n) in ("len", "PyList_GET_SIZE", "PyTuple_GET_SIZE") and len(n.args) == 1 and not self._shadowed(call_name(n)):
            r = self.av(n.args[0]).roots
            return r or None
        if isinstance(n, ast.Name) and self.is_local(n.id):
            res = set()
            for how, v, _owner in self.defs_at(n)[0]:
                if how != "val":
                    return None
                r = self._len_of(v, depth + 1)
                if r is None:
                    return None
                res.add(r)
            if len(res) == 1:
                return res.pop()
        return None

    def _loop_tok(self, it):
        if isinstance(it, ast.Call) and call_name(it) == "cython.cast" and len(it.args) == 2:
            it = it.args[1]
        if isinstance(it, ast.Call) and call_name(it) == "range" and not self._shadowed("range"):
            if len(it.args) == 1 and not it.keywords:
                n = it.args[0]
                r = self._len_of(n)
                if r:
                    return ("over", r)
                v = self.av(n)
                if v.alias:
                    return ("range", v.alias)
            return ("range?", self.canon_text(it))
        if isinstance(it, ast.Call) and call_name(it) == "enumerate" and len(it.args) == 1 and not self._shadowed("enumerate"):
            it = it.args[0]
        v = self.av(it)
        if v.roots and not any(k.startswith("?") for k in v.kinds):
            return ("over", v.roots)
        return ("iter?", self.canon_text(it))

    def loops_of(self, node) -> tuple:
        out = []
        child, prev = node, None
        for anc in ancestors(self.pm, node):
            if isinstance(anc, FuncNode + (ast.Lambda,)):
                break
            if isinstance(anc, (ast.For, ast.AsyncFor)) and any(child is s for s in anc.body):
                out.append(self._loop_tok(anc.iter))
            elif isinstance(anc, ast.While) and any(child is s for s in anc.body):
                out.append(("while", self.canon_text(anc.test)))
            elif isinstance(anc, COMPS):
                gens = anc.generators
                k = [i for i, g in enumerate(gens) if g is child]
                if k:
                    inner = gens[:k[0]] if prev is gens[k[0]].iter else gens[:k[0] + 1]
                else:
                    inner = gens
                for g in reversed(inner):
                    out.append(self._loop_tok(g.iter))
            prev, child = child, anc
        out.reverse()
        return tuple(out)

    def _nonempty_test(self, node, pol, loop_roots) -> bool:
        """is (node, pol) the statement that a container the application loops over (or its size) is not empty?"""
        def sizeish(e):
            r = self.av(e).roots
            return bool(r) and all(root_base(x) in loop_roots and (x == root_base(x) or x.endswith("#")) for x in r)

        if isinstance(node, ast.Compare) and len(node.ops) == 1 and isinstance(node.comparators[0], ast.Constant) \
                and type(node.comparators[0].value) is int and sizeish(node.left):
            op, k = node.ops[0], node.comparators[0].value
            if pol:
                return (isinstance(op, (ast.Gt, ast.NotEq)) and k == 0) or (isinstance(op, ast.GtE) and k == 1)
            return (isinstance(op, (ast.Eq, ast.LtE)) and k == 0) or (isinstance(op, ast.Lt) and k == 1)
        if isinstance(node, (ast.Name, ast.Call, ast.Attribute)) and pol:
            return sizeish(node)
        return False

    # ------------------------------------------------------------------ features
    def applications(self) -> List[App]:
        out = []
        for c in self.nodes():
            if not isinstance(c, ast.Call):
                continue
            extra_loop = ()
            if call_name(c) == "map" and not self._shadowed("map") and len(c.args) >= 2 and not c.keywords \
                    and not (isinstance(c.args[0], ast.Name) and hasattr(builtins, c.args[0].id) and not self._shadowed(c.args[0].id)):
                # map(f, X, ...) applies f to every element of X
                tok, derived = self.callee_token(c.args[0])
                elems = [self._elem(self.av(a)) for a in c.args[1:]]
                args = tuple(_fmt_roots(v.roots) if v.roots else "|".join(sorted(v.kinds)) for v in elems)
                argroots = frozenset().union(*[v.roots for v in elems])
                extra_loop = (self._loop_tok(c.args[1]),)
            elif self.known_call(c):
                continue
            else:
                tok, derived = self.callee_token(c.func)
                args = tuple(self.tok(a) for a in c.args) + tuple(f"{k.arg}={self.tok(k.value)}" for k in c.keywords)
                argroots = frozenset()
                for a in list(c.args) + [k.value for k in c.keywords]:
                    argroots |= self.av(a).roots
            loops = self.loops_of(c) + extra_loop
            loop_roots = {r for _kind, x in loops if isinstance(x, frozenset) for r in whole_roots(x)}
            gs = []
            for t, p in self.guards(c):
                for node, pol in _split(t, p):
                    if not self._nonempty_test(node, pol, loop_roots):   # "the loop's own domain is not empty" selects nothing
                        gs.extend(self.canon(node, pol))
            out.append(App(
                tok, derived, args,
                frozenset((t, p) for t, p, r in gs if r & argroots),
                frozenset((t, p) for t, p, r in gs if not (r & argroots)),
                loops, c.lineno, unparse(c)[:60]))
        out.sort(key=lambda a: a.line)
        return out

    def returns(self) -> Tuple[frozenset, frozenset]:
        """(kinds, may-alias parameters) of everything the variant can return"""
        out = BOTTOM
        for n in self.nodes():
            if isinstance(n, ast.Return):
                out |= self.av(n.value)
            elif isinstance(n, (ast.Yield, ast.YieldFrom)):
                out |= AV(kinds=_k("generator"))
        g = self.cfg()
        for pid, _lab in g.pred[g.exit]:
            if not isinstance(g.nodes[pid].stmt, ast.Return):
                out |= AV(kinds=_k("NoneType"))
        return out.kinds - {"param"}, out.alias

    def mutations(self) -> set:
        out = set()

        def rec(base_av, what, val=""):
            for p in base_av.alias:
                out.add((p, what, val))

        def target(t, val):
            if isinstance(t, ast.Attribute):
                rec(self.av(t.value), "attr:" + t.attr, val)
            elif isinstance(t, ast.Subscript):
                rec(self.av(t.value), "item")
            elif isinstance(t, (ast.Tuple, ast.List)):
                for e in t.elts:
                    target(e, "")
            elif isinstance(t, ast.Starred):
                target(t.value, "")

        for n in self.nodes():
            if isinstance(n, ast.Assign):
                for t in n.targets:
                    target(t, self.tok(n.value))
            elif isinstance(n, ast.AnnAssign) and n.value is not None:
                target(n.target, self.tok(n.value))
            elif isinstance(n, ast.AugAssign):
                if isinstance(n.target, ast.Name):
                    rec(self.av(n.target), "in-place operator")
                else:
                    target(n.target, "")
            elif isinstance(n, ast.Delete):
                for t in n.targets:
                    target(t, "")
            elif isinstance(n, (ast.For, ast.AsyncFor)):
                target(n.target, "")
            elif isinstance(n, ast.Call):
                nm = call_name(n) or ""
                if nm and not self._shadowed(nm):
                    if nm in self.O["store_into_arg0"] and n.args:
                        rec(self.av(n.args[0]), self.O["store_into_arg0"][nm])
                        continue
                    if nm in self.O["setattr_arg0"] and len(n.args) >= 2:
                        rec(self.av(n.args[0]), "attr:" + (const_str(n.args[1]) or "?"), self.tok(n.args[2]) if len(n.args) > 2 else "")
                        continue
                if isinstance(n.func, ast.Attribute) and n.func.attr in self.mutators:
                    base = n.func.value
                    if isinstance(base, ast.Name) and base.id in BUILTIN_TYPES and not self._shadowed(base.id):
                        if n.args:
                            rec(self.av(n.args[0]), "call:" + n.func.attr)
                    else:
                        rec(self.av(base), "call:" + n.func.attr)
        return out

    def raises(self) -> Tuple[frozenset, tuple]:
        names, asserts = set(), []
        for n in self.nodes():
            if isinstance(n, ast.Raise):
                names.add(raised_name(n) or (unparse(n.exc) if n.exc is not None else "<re-raise>"))
            elif isinstance(n, ast.Assert):
                asserts.append(tuple(sorted(self.av(n.test).roots)))
        return frozenset(names), tuple(sorted(asserts))

    # ---- hashing
    def _whole(self, e, depth=0) -> Optional[str]:
        """parameter p when the value is p itself or an element-preserving copy / re-iteration of all of p"""
        if depth > 6:
            return None
        if isinstance(e, ast.Name):
            if e.id not in self.params and e.id not in self.bind:
                return None
            binds, entry = self.defs_at(e)
            res = {e.id} if entry else set()
            for how, v, _owner in binds:
                if how != "val":
                    return None
                res.add(self._whole(v, depth + 1))
            return next(iter(res)) if len(res) == 1 and None not in res else None
        if isinstance(e, ast.IfExp):
            a, b = self._whole(e.body, depth + 1), self._whole(e.orelse, depth + 1)
            return a if a is not None and a == b else None
        if isinstance(e, ast.Call) and call_name(e) in ("list", "tuple", "sorted", "reversed", "iter", "PySequence_List", "PySequence_Tuple") \
                and len(e.args) == 1 and not e.keywords and not self._shadowed(call_name(e)):
            return self._whole(e.args[0], depth + 1)
        if isinstance(e, (ast.List, ast.Tuple)) and len(e.elts) == 1 and isinstance(e.elts[0], ast.Starred):
            return self._whole(e.elts[0].value, depth + 1)
        if isinstance(e, ast.Subscript) and isinstance(e.slice, ast.Slice) and e.slice.lower is None and e.slice.upper is None and e.slice.step is None:
            return self._whole(e.value, depth + 1)
        return None

    def _hashes_name(self, test, name) -> bool:
        first = test
        while True:
            if isinstance(first, ast.BoolOp):
                first = first.values[0]
            elif isinstance(first, ast.UnaryOp) and isinstance(first.op, ast.Not):
                first = first.operand
            else:
                break
        if isinstance(first, ast.Compare) and len(first.ops) == 1 and isinstance(first.ops[0], (ast.In, ast.NotIn)) \
                and isinstance(first.left, ast.Name) and first.left.id == name:
            k = self.av(first.comparators[0])
            return bool(k.kinds) and k.kinds <= {"set", "dict", "frozenset"}
        if isinstance(first, ast.Call) and isinstance(first.func, ast.Attribute) and first.func.attr == "add":
            base = first.func.value
            if isinstance(base, ast.Name) and base.id == "set" and len(first.args) == 2:
                return isinstance(first.args[1], ast.Name) and first.args[1].id == name and self.av(first.args[0]).kinds <= {"set"}
            k = self.av(base)
            return bool(k.kinds) and k.kinds <= {"set"} and len(first.args) == 1 and isinstance(first.args[0], ast.Name) and first.args[0].id == name
        return False

    def _empty_outcome(self, test, p) -> Optional[bool]:
        """outcome (True/False) of `test` that implies parameter `p` is empty; None if neither does"""
        pol = True
        while isinstance(test, ast.UnaryOp) and isinstance(test.op, ast.Not):
            pol, test = not pol, test.operand
        if isinstance(test, ast.Name) and self.av(test).alias == {p} and not self.is_local(test.id):
            return not pol   # `if p:` false => empty
        if isinstance(test, ast.Compare) and len(test.ops) == 1 and isinstance(test.left, ast.Call) and call_name(test.left) == "len" \
                and len(test.left.args) == 1 and self.av(test.left.args[0]).alias == {p} \
                and isinstance(test.comparators[0], ast.Constant) and type(test.comparators[0].value) is int:
            op, k = test.ops[0], test.comparators[0].value
            if (isinstance(op, ast.Eq) and k == 0) or (isinstance(op, ast.Lt) and k == 1) or (isinstance(op, ast.LtE) and k == 0):
                return pol
            if (isinstance(op, (ast.NotEq, ast.Gt)) and k == 0) or (isinstance(op, ast.GtE) and k == 1):
                return not pol
        return None

    def hashing(self) -> Dict[str, Tuple[str, Optional[list]]]:
        """{parameter: (state, witness)}; state 'every-path' (every element hashed on every returning path),
        'some-paths' (witness = a returning path without), 'unknown' (a hashing operation on something derived
        from the parameter in a shape that is not understood).  Parameters never hashed elementwise are absent."""
        sites: Dict[str, list] = {}
        unknown = set()
        for n in self.nodes():
            p, rel = None, frozenset()
            if isinstance(n, ast.Call) and (call_name(n) or "") in self.O["hash_every_element"] and not self._shadowed(call_name(n)) and n.args:
                p, rel = self._whole(n.args[0]), self.av(n.args[0]).roots
            elif isinstance(n, (ast.SetComp, ast.DictComp)):
                g0 = n.generators[0]
                rel = self.av(g0.iter).roots
                elt = n.key if isinstance(n, ast.DictComp) else n.elt
                if len(n.generators) == 1 and not g0.ifs and isinstance(g0.target, ast.Name) and isinstance(elt, ast.Name) and elt.id == g0.target.id:
                    p = self._whole(g0.iter)
            elif isinstance(n, (ast.ListComp, ast.GeneratorExp)):
                g0 = n.generators[0]
                if g0.ifs and isinstance(g0.target, ast.Name) and any(self._hashes_name(t, g0.target.id) for t in g0.ifs):
                    rel = self.av(g0.iter).roots
                    if self._hashes_name(g0.ifs[0], g0.target.id):
                        p = self._whole(g0.iter)
            elif isinstance(n, (ast.For, ast.AsyncFor)) and isinstance(n.target, ast.Name) and n.body:
                b0 = n.body[0]
                t = b0.test if isinstance(b0, ast.If) else (b0.value if isinstance(b0, ast.Expr) else None)
                if t is not None and self._hashes_name(t, n.target.id):
                    rel = self.av(n.iter).roots
                    p = self._whole(n.iter)
            else:
                continue
            if p is not None:
                sites.setdefault(p, []).append(enclosing_stmt(self.pm, n) if not isinstance(n, ast.stmt) else n)
            else:
                unknown |= {root_base(r) for r in rel}
        out = {}
        g = self.cfg()
        for p, sts in sites.items():
            through = [i for st in sts for i in g.nodes_for(st)]
            # a branch taken only when the parameter is empty has no element to hash
            cut = set()
            for t in g.nodes:
                if t.kind == "test" and getattr(t.stmt, "test", None) is not None:
                    emp = self._empty_outcome(t.stmt.test, p)
                    if emp is not None:
                        cut.add((t.id, "true" if emp else "false"))

            def edge_ok(a, b, lab, cut=cut):
                return lab != "exc" and (a, lab) not in cut

            w = g.must_pass([g.entry], [g.exit], through, edge_ok=edge_ok)
            out[p] = ("every-path", None) if w is None else ("some-paths", w)
        for p in unknown:
            if p not in out or out[p][0] != "every-path":
                out[p] = ("unknown", None)
        return out


# ---------------------------------------------------------------------- call sites of a split function
def _scope_chain(pm, node):
    out = []
    for anc in ancestors(pm, node):
        if isinstance(anc, FuncNode):
            out.append(anc)
    return out


def _bindings_in(scope, name):
    """[(value expr | None, stmt)] for bindings of `name` made by `scope`'s own statements; None value = not a plain
    assignment (loop target, parameter, ...)."""
    out = []
    a = scope.args
    if name in [x.arg for x in a.posonlyargs + a.args + a.kwonlyargs] or (a.vararg and a.vararg.arg == name) or (a.kwarg and a.kwarg.arg == name):
        out.append((None, scope))
    for st in scope.body:
        for n in [st] + ([] if isinstance(st, FuncNode + (ast.ClassDef,)) else list(walk_local(st))):
            if isinstance(n, ast.Assign):
                for t in n.targets:
                    if isinstance(t, ast.Name) and t.id == name:
                        out.append((n.value, n))
                    elif any(isinstance(x, ast.Name) and x.id == name for x in ast.walk(t)):
                        out.append((None, n))
            elif isinstance(n, ast.AnnAssign) and isinstance(n.target, ast.Name) and n.target.id == name and n.value is not None:
                out.append((n.value, n))
            elif isinstance(n, ast.AugAssign) and isinstance(n.target, ast.Name) and n.target.id == name:
                out.append((None, n))
            elif isinstance(n, (ast.For, ast.AsyncFor, ast.comprehension)) and any(isinstance(x, ast.Name) and x.id == name for x in ast.walk(n.target)):
                if not isinstance(n, ast.comprehension):
                    out.append((None, n))
            elif isinstance(n, ast.NamedExpr) and n.target.id == name:
                out.append((None, n))
    return out


def resolve_name(pm, at, name):
    """(scope, bindings) of the innermost enclosing function of `at` that binds `name`; (None, []) = module level / free."""
    for sc in _scope_chain(pm, at):
        b = _bindings_in(sc, name)
        if b:
            return sc, b
    return None, []


def _block_of(pm, st):
    par = pm.get(st)
    for fld in ("body", "orelse", "finalbody"):
        blk = getattr(par, fld, None)
        if isinstance(blk, list) and any(x is st for x in blk):
            return blk
    if isinstance(par, ast.Try):
        for h in par.handlers:
            if any(x is st for x in h.body):
                return h.body
    return None


def _is_empty_literal(e) -> bool:
    return isinstance(e, (ast.Tuple, ast.List)) and not e.elts


def shape_of(e):
    """('len', V) | ('indices_where', V, [filter tests], element name) | ('empty',) | ('name', id) | ('unknown', text)"""
    if isinstance(e, ast.Call) and call_name(e) in ("tuple", "list") and len(e.args) == 1 and not e.keywords:
        return shape_of(e.args[0])
    if isinstance(e, ast.Call) and call_name(e) == "len" and len(e.args) == 1 and isinstance(e.args[0], ast.Name):
        return ("len", e.args[0].id)
    if isinstance(e, (ast.ListComp, ast.GeneratorExp)) and len(e.generators) == 1:
        g = e.generators[0]
        if isinstance(g.target, ast.Tuple) and len(g.target.elts) == 2 and all(isinstance(x, ast.Name) for x in g.target.elts) \
                and isinstance(g.iter, ast.Call) and call_name(g.iter) == "enumerate" and len(g.iter.args) == 1 \
                and isinstance(g.iter.args[0], ast.Name) and isinstance(e.elt, ast.Name) and e.elt.id == g.target.elts[0].id:
            return ("indices_where", g.iter.args[0].id, list(g.ifs), g.target.elts[1].id)
    if _is_empty_literal(e):
        return ("empty",)
    if isinstance(e, ast.Name):
        return ("name", e.id)
    return ("unknown", unparse(e)[:60])


def loop_as_comprehension(pm, scope, name, value, st):
    """`name = []` (statement `st` of function `scope`) followed, in the same block, by ONE loop that fills it
    (`for T in IT: [if C:] name.append(E)`, guards nested, combined or written as `if not C: continue`) and never
    touched otherwise except by reads after the loop  ->  the equivalent `[E for T in IT if C]`; None for any other
    shape.  (comprehension <-> loop is an everyday refactoring; rob-H2)"""
    if not (_is_empty_literal(value) and isinstance(value, ast.List)) and not (
            isinstance(value, ast.Call) and call_name(value) == "list" and not value.args and not value.keywords):
        return None
    blk = _block_of(pm, st)
    if blk is None:
        return None
    idx = [i for i, x in enumerate(blk) if x is st][0]
    loop = None
    for nxt in blk[idx + 1:]:
        if any(isinstance(x, ast.Name) and x.id == name for x in ast.walk(nxt)):
            loop = nxt
            break
    if not isinstance(loop, ast.For) or loop.orelse:
        return None
    found = []

    def is_append(x):
        return isinstance(x, ast.Expr) and isinstance(x.value, ast.Call) and isinstance(x.value.func, ast.Attribute) \
            and x.value.func.attr == "append" and isinstance(x.value.func.value, ast.Name) and x.value.func.value.id == name \
            and len(x.value.args) == 1 and not x.value.keywords

    def neg(t):
        return ast.UnaryOp(op=ast.Not(), operand=t)

    def walk(body, conds) -> bool:
        conds = list(conds)
        for x in body:
            if is_append(x):
                found.append((list(conds), x.value.args[0]))
            elif isinstance(x, ast.If) and len(x.body) == 1 and isinstance(x.body[0], ast.Continue) and not x.orelse:
                conds.append(neg(x.test))
            elif isinstance(x, ast.If):
                if not walk(x.body, conds + [x.test]) or not walk(x.orelse, conds + [neg(x.test)]):
                    return False
            elif isinstance(x, ast.Pass):
                continue
            else:
                return False
        return True

    if not walk(loop.body, []) or len(found) != 1:
        return None
    # nothing else may bind or fill the list
    own_target = st.targets[0] if isinstance(st, ast.Assign) else getattr(st, "target", None)
    in_loop = {id(y) for y in ast.walk(loop)}
    for n in ast.walk(scope):
        if isinstance(n, ast.Name) and n.id == name and isinstance(n.ctx, (ast.Store, ast.Del)) and n is not own_target:
            return None
        if isinstance(n, ast.Call) and isinstance(n.func, ast.Attribute) and isinstance(n.func.value, ast.Name) and n.func.value.id == name \
                and n.func.attr in MUTATING_METHODS and id(n) not in in_loop:
            return None
    conds, elt = found[0]
    comp = ast.ListComp(elt=copy.deepcopy(elt), generators=[ast.comprehension(
        target=copy.deepcopy(loop.target), iter=copy.deepcopy(loop.iter), ifs=[copy.deepcopy(c) for c in conds], is_async=0)])
    ast.copy_location(comp, loop)
    return ast.fix_missing_locations(comp)


def filter_atoms(tests, elem_name, token) -> frozenset:
    """canonical atoms of comprehension filters with the element variable replaced by `token`"""
    out = set()

    class T(ast.NodeTransformer):
        def visit_Name(self, n):
            return ast.Name(id=token, ctx=ast.Load()) if n.id == elem_name else n

    for t in tests:
        for node, p in _split(t, True):
            out.add(test_atoms(ast.fix_missing_locations(T().visit(copy.deepcopy(node))), p)[0])
    return frozenset(out)


def bind_call(call: ast.Call, fn) -> Optional[Dict[str, ast.expr]]:
    """{parameter: argument expr}; None when the call uses * / ** or does not fit."""
    a = fn.args
    pos = [x.arg for x in a.posonlyargs + a.args]
    if any(isinstance(x, ast.Starred) for x in call.args) or any(k.arg is None for k in call.keywords) or len(call.args) > len(pos):
        return None
    out = dict(zip(pos, call.args))
    for k in call.keywords:
        out[k.arg] = k.value
    return out
