"""Helpers of sub-agent str-c (strengthening of C04 / C12).

1. KeySpace -- a small flow-sensitive abstract interpreter that tracks in which of the two *bind-name
   spaces* a string lives:

     RAW  the original bind name (what `bind_names` / `binds` / `positiontup` / crud bind keys /
          `compiled_parameters` hold),
     ESC  the name after `bindname_escape_characters` translation (what is written into the statement
          text through `bindtemplate % {"name": ...}` and what keys the DBAPI-level parameter dicts),
     BOTH a name for which the two coincide (needs no escaping, or was derived from an ESC name by
          appending word characters),

   and records (a) every name that is formatted into a bind template, (b) every lookup / membership
   test / set operation / store that relates a name to a keyed collection, with the space of both sides.
   Unknown stays unknown (never a verdict).

2. bool_paths -- enumeration of CFG paths with a truth assignment of the atoms of (compound) tests.

Nothing here imports or runs SQLAlchemy.
"""

from __future__ import annotations

import ast
from typing import Any, Dict, List, Optional, Sequence, Tuple

from ..astutil import dotted, unparse

RAW, ESC, BOTH, UNK, MIX, BOT = "raw", "esc", "both", "unk", "mix", "bot"
DEFINITE = (RAW, ESC)


def join_space(a: str, b: str) -> str:
    if a == b:
        return a
    if a == BOT:
        return b
    if b == BOT:
        return a
    if UNK in (a, b):
        return UNK
    if MIX in (a, b):
        return MIX
    if a == BOTH:
        return b
    if b == BOTH:
        return a
    return MIX          # RAW with ESC


# ------------------------------------------------------------------------------------------- values
class V:
    kind = "unk"

    def __repr__(self):
        return "?"


class UnkV(V):
    pass


class NoneV(V):
    kind = "none"

    def __repr__(self):
        return "None"


class NameV(V):
    kind = "name"

    def __init__(self, space):
        self.space = space

    def __repr__(self):
        return f"name:{self.space}"


class CollV(V):
    kind = "coll"

    def __init__(self, elem: V):
        self.elem = elem

    def __repr__(self):
        return f"coll[{self.elem!r}]"


class DictV(V):
    kind = "dict"

    def __init__(self, key: V, val: V, escmap=False):
        self.key = key
        self.val = val
        self.escmap = escmap

    def __repr__(self):
        return f"{'escmap' if self.escmap else 'dict'}[{self.key!r}->{self.val!r}]"


class TupleV(V):
    kind = "tuple"

    def __init__(self, items: Sequence[V]):
        self.items = list(items)

    def __repr__(self):
        return f"tuple{self.items!r}"


class TmplV(V):
    kind = "tmpl"

    def __repr__(self):
        return "bindtemplate"


class FuncV(V):
    kind = "func"

    def __init__(self, name):
        self.name = name


U = UnkV()
NONE = NoneV()


def name(space):
    return NameV(space)


def space_of(v: V) -> str:
    """Name space of a scalar value (UNK for anything that is not a name)."""
    if isinstance(v, NameV):
        return v.space
    return UNK


def elem_of(v: V) -> V:
    """What iterating over `v` yields."""
    if isinstance(v, CollV):
        return v.elem
    if isinstance(v, DictV):
        return v.key
    if isinstance(v, TupleV):
        out: V = NameV(BOT)
        for it in v.items:
            out = join(out, it)
        return out
    return U


def key_of(v: V) -> V:
    """The key / member a lookup or membership test addresses."""
    if isinstance(v, DictV):
        return v.key
    if isinstance(v, CollV):
        return v.elem
    return U


def join(a: V, b: V) -> V:
    if a is b:
        return a
    if isinstance(a, NoneV):
        return b
    if isinstance(b, NoneV):
        return a
    if isinstance(a, NameV) and a.space == BOT:
        return b
    if isinstance(b, NameV) and b.space == BOT:
        return a
    if isinstance(a, NameV) and isinstance(b, NameV):
        return NameV(join_space(a.space, b.space))
    if isinstance(a, CollV) and isinstance(b, CollV):
        return CollV(join(a.elem, b.elem))
    if isinstance(a, CollV) and isinstance(b, TupleV):
        return CollV(join(a.elem, elem_of(b)))
    if isinstance(a, TupleV) and isinstance(b, CollV):
        return CollV(join(elem_of(a), b.elem))
    if isinstance(a, DictV) and isinstance(b, DictV):
        return DictV(join(a.key, b.key), join(a.val, b.val), escmap=a.escmap or b.escmap)
    if isinstance(a, TupleV) and isinstance(b, TupleV) and len(a.items) == len(b.items):
        return TupleV([join(x, y) for x, y in zip(a.items, b.items)])
    if isinstance(a, TmplV) and isinstance(b, TmplV):
        return a
    if isinstance(a, FuncV) and isinstance(b, FuncV) and a.name == b.name:
        return a
    return U


def promote(v: V, memo=None) -> V:
    """The same value in a world where no name needed escaping (the escape map is empty): RAW == ESC."""
    if isinstance(v, NameV):
        return NameV(BOTH) if v.space in (RAW, ESC, MIX) else v
    if isinstance(v, CollV):
        return CollV(promote(v.elem))
    if isinstance(v, DictV):
        return DictV(promote(v.key), promote(v.val), escmap=v.escmap)
    if isinstance(v, TupleV):
        return TupleV([promote(x) for x in v.items])
    return v


def escmap():
    return DictV(NameV(RAW), NameV(ESC), escmap=True)


# ------------------------------------------------------------------------- declared sources (oracle)
# attribute name -> (factory, reason).  The reasons quote the library's own documentation of the two
# spaces (comment block in SQLCompiler._process_parameters_for_postcompile, "#8056" note in
# DefaultExecutionContext._init_compiled, docstrings of _InsertManyValues / _CrudParamElementStr).
ATTR_DECL = {
    "escaped_bind_names": (escmap, "maps original bind name -> escaped bind name"),
    "bind_names": (lambda: DictV(U, NameV(RAW)), "BindParameter -> original name"),
    "binds": (lambda: DictV(NameV(RAW), U), "original name -> BindParameter"),
    "_bind_processors": (lambda: DictV(NameV(RAW), U), "original name -> processor"),
    "positiontup": (lambda: CollV(NameV(RAW)), "original names in placeholder order"),
    "_pre_expanded_positiontup": (lambda: CollV(NameV(RAW)), "original names in placeholder order"),
    "insert_crud_params": (lambda: CollV(TupleV([U, U, U, CollV(NameV(RAW))])),
                           "(column, key, rendered expr, original bind names inside expr)"),
    "compiled_parameters": (lambda: CollV(DictV(NameV(RAW), U)), "parameter sets keyed by original names (#8056)"),
    "parameters": (lambda: CollV(DictV(NameV(ESC), U)), "DBAPI-level parameter sets, keyed like the statement text"),
    "bindtemplate": (TmplV, "placeholder template of the paramstyle"),
    "compilation_bindtemplate": (TmplV, "placeholder template used while compiling"),
}

# type annotation (normalised text) of a parameter -> value
# attributes that mean this only on an execution context (`self.parameters` of a compiler is something else)
CTX_ONLY_ATTRS = {"parameters", "compiled_parameters"}

ANNOT_DECL = {
    "_DBAPIMultiExecuteParams": lambda: CollV(DictV(NameV(ESC), U)),
    "_DBAPISingleExecuteParams": lambda: DictV(NameV(ESC), U),
    "_MutableCoreSingleExecuteParams": lambda: DictV(NameV(RAW), U),
    "_CoreSingleExecuteParams": lambda: DictV(NameV(RAW), U),
    "List[_MutableCoreSingleExecuteParams]": lambda: CollV(DictV(NameV(RAW), U)),
    "Sequence[_MutableCoreSingleExecuteParams]": lambda: CollV(DictV(NameV(RAW), U)),
}

COLL_CTORS = {"set", "list", "tuple", "sorted", "frozenset", "iter", "reversed"}
SET_OPS = {"intersection", "difference", "union", "symmetric_difference", "issubset", "issuperset", "isdisjoint",
           "intersection_update", "difference_update"}
COLL_ADD1 = {"add", "append", "remove", "discard"}
COLL_ADDN = {"update", "extend"}
DICT_INDEX = {"pop", "get", "setdefault", "__getitem__", "__contains__"}


class Obs:
    """One relation between a name and a keyed receiver."""

    def __init__(self, recv, recv_space, idx_space, how, node):
        self.recv = recv            # receiver text
        self.recv_space = recv_space
        self.idx_space = idx_space
        self.how = how
        self.lineno = getattr(node, "lineno", 0)
        self.nid = (id(node), how, recv)

    def mismatch(self):
        return self.recv_space in DEFINITE and self.idx_space in DEFINITE and self.recv_space != self.idx_space

    def definite(self):
        return self.recv_space in DEFINITE + (BOTH,) and self.idx_space in DEFINITE + (BOTH,)

    def __repr__(self):
        return f"{self.recv}<{self.recv_space}> {self.how} <{self.idx_space}> @{self.lineno}"


class Sink:
    def __init__(self, kind, space, expr, node, scope):
        self.kind = kind            # 'template' | 'postcompile-marker'
        self.space = space
        self.expr = expr
        self.lineno = getattr(node, "lineno", 0)
        self.scope = scope          # name of the (nested) function the sink is in
        self.nid = (id(node), kind)

    def __repr__(self):
        return f"{self.kind}({self.expr})<{self.space}> in {self.scope} @{self.lineno}"


class KeySpace:
    """Analyse one function (with its nested functions).

    param_vals: {param name: V} bindings for parameters (annotations are used otherwise);
    refine_truthy: {test variable name: {var: V}} -- contract refinements applied where the variable is
    known to be truthy (e.g. bindparam_string: `escaped_from` given => `name` is already escaped).
    """

    def __init__(self, fn: ast.AST, param_vals: Optional[Dict[str, V]] = None,
                 refine_truthy: Optional[Dict[str, Dict[str, V]]] = None, translate_re="_bind_translate_re",
                 exec_ctx: bool = False, resolve_method=None):
        self.fn = fn
        self.exec_ctx = exec_ctx                      # the function is a method of an ExecutionContext
        self.resolve_method = resolve_method          # name -> ast.FunctionDef | None  (methods of `self`)
        self.inlining = 0
        self.analysed_nested = set()
        self.param_vals = dict(param_vals or {})
        self.refine_truthy = refine_truthy or {}
        self.translate_re = translate_re
        self.obs: List[Obs] = []
        self.sinks: List[Sink] = []
        self.calls: Dict[int, List[V]] = {}          # id(call node) -> evaluated positional args (+kw by name)
        self.call_kw: Dict[int, Dict[str, V]] = {}
        self.attrs_seen = set()
        self.belief: Dict[str, str] = {}              # receiver text -> accumulated definite index space
        self.nested: Dict[str, List[ast.FunctionDef]] = {}
        self.nested_args: Dict[str, List[List[V]]] = {}
        self.scope = getattr(fn, "name", "<fn>")
        self.returns: V = NameV(BOT)

    # ------------------------------------------------------------------------------ driver
    def run(self):
        env = self._bind_params(self.fn, self.param_vals)
        env = self._block(self.fn.body, env)
        # nested functions: parameters bound to the join of the arguments of all local calls
        done = set()
        progress = True
        while progress:
            progress = False
            for nm, defs in list(self.nested.items()):
                for d in defs:
                    if id(d) in done or id(d) in self.analysed_nested:
                        continue
                    done.add(id(d))
                    progress = True
                    argsets = self.nested_args.get(nm, [])
                    pv: Dict[str, V] = {}
                    params = [a.arg for a in d.args.posonlyargs + d.args.args]
                    for args in argsets:
                        for p, a in zip(params, args):
                            pv[p] = join(pv[p], a) if p in pv else a
                    saved = self.scope
                    self.scope = nm
                    env2 = dict(env)
                    env2.update(self._bind_params(d, pv, use_annotations=True))
                    self._block(d.body, env2)
                    self.scope = saved
        self._dedupe()
        return self

    def _dedupe(self):
        """Loop bodies are walked twice: keep one record per site, with the join of what was seen."""
        sinks: Dict[Any, Sink] = {}
        for s_ in self.sinks:
            if s_.nid in sinks:
                sinks[s_.nid].space = join_space(sinks[s_.nid].space, s_.space)
            else:
                sinks[s_.nid] = s_
        self.sinks = sorted(sinks.values(), key=lambda x: x.lineno)
        obs: Dict[Any, Obs] = {}
        for o in self.obs:
            if o.nid in obs:
                p_ = obs[o.nid]
                if p_.mismatch():
                    continue
                if o.mismatch():
                    obs[o.nid] = o
                    continue
                p_.idx_space = join_space(p_.idx_space, o.idx_space)
                p_.recv_space = join_space(p_.recv_space, o.recv_space)
            else:
                obs[o.nid] = o
        self.obs = sorted(obs.values(), key=lambda x: x.lineno)

    def _bind_params(self, fn, pv, use_annotations=True):
        env: Dict[str, Any] = {}
        a = fn.args
        for arg in a.posonlyargs + a.args + a.kwonlyargs:
            if arg.arg in pv:
                env[arg.arg] = pv[arg.arg]
            elif use_annotations and arg.annotation is not None:
                t = unparse(arg.annotation).replace("typing.", "").replace("'", "").replace('"', "")
                if t.startswith("Optional[") and t.endswith("]"):
                    t = t[len("Optional["):-1]
                f = ANNOT_DECL.get(t)
                env[arg.arg] = f() if f else U
            else:
                env[arg.arg] = U
        return env

    # ------------------------------------------------------------------------------ environment
    @staticmethod
    def _join_env(a: Dict[str, Any], b: Dict[str, Any]) -> Dict[str, Any]:
        out = dict(a)
        for k, v in b.items():
            if k.startswith("$"):
                continue
            out[k] = join(a[k], v) if k in a else v
        out.pop("$identity", None)
        if a.get("$identity") and b.get("$identity"):
            out["$identity"] = True
        return out

    @staticmethod
    def _promote_env(env):
        out = {k: (promote(v) if isinstance(v, V) else v) for k, v in env.items()}
        out["$identity"] = True
        return out

    # ------------------------------------------------------------------------------ statements
    def _block(self, stmts, env):
        env = dict(env)
        for st in stmts:
            env = self._stmt(st, env)
        return env

    def _stmt(self, st, env):
        if isinstance(st, (ast.FunctionDef, ast.AsyncFunctionDef)):
            if not any(d is st for d in self.nested.get(st.name, [])):
                self.nested.setdefault(st.name, []).append(st)
            env = dict(env)
            env[st.name] = FuncV(st.name)
            return env
        if isinstance(st, ast.Assign):
            v = self.ev(st.value, env)
            env = dict(env)
            for t in st.targets:
                self._store(t, v, env, st)
            return env
        if isinstance(st, ast.AnnAssign):
            if st.value is None:
                return env
            v = self.ev(st.value, env)
            env = dict(env)
            self._store(st.target, v, env, st)
            return env
        if isinstance(st, ast.AugAssign):
            v = self.ev(st.value, env)
            if isinstance(st.target, ast.Name):
                env = dict(env)
                old = env.get(st.target.id, U)
                env[st.target.id] = join(old, v) if isinstance(old, (CollV, DictV)) else U
            return env
        if isinstance(st, ast.If):
            self.ev(st.test, env)
            et = self._block(st.body, self._refine(st.test, True, env))
            ef = self._block(st.orelse, self._refine(st.test, False, env))
            if self._terminates(st.body):
                return ef
            if st.orelse and self._terminates(st.orelse):
                return et
            return self._join_env(et, ef)
        if isinstance(st, (ast.For, ast.AsyncFor)):
            it = self.ev(st.iter, env)
            cur = env
            for _ in range(2):
                e2 = dict(cur)
                self._store(st.target, elem_of(it), e2, st)
                e2 = self._block(st.body, e2)
                cur = self._join_env(cur, e2)
            return self._block(st.orelse, cur)
        if isinstance(st, ast.While):
            cur = env
            for _ in range(2):
                self.ev(st.test, cur)
                e2 = self._block(st.body, self._refine(st.test, True, cur))
                cur = self._join_env(cur, e2)
            return self._block(st.orelse, cur)
        if isinstance(st, (ast.With, ast.AsyncWith)):
            env = dict(env)
            for item in st.items:
                v = self.ev(item.context_expr, env)
                if item.optional_vars is not None:
                    self._store(item.optional_vars, U, env, st)
            return self._block(st.body, env)
        if isinstance(st, ast.Try):
            e1 = self._block(st.body, env)
            out = self._block(st.orelse, e1)
            for h in st.handlers:
                eh = dict(self._join_env(env, e1))
                if h.name:
                    eh[h.name] = U
                out = self._join_env(out, self._block(h.body, eh))
            return self._block(st.finalbody, out)
        if isinstance(st, ast.Return):
            if st.value is not None:
                self.returns = join(self.returns, self.ev(st.value, env))
            return env
        if isinstance(st, ast.Expr):
            self.ev(st.value, env)
            return env
        if isinstance(st, ast.Assert):
            self.ev(st.test, env)
            return self._refine(st.test, True, env)
        if isinstance(st, ast.Raise):
            if st.exc is not None:
                self.ev(st.exc, env)
            return env
        if isinstance(st, ast.Delete):
            return env
        return env

    @staticmethod
    def _terminates(body):
        return bool(body) and isinstance(body[-1], (ast.Return, ast.Raise, ast.Continue, ast.Break))

    def _store(self, target, v: V, env, st):
        if isinstance(target, ast.Name):
            env[target.id] = v
        elif isinstance(target, (ast.Tuple, ast.List)):
            n = len(target.elts)
            for i, t in enumerate(target.elts):
                if isinstance(t, ast.Starred):
                    self._store(t.value, U, env, st)
                elif isinstance(v, TupleV) and len(v.items) == n:
                    self._store(t, v.items[i], env, st)
                else:
                    self._store(t, U, env, st)
        elif isinstance(target, ast.Subscript):
            recv = self.ev(target.value, env)
            if isinstance(target.slice, ast.Slice):
                return
            idx = self.ev(target.slice, env)
            self._index(target.value, recv, idx, "[]= ", target, env, store=True, stored=v)
        elif isinstance(target, ast.Attribute):
            decl = self._decl(target)
            if decl is not None:
                self.attrs_seen.add(target.attr)
                want = decl[0]()
                self._relate_store(unparse(target), want, v, target)

    def _relate_store(self, text, want: V, got: V, node):
        """A value stored into a declared attribute: compare name spaces position by position."""
        if isinstance(want, CollV) and isinstance(got, (CollV, DictV)) and not isinstance(want.elem, (CollV, DictV, TupleV)):
            self.obs.append(Obs(text, space_of(want.elem), space_of(elem_of(got)), "= elements", node))
        elif isinstance(want, CollV) and isinstance(got, CollV) and isinstance(want.elem, DictV) and isinstance(got.elem, DictV):
            self.obs.append(Obs(text, space_of(want.elem.key), space_of(got.elem.key), "= keys of elements", node))
        elif isinstance(want, DictV) and isinstance(got, DictV):
            self.obs.append(Obs(text, space_of(want.key), space_of(got.key), "= keys", node))
            if want.escmap:
                self.obs.append(Obs(text + " (values)", space_of(want.val), space_of(got.val), "= values", node))

    def _decl(self, e: ast.Attribute):
        decl = ATTR_DECL.get(e.attr)
        if decl is None or not isinstance(e.value, (ast.Name, ast.Attribute)):
            return None
        if e.attr in CTX_ONLY_ATTRS and not (self.exec_ctx and dotted(e.value) in ("self", "context")):
            return None
        return decl

    # ------------------------------------------------------------------------------ refinement
    def _is_escmap_test(self, test, env):
        """`X` / `bool(X)` / `X is not None` where X evaluates to the escape map."""
        if isinstance(test, ast.Compare) and len(test.ops) == 1 and isinstance(test.ops[0], ast.IsNot) \
                and isinstance(test.comparators[0], ast.Constant) and test.comparators[0].value is None:
            test = test.left
        if isinstance(test, ast.Call) and isinstance(test.func, ast.Name) and test.func.id == "bool" and len(test.args) == 1:
            test = test.args[0]
        if isinstance(test, (ast.Name, ast.Attribute)):
            v = self.ev(test, env, quiet=True)
            return isinstance(v, DictV) and v.escmap
        return False

    def _refine(self, test, pol, env):
        if isinstance(test, ast.UnaryOp) and isinstance(test.op, ast.Not):
            return self._refine(test.operand, not pol, env)
        if isinstance(test, ast.BoolOp):
            conj = isinstance(test.op, ast.And)
            if (conj and pol) or (not conj and not pol):
                for v in test.values:
                    env = self._refine(v, pol, env)
            return env
        if self._is_escmap_test(test, env) and not pol:
            return self._promote_env(env)
        if isinstance(test, ast.Call) and isinstance(test.func, ast.Attribute) and test.func.attr in ("search", "match") \
                and (dotted(test.func.value) or "").endswith(self.translate_re) and len(test.args) == 1 \
                and isinstance(test.args[0], ast.Name) and not pol:
            env = dict(env)
            old = env.get(test.args[0].id, U)
            if isinstance(old, NameV):
                env[test.args[0].id] = NameV(BOTH if old.space in (RAW, ESC, BOTH) else old.space)
            return env
        if isinstance(test, ast.Name) and pol and test.id in self.refine_truthy:
            env = dict(env)
            env.update(self.refine_truthy[test.id])
            return env
        return env

    # ------------------------------------------------------------------------------ expressions
    def ev(self, e, env, quiet=False) -> V:
        v = self._ev(e, env, quiet)
        return v if isinstance(v, V) else U

    def _ev(self, e, env, quiet) -> V:
        if e is None:
            return U
        if isinstance(e, ast.Name):
            v = env.get(e.id, U)
            return v if isinstance(v, V) else U
        if isinstance(e, ast.Constant):
            if e.value is None:
                return NONE
            return U
        if isinstance(e, ast.Attribute):
            decl = self._decl(e)
            if decl is not None:
                self.attrs_seen.add(e.attr)
                v = decl[0]()
                return promote(v) if env.get("$identity") else v
            if not quiet:
                self.ev(e.value, env)
            return U
        if isinstance(e, ast.Call):
            return self._call(e, env, quiet)
        if isinstance(e, ast.Subscript):
            recv = self.ev(e.value, env, quiet)
            if isinstance(e.slice, ast.Slice):
                return recv if isinstance(recv, CollV) else U
            if isinstance(recv, TupleV) and isinstance(e.slice, ast.Constant) and isinstance(e.slice.value, int):
                i = e.slice.value
                return recv.items[i] if -len(recv.items) <= i < len(recv.items) else U
            idx = self.ev(e.slice, env, quiet)
            if isinstance(recv, CollV) and not isinstance(idx, NameV):
                return recv.elem                      # positional access into a sequence
            if quiet:
                return recv.val if isinstance(recv, DictV) else U
            return self._index(e.value, recv, idx, "[]", e, env)
        if isinstance(e, ast.IfExp):
            if not quiet:
                self.ev(e.test, env)
            a = self.ev(e.body, self._refine(e.test, True, env), quiet)
            b = self.ev(e.orelse, self._refine(e.test, False, env), quiet)
            return join(a, b)
        if isinstance(e, ast.BoolOp):
            out: V = NameV(BOT)
            for x in e.values:
                out = join(out, self.ev(x, env, quiet))
            return out
        if isinstance(e, (ast.ListComp, ast.SetComp, ast.GeneratorExp)):
            env2 = self._comp_env(e.generators, env, quiet)
            return CollV(self.ev(e.elt, env2, quiet))
        if isinstance(e, ast.DictComp):
            env2 = self._comp_env(e.generators, env, quiet)
            return DictV(self.ev(e.key, env2, quiet), self.ev(e.value, env2, quiet))
        if isinstance(e, ast.Dict):
            k: V = NameV(BOT)
            val: V = NameV(BOT)
            for kk, vv in zip(e.keys, e.values):
                if kk is None:
                    inner = self.ev(vv, env, quiet)
                    if isinstance(inner, DictV):
                        k, val = join(k, inner.key), join(val, inner.val)
                    else:
                        k, val = U, U
                else:
                    k, val = join(k, self.ev(kk, env, quiet)), join(val, self.ev(vv, env, quiet))
            return DictV(k, val)
        if isinstance(e, (ast.List, ast.Set)):
            out = NameV(BOT)
            for x in e.elts:
                out = join(out, self.ev(x, env, quiet))
            return CollV(out)
        if isinstance(e, ast.Tuple):
            return TupleV([self.ev(x, env, quiet) for x in e.elts])
        if isinstance(e, ast.Compare):
            return self._compare(e, env, quiet)
        if isinstance(e, ast.BinOp):
            if isinstance(e.op, ast.Mod):
                return self._percent(e, env, quiet)
            a, b = self.ev(e.left, env, quiet), self.ev(e.right, env, quiet)
            if isinstance(e.op, (ast.BitOr, ast.BitAnd, ast.Sub, ast.BitXor)) and isinstance(a, CollV) and isinstance(b, CollV):
                if not quiet:
                    self.obs.append(Obs(unparse(e.left), space_of(a.elem), space_of(b.elem), "set-op", e))
                return CollV(join(a.elem, b.elem))
            if isinstance(e.op, ast.Add):
                if isinstance(a, CollV) and isinstance(b, CollV):
                    return CollV(join(a.elem, b.elem))
                if isinstance(a, NameV) and not isinstance(b, NameV):
                    return self._derived(a)
            return U
        if isinstance(e, ast.JoinedStr):
            comps = [self.ev(x.value, env, quiet) for x in e.values if isinstance(x, ast.FormattedValue)]
            names = [c for c in comps if isinstance(c, NameV)]
            first_is_name = bool(e.values) and isinstance(e.values[0], ast.FormattedValue) and len(names) == 1 \
                and isinstance(self.ev(e.values[0].value, env, True), NameV)
            return self._derived(names[0]) if first_is_name else U
        if isinstance(e, ast.Lambda):
            env2 = dict(env)
            for a_ in e.args.args:
                env2[a_.arg] = U
            if not quiet:
                self.ev(e.body, env2)
            return U
        if isinstance(e, ast.Starred):
            return self.ev(e.value, env, quiet)
        if isinstance(e, ast.NamedExpr):
            return self.ev(e.value, env, quiet)
        if isinstance(e, (ast.UnaryOp,)):
            self.ev(e.operand, env, quiet)
            return U
        if isinstance(e, ast.Await):
            return self.ev(e.value, env, quiet)
        return U

    @staticmethod
    def _derived(base: NameV) -> V:
        """`<name><suffix of word characters>`: an escaped base gives a name that needs no escaping."""
        if base.space in (ESC, BOTH):
            return NameV(BOTH)
        return NameV(base.space)

    def _comp_env(self, generators, env, quiet):
        env2 = dict(env)
        for g in generators:
            it = self.ev(g.iter, env2, quiet)
            self._store(g.target, elem_of(it), env2, g)
            for cond in g.ifs:
                self.ev(cond, env2, quiet)
        return env2

    def _percent(self, e: ast.BinOp, env, quiet) -> V:
        left = self.ev(e.left, env, quiet)
        if isinstance(left, TmplV):
            # <bindtemplate> % {"name": X}
            x = None
            if isinstance(e.right, ast.Dict):
                for kk, vv in zip(e.right.keys, e.right.values):
                    if isinstance(kk, ast.Constant) and kk.value == "name":
                        x = vv
            if x is None:
                sp = UNK
                text = unparse(e.right)
            else:
                sp = space_of(self.ev(x, env, quiet))
                text = unparse(x)
            if not quiet:
                self.sinks.append(Sink("template", sp, text, e, self.scope))
            return U
        if isinstance(e.left, ast.Constant) and isinstance(e.left.value, str):
            s = e.left.value
            right = e.right.elts if isinstance(e.right, ast.Tuple) else [e.right]
            vals = [self.ev(x, env, quiet) for x in right]
            if "POSTCOMPILE_%s" in s and len(vals) >= 1:
                if not quiet:
                    self.sinks.append(Sink("postcompile-marker", space_of(vals[0]), unparse(right[0]), e, self.scope))
                return U
            names = [v for v in vals if isinstance(v, NameV)]
            if s.startswith("%s") and vals and isinstance(vals[0], NameV) and len(names) == 1 \
                    and all(ch.isalnum() or ch in "_%" for ch in s):
                return self._derived(vals[0])
            return U
        self.ev(e.right, env, quiet)
        return U

    def _compare(self, e: ast.Compare, env, quiet) -> V:
        left = self.ev(e.left, env, quiet)
        for op, comp in zip(e.ops, e.comparators):
            right = self.ev(comp, env, quiet)
            if isinstance(op, (ast.In, ast.NotIn)):
                if not quiet:
                    self._index(comp, right, left, "in", e, env, member=True, idx_node=e.left)
            elif isinstance(op, (ast.Eq, ast.NotEq)) and isinstance(left, NameV) and isinstance(right, NameV):
                if not quiet:
                    self.obs.append(Obs(unparse(e.left), left.space, right.space, "==", e))
            left = right
        return U

    def _index(self, recv_node, recv: V, idx: V, how, node, env, store=False, stored: V = None, member=False,
               idx_node=None) -> V:
        """recv[idx] / idx in recv / recv.pop(idx) ..."""
        text = unparse(recv_node)
        if isinstance(recv, TupleV):
            return U
        isp = space_of(idx)
        rk = key_of(recv)
        rsp = space_of(rk)
        tgt = idx_node if idx_node is not None else (node.slice if isinstance(node, ast.Subscript) else None)
        if not isinstance(idx, NameV):
            # not (known to be) a bind name: nothing to relate; an unknown *variable* used to address a
            # receiver of definite key space is from now on believed to live in that space
            if isinstance(idx, UnkV) and isinstance(tgt, ast.Name) and rsp in DEFINITE and isinstance(recv, (DictV, CollV)):
                env[tgt.id] = NameV(rsp)
            return recv.val if isinstance(recv, DictV) else (recv.elem if isinstance(recv, CollV) else U)
        if isinstance(recv, (DictV, CollV)) and isinstance(rk, NameV) and rsp != BOT:
            self.obs.append(Obs(text, rsp, isp, how, node))
        elif isinstance(recv, (DictV, CollV)) and isinstance(rk, NameV) and rsp == BOT:
            # first store into a fresh container decides its key space
            self.obs.append(Obs(text, BOT, isp, how, node))
        else:
            # receiver of unknown key space: accumulate the belief by receiver text (Engler)
            prev = self.belief.get(text, BOT)
            self.obs.append(Obs(text, prev if prev in DEFINITE else UNK, isp, how, node))
            if isp in DEFINITE:
                self.belief[text] = join_space(prev, isp) if prev != BOT else isp
        if store and isinstance(recv, DictV):
            nk = join(recv.key, idx)
            # a container of definite key space keeps it (the conflicting store was recorded above)
            if not (space_of(recv.key) in DEFINITE and space_of(nk) == MIX):
                recv.key = nk
            if stored is not None:
                recv.val = join(recv.val, stored)
        if isinstance(tgt, ast.Name) and isp == UNK and rsp in DEFINITE:
            env[tgt.id] = NameV(rsp)
        if isinstance(recv, DictV):
            return recv.val
        if isinstance(recv, CollV):
            return recv.elem
        return U

    def _call(self, c: ast.Call, env, quiet) -> V:
        fn = c.func
        args = [self.ev(a, env, quiet) for a in c.args]
        kws = {k.arg: self.ev(k.value, env, quiet) for k in c.keywords if k.arg}
        for k in c.keywords:
            if k.arg is None:
                self.ev(k.value, env, quiet)
        if not quiet:
            self.calls[id(c)] = args
            self.call_kw[id(c)] = kws
        if isinstance(fn, ast.Name):
            nm = fn.id
            if nm in COLL_CTORS and len(args) == 1:
                return CollV(elem_of(args[0])) if isinstance(args[0], (CollV, DictV, TupleV)) else U
            if nm in ("set", "list", "tuple", "frozenset") and not args:
                return CollV(NameV(BOT))
            if nm == "dict":
                if not args and not kws:
                    return DictV(NameV(BOT), NameV(BOT))
                if len(args) == 1 and isinstance(args[0], DictV) and not kws:
                    return DictV(args[0].key, args[0].val, escmap=args[0].escmap)
                return U
            if nm == "cast" and len(args) == 2:
                return args[1]
            if nm == "enumerate" and args:
                return CollV(TupleV([U, elem_of(args[0])]))
            if nm == "zip":
                return CollV(TupleV([elem_of(a) for a in args]))
            if nm == "str" and len(args) == 1 and isinstance(args[0], NameV):
                return args[0]
            if isinstance(env.get(nm), FuncV):
                if quiet:
                    return U
                return self._inline([d for d in self.nested.get(nm, [])], args, kws, env, nested=nm)
            return U
        if isinstance(fn, ast.Attribute):
            meth = fn.attr
            if meth == "cast" and len(args) == 2:
                return args[1]
            if isinstance(fn.value, ast.Name) and fn.value.id == "self" and self.resolve_method is not None and not quiet \
                    and self.inlining < 1:
                d = self.resolve_method(meth)
                if d is not None and sum(1 for _ in ast.walk(d) if isinstance(_, ast.stmt)) <= 12:
                    return self._inline([d], args, kws, {}, method=True)
            recv = self.ev(fn.value, env, quiet)
            rtext = unparse(fn.value)
            if (dotted(fn.value) or "").endswith(self.translate_re) and meth == "sub":
                return NameV(ESC)
            if isinstance(recv, DictV):
                if meth == "get" and len(c.args) == 2 and unparse(c.args[0]) == unparse(c.args[1]):
                    # translation idiom  M.get(x, x)
                    if isinstance(recv.val, NameV) and recv.val.space in (RAW, ESC) and isinstance(recv.key, NameV):
                        if isinstance(c.args[0], ast.Name) and space_of(args[0]) == UNK and recv.key.space in DEFINITE:
                            env[c.args[0].id] = NameV(recv.key.space)
                        if isinstance(args[0], NameV) and args[0].space == BOTH:
                            return NameV(BOTH)
                        return NameV(recv.val.space)
                    return join(recv.val, args[0])
                if meth in ("get", "pop", "setdefault") and args:
                    if quiet:
                        return recv.val
                    v = self._index(fn.value, recv, args[0], "." + meth, c, env, store=(meth == "setdefault"),
                                    idx_node=c.args[0])
                    if len(args) > 1:
                        v = join(v, args[1])
                    return v
                if meth == "items":
                    return CollV(TupleV([recv.key, recv.val]))
                if meth == "values":
                    return CollV(recv.val)
                if meth == "keys":
                    return CollV(recv.key)
                if meth == "copy":
                    return DictV(recv.key, recv.val, escmap=recv.escmap)
                if meth == "union" and len(args) == 1 and isinstance(args[0], DictV):
                    # immutabledict.union
                    return DictV(join(recv.key, args[0].key), join(recv.val, args[0].val)) if not recv.escmap else \
                        self._escmap_union(recv, args[0], c, rtext, quiet)
                if meth == "update" and len(args) == 1 and not quiet:
                    a = args[0]
                    if isinstance(a, DictV):
                        k = a.key
                    elif isinstance(a, CollV) and isinstance(a.elem, TupleV) and a.elem.items:
                        k = a.elem.items[0]
                    else:
                        k = U
                    if isinstance(k, NameV):
                        self._index(fn.value, recv, k, ".update", c, env, store=True)
                    return U
                return U
            if isinstance(recv, CollV):
                if meth in SET_OPS:
                    out = recv.elem
                    for a in args:
                        if isinstance(a, (CollV, DictV)) and not quiet:
                            self.obs.append(Obs(rtext, space_of(recv.elem), space_of(elem_of(a)), "." + meth, c))
                        if meth in ("union", "symmetric_difference") and isinstance(a, (CollV, DictV)):
                            out = join(out, elem_of(a))
                    return CollV(out)
                if meth in COLL_ADD1 and len(args) == 1:
                    if isinstance(args[0], NameV) and not quiet:
                        self.obs.append(Obs(rtext, space_of(recv.elem) if isinstance(recv.elem, NameV) else UNK,
                                            args[0].space, "." + meth, c))
                    if meth in ("add", "append"):
                        recv.elem = join(recv.elem, args[0])
                    return U
                if meth in COLL_ADDN and len(args) == 1:
                    a = args[0]
                    if isinstance(a, (CollV, DictV)):
                        el = elem_of(a)
                        if isinstance(el, NameV) and not quiet:
                            self.obs.append(Obs(rtext, space_of(recv.elem) if isinstance(recv.elem, NameV) else UNK,
                                                el.space, "." + meth, c))
                        recv.elem = join(recv.elem, el)
                    return U
                if meth == "copy":
                    return CollV(recv.elem)
                return U
            # unknown receiver: dictionary style access still feeds the belief table
            if meth in ("pop", "get", "setdefault") and args and isinstance(args[0], NameV) and not quiet \
                    and isinstance(fn.value, (ast.Name, ast.Attribute)):
                self._index(fn.value, recv, args[0], "." + meth, c, env, idx_node=c.args[0])
            return U
        return U

    def _inline(self, defs, args, kws, env, nested=None, method=False) -> V:
        """Evaluate a local (nested) function / a small method of `self` at a call: parameters bound to the
        arguments, result = join of the returned values.  What a *method* does inside is judged where that
        method is analysed itself, so nothing is recorded while it is inlined."""
        if self.inlining >= 3 or not defs:
            return U
        out: V = NameV(BOT)
        for d in defs:
            params = [a.arg for a in d.args.posonlyargs + d.args.args]
            if method and params and params[0] in ("self", "cls"):
                params = params[1:]
            pv = {p: a for p, a in zip(params, args)}
            for k, v in kws.items():
                if k in params:
                    pv[k] = v
            env2 = dict(env)
            env2.pop("$identity", None) if method else None
            env2.update(self._bind_params(d, pv))
            saved_ret, saved_scope = self.returns, self.scope
            saved_obs, saved_sinks = len(self.obs), len(self.sinks)
            self.returns = NameV(BOT)
            self.inlining += 1
            if nested:
                self.scope = nested
                self.analysed_nested.add(id(d))
            try:
                self._block(d.body, env2)
            finally:
                self.inlining -= 1
            ret = self.returns
            self.returns, self.scope = saved_ret, saved_scope
            if method:
                del self.obs[saved_obs:]
                del self.sinks[saved_sinks:]
            out = join(out, ret if not (isinstance(ret, NameV) and ret.space == BOT) else U)
        return out if not (isinstance(out, NameV) and out.space == BOT) else U

    def _escmap_union(self, recv, other: DictV, node, rtext, quiet):
        if not quiet:
            self.obs.append(Obs(rtext, space_of(recv.key), space_of(other.key), ".union keys", node))
            self.obs.append(Obs(rtext + " (values)", space_of(recv.val), space_of(other.val), ".union values", node))
        return DictV(recv.key, recv.val, escmap=True)


# ---------------------------------------------------------------------------------- boolean CFG paths
def split_test(test: ast.expr, pol: bool):
    """All minimal atom assignments [(atom text, bool), ...] under which `test` evaluates to `pol`.
    Atoms are the leaves of not/and/or; `is None` / `is not None`, `==`/`!=` pairs are normalised so that the
    same leaf gets the same text with opposite polarity."""
    if isinstance(test, ast.UnaryOp) and isinstance(test.op, ast.Not):
        return split_test(test.operand, not pol)
    if isinstance(test, ast.BoolOp):
        conj = isinstance(test.op, ast.And)
        if conj == pol:
            # all operands must have polarity pol:  product
            outs = [[]]
            for v in test.values:
                nxt = []
                for part in split_test(v, pol):
                    for o in outs:
                        merged = _merge(o, part)
                        if merged is not None:
                            nxt.append(merged)
                outs = nxt
            return outs
        # some operand has polarity pol (short circuit: earlier ones have not)
        outs = []
        for i, v in enumerate(test.values):
            prefix = [[]]
            for w in test.values[:i]:
                nxt = []
                for part in split_test(w, not pol):
                    for o in prefix:
                        merged = _merge(o, part)
                        if merged is not None:
                            nxt.append(merged)
                prefix = nxt
            for part in split_test(v, pol):
                for o in prefix:
                    merged = _merge(o, part)
                    if merged is not None:
                        outs.append(merged)
        return outs
    if isinstance(test, ast.Compare) and len(test.ops) == 1:
        op = test.ops[0]
        l, r = unparse(test.left), unparse(test.comparators[0])
        if isinstance(op, ast.IsNot):
            return [[(f"{l} is {r}", not pol)]]
        if isinstance(op, ast.Is):
            return [[(f"{l} is {r}", pol)]]
        if isinstance(op, ast.NotEq):
            return [[(f"{l} == {r}", not pol)]]
        if isinstance(op, ast.NotIn):
            return [[(f"{l} in {r}", not pol)]]
    return [[(unparse(test), pol)]]


def _merge(a, b, imply=False):
    d = dict(a)
    for k, v in b:
        if k in d and d[k] != v:
            return None
        d[k] = v
    if not imply:
        return sorted(d.items())
    # truthiness and None-ness of the same expression are related:  X truthy => not (X is None);  X is None => X falsy
    for k, v in list(d.items()):
        if k.endswith(" is None"):
            base = k[: -len(" is None")]
            if v is True:
                if d.get(base) is True:
                    return None
                d[base] = False
        elif v is True:
            nk = k + " is None"
            if d.get(nk) is True:
                return None
            d[nk] = False
    return sorted(d.items())


def bool_paths(g, start, stop_pred, on_stmt=None, const_names=None, limit=200000):
    """Depth-first enumeration of the non-exceptional CFG paths from `start`, carrying a truth assignment of test
    atoms (consistent along the path; atoms over local names given in `const_names` are invalidated when the name
    is re-assigned).  Yields (end node id, assignment dict, path list).  A path ends at exit nodes or where
    stop_pred(node id) is true.  Loops are cut at the second visit of a node on the same path."""
    out = []
    budget = [limit]

    def locals_assigned(st):
        names = set()
        if isinstance(st, (ast.Assign, ast.AnnAssign, ast.AugAssign)):
            tg = st.targets if isinstance(st, ast.Assign) else [st.target]
            for t in tg:
                for n in ast.walk(t):
                    if isinstance(n, ast.Name):
                        names.add(n.id)
        return names

    def go(n, assign, path, seen):
        budget[0] -= 1
        if budget[0] < 0:
            raise RuntimeError("path budget exhausted")
        node = g.node(n)
        path = path + [n]
        if n in (g.exit, g.raise_exit) or stop_pred(n):
            out.append((n, dict(assign), path))
            return
        if n in seen:
            return
        seen = seen | {n}
        if node.kind == "stmt" and node.stmt is not None:
            names = locals_assigned(node.stmt)
            if names:
                # an assignment of a constant to a local makes later tests of that local decidable
                assign = {k: v for k, v in assign.items() if not any(_mentions(k, nm) for nm in names)}
                st = node.stmt
                if isinstance(st, ast.Assign) and isinstance(st.value, ast.Constant) and isinstance(st.value.value, bool):
                    for t in st.targets:
                        if isinstance(t, ast.Name):
                            assign[t.id] = st.value.value
                elif isinstance(st, ast.Assign) and isinstance(st.value, ast.Constant) and st.value.value is None:
                    for t in st.targets:
                        if isinstance(t, ast.Name):
                            assign[f"{t.id} is None"] = True
                            assign[t.id] = False
        if node.kind == "test":
            test = node.stmt.test
            for b, lab in g.succ[n]:
                if lab not in ("true", "false"):
                    continue
                for part in split_test(test, lab == "true"):
                    merged = _merge(sorted(assign.items()), part, imply=True)
                    if merged is None:
                        continue
                    go(b, dict(merged), path, seen)
            return
        for b, lab in g.succ[n]:
            if lab == "exc":
                continue
            go(b, assign, path, seen)

    go(start, {}, [], frozenset())
    return out


def _mentions(atom: str, nm: str) -> bool:
    import re
    return re.search(rf"(?<![\w.]){re.escape(nm)}(?![\w])", atom) is not None


# ===================================================================== upsert chain (issue #13130 class)
# A bound parameter rendered *after* the VALUES list of an INSERT (upsert SET / WHERE) takes, in a batched
# "insertmanyvalues" statement, the value of the FIRST parameter set of the batch only.  The library protects
# such statements by a three-stage chain:
#   producers  dialect compilers process those expressions with is_upsert_set=True,
#   detector   SQLCompiler.visit_bindparam sets _InsertManyValues.has_upsert_bound_parameters,
#   consumer   SQLCompiler._deliver_insertmanyvalues_batches then delivers row at a time.
from ..astutil import (  # noqa: E402
    call_name, calls_in, enclosing_stmt, guard_atoms, lexical_guards, walk_local, walk_stmts,
)
from ..evalx import Evaluator, Sym  # noqa: E402

COMP = "sql/compiler.py"
FLAG_KW = "is_upsert_set"
FLAG_FIELD = "has_upsert_bound_parameters"


def post_values_clause_classes(ctx):
    """Classes of clause elements that install themselves at the INSERT's "post_values" extension point
    (`apply_to_insert` -> apply_syntax_extension_point(..., "post_values")) and have a visit name."""
    ix = ctx.index
    out = []
    for c in ix.all_classes():
        if c.module.relpath.startswith("testing/"):
            continue
        if "__visit_name__" not in c.assigns:
            continue
        m = ix.resolve_method(c, "apply_to_insert")
        if m is None:
            continue
        pv = False
        for call in calls_in(m.node):
            if (call_name(call) or "").endswith("apply_syntax_extension_point"):
                if any(isinstance(a, ast.Constant) and a.value == "post_values" for a in call.args):
                    pv = True
        if not pv:
            continue
        vn = c.assigns["__visit_name__"][-1]
        if isinstance(vn, ast.Constant) and isinstance(vn.value, str):
            out.append((c, vn.value))
    return sorted(out, key=lambda cv: cv[0].key)


def clause_expression_attrs(ctx, cls):
    """(set_dict_attrs, own_expression_attrs) of a post-values clause class, from its _traverse_internals:
    dp_dml_values attributes hold the {column: value} SET dictionary, dp_clauseelement attributes declared by the
    class itself (not inherited) hold single expressions rendered with the SET list (the DO UPDATE ... WHERE)."""
    ev = Evaluator(ctx.index, symbolic_classes={"InternalTraversal"})

    def table(c):
        v = ev.class_value(c, "_traverse_internals")
        if not isinstance(v, (list, tuple)):
            return None
        out = []
        for e in v:
            if isinstance(e, (list, tuple)) and len(e) == 2 and isinstance(e[0], str) and isinstance(e[1], Sym):
                out.append((e[0], e[1].short))
            else:
                return None
        return out

    mine = table(cls)
    ctx.require(mine is not None, f"{cls.key}._traverse_internals is not a literal table")
    inherited = set()
    for b in ctx.index.mro(cls)[1:]:
        if "_traverse_internals" in b.assigns:
            t = table(b)
            if t:
                inherited |= set(t)
    sets = [a for a, k in mine if k == "dp_dml_values"]
    exprs = [a for a, k in mine if k == "dp_clauseelement" and (a, k) not in inherited]
    return sets, exprs


class _Taint:
    """Which local expressions of an upsert visitor denote a SET value ('set'), a SET dictionary ('dict'),
    its items ('items'), a key ('key') or an own single expression of the clause ('where')."""

    def __init__(self, fn, elem_param, set_attrs, expr_attrs):
        self.fn = fn
        self.aliases = {elem_param}
        self.set_attrs = set(set_attrs)
        self.expr_attrs = set(expr_attrs)
        self.env: Dict[str, str] = {}
        for _ in range(3):
            for st in walk_stmts(fn.body):
                self._stmt(st)

    def _bind(self, target, t):
        if isinstance(target, ast.Name):
            if t:
                self.env[target.id] = t
        elif isinstance(target, (ast.Tuple, ast.List)) and t == "item" and len(target.elts) == 2:
            self._bind(target.elts[0], "key")
            self._bind(target.elts[1], "set")

    def _stmt(self, st):
        if isinstance(st, ast.Assign):
            if len(st.targets) == 1 and isinstance(st.targets[0], ast.Name) and isinstance(st.value, ast.Name) \
                    and st.value.id in self.aliases:
                self.aliases.add(st.targets[0].id)
                return
            t = self.taint(st.value)
            for tg in st.targets:
                self._bind(tg, t)
        elif isinstance(st, (ast.For, ast.AsyncFor)):
            self._bind(st.target, self._elem(self.taint(st.iter)))

    @staticmethod
    def _elem(t):
        return {"items": "item", "values": "set", "dict": "key"}.get(t or "", None)

    def taint(self, e) -> Optional[str]:
        if isinstance(e, ast.Name):
            return self.env.get(e.id)
        if isinstance(e, ast.Attribute):
            if isinstance(e.value, ast.Name) and e.value.id in self.aliases:
                if e.attr in self.set_attrs:
                    return "dict"
                if e.attr in self.expr_attrs:
                    return "where"
                return None
            return None
        if isinstance(e, ast.Subscript):
            t = self.taint(e.value)
            return "set" if t == "dict" else None
        if isinstance(e, ast.Call):
            f = e.func
            if isinstance(f, ast.Attribute):
                rt = self.taint(f.value)
                if rt == "dict":
                    if f.attr == "items":
                        return "items"
                    if f.attr == "values":
                        return "values"
                    if f.attr in ("pop", "get", "setdefault"):
                        return "set"
                    if f.attr == "copy":
                        return "dict"
                    return None
                if rt in ("set", "where"):
                    return rt                       # value.self_group(), value._with_binary_element_type(..)
            if isinstance(f, ast.Name) and f.id == "dict" and len(e.args) == 1 and self.taint(e.args[0]) == "dict":
                return "dict"
            ts = [self.taint(a) for a in e.args] + [self.taint(k.value) for k in e.keywords]
            for want in ("set", "where"):
                if want in ts:
                    return want                     # coercions.expect(role, v), replacement_traverse(val, ..)
            return None
        if isinstance(e, ast.DictComp):
            saved = dict(self.env)
            for g in e.generators:
                self._bind(g.target, self._elem(self.taint(g.iter)))
            t = self.taint(e.value)
            self.env = saved
            return "dict" if t == "set" else None
        if isinstance(e, ast.IfExp):
            return self.taint(e.body) or self.taint(e.orelse)
        if isinstance(e, ast.BoolOp):
            for v in e.values:
                t = self.taint(v)
                if t:
                    return t
        return None


def _passes_flag(fn, call: ast.Call) -> bool:
    for k in call.keywords:
        if k.arg == FLAG_KW:
            return isinstance(k.value, ast.Constant) and k.value.value is True
    # **d where the local dict d was given the flag
    for k in call.keywords:
        if k.arg is None and isinstance(k.value, ast.Name):
            d = k.value.id
            for n in walk_local(fn):
                if isinstance(n, ast.Call):
                    nm = call_name(n) or ""
                    if (nm == f"{d}.update" or (nm == "dict" and any(
                            isinstance(p, ast.Assign) and any(isinstance(t, ast.Name) and t.id == d for t in p.targets) and p.value is n
                            for p in walk_local(fn) if isinstance(p, ast.Assign)))) \
                            and any(kk.arg == FLAG_KW and isinstance(kk.value, ast.Constant) and kk.value.value is True for kk in n.keywords):
                        return True
                if isinstance(n, ast.Assign) and len(n.targets) == 1 and isinstance(n.targets[0], ast.Subscript) \
                        and isinstance(n.targets[0].value, ast.Name) and n.targets[0].value.id == d \
                        and isinstance(n.targets[0].slice, ast.Constant) and n.targets[0].slice.value == FLAG_KW \
                        and isinstance(n.value, ast.Constant) and n.value.value is True:
                    return True
    return False


def upsert_producers(ctx):
    """One instance per (upsert visitor of a dialect compiler, role in {set-values, update-where}).  Returns count."""
    ix = ctx.index
    base = ix.cls(f"{COMP}::SQLCompiler")
    classes = post_values_clause_classes(ctx)
    ctx.require(len(classes) >= 3, f"only {len(classes)} post-values clause classes found")
    by_vn: Dict[str, Tuple[set, set]] = {}
    for c, vn in classes:
        sets, exprs = clause_expression_attrs(ctx, c)
        if not sets:
            continue                                  # DO NOTHING: nothing rendered per row
        cur = by_vn.setdefault(vn, (set(), set()))
        cur[0].update(sets)
        cur[1].update(exprs)
    ctx.require(by_vn, "no post-values clause with a SET dictionary (dp_dml_values) found")
    n = 0
    for vn, (sets, exprs) in sorted(by_vn.items()):
        visitors = [c.methods["visit_" + vn] for c in [base] + list(ix.subclasses(base)) if "visit_" + vn in c.methods]
        ctx.require(visitors, f"no compiler implements visit_{vn}")
        for f in sorted(visitors, key=lambda f: f.key):
            ctx.functions_analysed.add(f.key)
            params = [p for p in f.params if p not in ("self", "cls")]
            ctx.require(params, f"{f.key} has no element parameter")
            tn = _Taint(f.node, params[0], sets, exprs)
            roles = {"set": [], "where": []}
            for call in calls_in(f.node):
                if call_name(call) != "self.process" or not call.args:
                    continue
                t = tn.taint(call.args[0])
                if t in roles:
                    roles[t].append(call)
            ctx.require(roles["set"], f"{f.key}: no self.process(<value of {sorted(sets)}>) found -- the SET values are rendered "
                                      f"in a way the rule does not understand")
            # is batching possible for this dialect at all?
            dialect_imv = None
            for dc in ix.all_classes():
                if dc.module is f.module and "statement_compiler" in dc.assigns:
                    sc = dc.assigns["statement_compiler"][-1]
                    if isinstance(sc, ast.Name) and f.cls is not None and sc.id == f.cls.name:
                        owner, nodes = ix.class_attr_nodes(dc, "use_insertmanyvalues")
                        node = nodes[-1] if nodes else None
                        dialect_imv = bool(isinstance(node, ast.Constant) and node.value is True)
            for role, calls in roles.items():
                if not calls:
                    continue
                key = f"{f.key}:{'set-values' if role == 'set' else 'update-where'}"
                n += 1
                if dialect_imv is False:
                    ctx.ok(key, "dialect does not batch INSERTs (use_insertmanyvalues is not True)", nontrivial=False)
                    continue
                bad = [c for c in calls if not _passes_flag(f.node, c)]
                what = "a value of the upsert SET clause" if role == "set" else "the WHERE expression of the upsert's UPDATE"
                ctx.check(not bad, key,
                          f"{len(bad)} of {len(calls)} rendering(s) of {what} do not pass `{FLAG_KW}=True` "
                          f"(`{unparse(bad[0])[:90] if bad else ''}`): a bindparam() in it that takes its value from each "
                          f"parameter set is not detected, the executemany INSERT..RETURNING is batched and every row of a batch "
                          f"is executed with the FIRST parameter set's value for that placeholder (issue #13130 class; sibling "
                          f"compilers do pass the flag)",
                          f"{len(calls)} rendering(s), all with {FLAG_KW}=True",
                          f"{f.module.path}:{(bad[0] if bad else calls[0]).lineno}")
    return n


def _detector_site(ctx):
    """(function, statement, call) of `<imv>._replace(has_upsert_bound_parameters=True)` in SQLCompiler."""
    ix = ctx.index
    comp = ix.cls(f"{COMP}::SQLCompiler")
    imv = ix.cls(f"{COMP}::_InsertManyValues")
    fld = [st for st in imv.node.body if isinstance(st, ast.AnnAssign) and isinstance(st.target, ast.Name) and st.target.id == FLAG_FIELD]
    ctx.require(len(fld) == 1 and isinstance(fld[0].value, ast.Constant) and fld[0].value.value is False,
                f"_InsertManyValues.{FLAG_FIELD} is not a field defaulting to False")
    sites = []
    for f in comp.methods.values():
        for c in calls_in(f.node):
            if any(k.arg == FLAG_FIELD for k in c.keywords):
                sites.append((f, c))
    # also any constructor call passing the field positionally cannot be seen; require keyword use
    ctx.require(len(sites) == 1, f"expected exactly one place that sets {FLAG_FIELD} in SQLCompiler, found "
                                 f"{[f.key for f, _ in sites]}")
    f, c = sites[0]
    kw = [k for k in c.keywords if k.arg == FLAG_FIELD][0]
    ctx.require(isinstance(kw.value, ast.Constant) and kw.value.value is True and (call_name(c) or "").endswith("._replace"),
                f"{f.key}: {FLAG_FIELD} is not set with ._replace({FLAG_FIELD}=True)")
    return f, c


def upsert_detector(ctx, prefix=None):
    """Two instances: the detection is evaluated before every rendering of a placeholder; its condition accepts
    every bindparam() without a fixed value."""
    ix = ctx.index
    vb = ctx.func(f"{COMP}::SQLCompiler.visit_bindparam")
    ctx.require(FLAG_KW in vb.params, f"visit_bindparam has no `{FLAG_KW}` parameter")
    pm = vb.module.parents()
    g = ctx.cfg(vb)
    df, dcall = _detector_site(ctx)
    base = prefix or vb.key
    if df is vb:
        st = enclosing_stmt(pm, dcall)
        guards = lexical_guards(pm, st, stop=vb.node)
        # the outermost `if` that decides about the store
        outer = None
        cur = st
        while cur is not None and cur is not vb.node:
            par = pm.get(cur)
            if isinstance(par, ast.If) and par is not None:
                outer = par
            cur = par
        by = g.nodes_for(outer) if outer is not None else g.nodes_for(st)
        bp_name = vb.params[1] if len(vb.params) > 1 else "bindparam"
    else:
        # one level of helper: visit_bindparam must call it
        calls = [c for c in calls_in(vb.node) if call_name(c) == f"self.{df.name}"]
        ctx.require(calls, f"{FLAG_FIELD} is set in {df.key}, which visit_bindparam does not call")
        by = [n for c in calls for n in g.nodes_containing(c)]
        st = enclosing_stmt(df.module.parents(), dcall)
        guards = lexical_guards(pm, enclosing_stmt(pm, calls[0]), stop=vb.node) + \
            lexical_guards(df.module.parents(), st, stop=df.node)
        bp_name = vb.params[1] if len(vb.params) > 1 else "bindparam"
    ctx.require(by, "detection statement not in the CFG")
    # (1) dominance over the renderings of a placeholder
    targets = []
    for c in calls_in(vb.node):
        nm = call_name(c)
        if nm == "self.bindparam_string":
            targets.append(("bindparam_string", c))
        elif nm == "self.process":
            fwd = any(k.arg == FLAG_KW and isinstance(k.value, ast.Name) and k.value.id == FLAG_KW for k in c.keywords)
            if not fwd:
                targets.append(("process", c))
    ctx.require(any(k == "bindparam_string" for k, _ in targets), "visit_bindparam does not call self.bindparam_string")
    from ..cfg import no_exc
    witness = None
    which = None
    for kind, c in targets:
        for n in g.nodes_containing(c):
            w = g.always_preceded(n, by, edge_ok=no_exc)
            if w is not None and witness is None:
                witness, which = w, (kind, c)
    ctx.check(witness is None, f"{base}:upsert-detection-precedes-rendering",
              f"`{unparse(which[1])[:70] if which else ''}` "
              + ("(the re-entrant rendering of the type's bind_expression(), which does not forward "
                 f"`{FLAG_KW}` because it is a named parameter of visit_bindparam) " if which and which[0] == "process" else "")
              + f"can be reached without the test that sets {FLAG_FIELD}: a per-row bindparam() in an upsert SET clause "
                f"is then rendered but not detected, the statement is batched and rows 2..n get the first row's value",
              f"{len(targets)} placeholder rendering(s) all preceded by the {FLAG_FIELD} test", vb.loc, witness)
    # (2) the condition
    cond_parts = []
    for t, pol in guards:
        cond_parts.append(t if pol else ast.UnaryOp(op=ast.Not(), operand=t))
    ctx.require(cond_parts, f"{FLAG_FIELD} is set unconditionally")
    cond = cond_parts[0] if len(cond_parts) == 1 else ast.BoolOp(op=ast.And(), values=cond_parts)
    # a local that is bound once stands for its defining expression (`valueless = bp.value is None and ...`)
    import copy
    single = {}
    for fn_ in {vb.node, df.node}:
        for n_ in walk_local(fn_):
            if isinstance(n_, ast.Assign) and len(n_.targets) == 1 and isinstance(n_.targets[0], ast.Name):
                single.setdefault(n_.targets[0].id, []).append(n_.value)
    single = {k: v[0] for k, v in single.items() if len(v) == 1 and k not in vb.params and k not in df.params}

    class _Expand(ast.NodeTransformer):
        depth = 0

        def visit_Name(self, node):
            if node.id in single and self.depth < 5:
                self.depth += 1
                out = self.visit(copy.deepcopy(single[node.id]))
                self.depth -= 1
                return out
            return node

    cond = ast.fix_missing_locations(_Expand().visit(copy.deepcopy(cond)))
    sat = split_test(cond, True)
    atoms = sorted({a for part in sat for a, _ in part} | {a for part in split_test(cond, False) for a, _ in part})
    fixed = {}
    free = []
    for a in atoms:
        if a == FLAG_KW:
            fixed[a] = True
        elif a.replace(" ", "") in ("self._insertmanyvaluesisNone",):
            fixed[a] = False
        elif a == "self._insertmanyvalues":
            fixed[a] = True
        elif a == f"{bp_name}.value is None" or a == f"{bp_name}.callable is None":
            fixed[a] = True                           # the documented case: no fixed value, no callable
        elif a in (f"{bp_name}.value", f"{bp_name}.callable"):
            fixed[a] = False
        elif a.startswith(bp_name + "."):
            free.append(a)                            # any other property of the parameter must not matter
        else:
            ctx.error(f"visit_bindparam: the condition under which {FLAG_FIELD} is set tests `{a}`, which the rule does not understand")
    bad_state = None
    for bits in range(1 << len(free)):
        state = dict(fixed)
        for i, a in enumerate(free):
            state[a] = bool(bits >> i & 1)
        if not any(all(state.get(a) == v for a, v in part) for part in sat):
            bad_state = {a: state[a] for a in free}
            break
    ctx.check(bad_state is None, f"{base}:upsert-detection-condition",
              f"`{unparse(cond)[:160]}` is false for a bindparam() that has neither value nor callable when {bad_state}: "
              f"such a parameter (e.g. bindparam('x', None), required=False) still takes its value from every parameter set, "
              f"but the statement is batched and rows 2..n of a batch get the first row's value "
              f"(_InsertManyValues.{FLAG_FIELD} is documented as `value is None and callable is None`)",
              f"true for every bindparam with value None and callable None ({len(free)} other atom(s))", vb.loc)
    return 2


def upsert_consumer(ctx):
    """C12 side: flag => row-at-a-time (under the RETURNING assumption established by the crud.py guard), the crud.py
    guard itself, and the ordering in visit_insert.  Returns the number of instances."""
    ix = ctx.index
    n = 0
    # (K1) crud.py: batching without RETURNING is off when a post-values clause is present
    crud = ix.module("sql/crud.py")
    found = None
    for f in ix.all_functions(crud):
        for node in walk_local(f.node):
            if isinstance(node, ast.Assign) and len(node.targets) == 1 and isinstance(node.targets[0], ast.Name) \
                    and node.targets[0].id == "use_insertmanyvalues" and isinstance(node.value, ast.BoolOp):
                found = (f, node)
    ctx.require(found is not None, "crud.py: `use_insertmanyvalues = <condition>` not found")
    f, node = found
    ctx.functions_analysed.add(f.key)
    sat = split_test(node.value, True)
    pv_atom = [a for part in sat for a, _ in part if a.replace(" ", "").endswith("._post_values_clauseisNone")]
    ret_atoms = sorted({a for part in sat for a, _ in part if a == "explicit_returning"})
    ctx.require(ret_atoms, "crud.py: use_insertmanyvalues does not depend on `explicit_returning`")
    pv = pv_atom[0] if pv_atom else None
    bad = [part for part in sat if dict(part).get("explicit_returning") is not True and (pv is None or dict(part).get(pv) is not True)]
    n += 1
    ctx.check(not bad, f"{f.key}:no-returning-batching-excludes-post-values-clause",
              f"`use_insertmanyvalues` can be true without RETURNING for a statement that has a post-values (upsert) clause "
              f"(satisfying case {bad[0] if bad else ''}): such a batch cannot be downgraded to row-at-a-time by "
              f"_deliver_insertmanyvalues_batches (which requires result columns) and a per-row SET parameter gets the first row's value",
              "without explicit RETURNING batching requires `stmt._post_values_clause is None`", f"{crud.path}:{node.lineno}")
    # (K2) visit_insert: every store of self._insertmanyvalues precedes the rendering of the post-values clause
    vi = ctx.func(f"{COMP}::SQLCompiler.visit_insert")
    g = ctx.cfg(vi)
    from ..cfg import no_exc
    pcalls = [c for c in calls_in(vi.node) if call_name(c) == "self.process" and c.args
              and isinstance(c.args[0], ast.Attribute) and c.args[0].attr == "_post_values_clause"]
    ctx.require(len(pcalls) == 1, "visit_insert: self.process(insert_stmt._post_values_clause, ...) not found")
    pn = g.nodes_containing(pcalls[0])
    stores = [nd.id for nd in g.nodes if nd.kind == "stmt" and isinstance(nd.stmt, ast.Assign)
              and any(isinstance(t, ast.Attribute) and t.attr == "_insertmanyvalues" and isinstance(t.value, ast.Name) and t.value.id == "self"
                      for t in nd.stmt.targets)
              # `self._insertmanyvalues._replace(...)` keeps every field it does not name, the mark included
              and not (isinstance(nd.stmt.value, ast.Call) and (call_name(nd.stmt.value) or "") == "self._insertmanyvalues._replace"
                       and not any(k.arg == FLAG_FIELD for k in nd.stmt.value.keywords))]
    ctx.require(stores, "visit_insert: no store of self._insertmanyvalues")
    w = g.witness(pn, stores, edge_ok=no_exc)
    n += 1
    ctx.check(w is None, f"{vi.key}:imv-established-before-post-values-clause",
              "self._insertmanyvalues is (re)assigned after the post-values clause was rendered: the "
              f"{FLAG_FIELD} mark left by visit_bindparam is lost (or visit_bindparam saw None)",
              f"{len(stores)} store(s) of self._insertmanyvalues, none reachable from the rendering of the post-values clause",
              vi.loc, g.describe_path(w) if w else None)
    # (K3) the consumer
    cb = ctx.func(f"{COMP}::SQLCompiler._deliver_insertmanyvalues_batches")
    g = ctx.cfg(cb)
    pm = cb.module.parents()
    loops = [x for x in walk_local(cb.node) if isinstance(x, ast.For) and any(isinstance(y, ast.Yield) for y in ast.walk(x))]
    mode_if = None
    for fr in loops:
        par = pm.get(fr)
        if isinstance(par, ast.If) and isinstance(par.test, ast.Name) and any(s is fr for s in par.body):
            mode_if = par
    ctx.require(mode_if is not None, "_deliver_insertmanyvalues_batches: `if <row-at-a-time flag>:` around the single-row loop not found")
    mode = mode_if.test.id
    tn = g.nodes_for(mode_if)
    ctx.require(len(tn) == 1, "mode test node not unique")
    paths = bool_paths(g, g.entry, lambda i: i == tn[0])
    flag_atom = None
    witness = None
    npaths = 0
    for end, assign, path in paths:
        if end != tn[0]:
            continue
        npaths += 1
        fa = [a for a in assign if a.endswith("." + FLAG_FIELD)]
        if fa:
            flag_atom = fa[0]
        if any(assign[a] is False for a in fa):
            continue                                  # the statement has no per-row parameter after VALUES
        if assign.get("self._result_columns") is False:
            continue                                  # excluded by (K1): an upsert is only batched with RETURNING
        val = assign.get(mode)
        if val is not True and witness is None:
            witness = (assign, path)
    ctx.require(npaths > 0, "no path reaches the row-at-a-time test")
    n += 1
    if witness is None and flag_atom is None:
        ctx.violation(f"{cb.key}:upsert-bound-parameters-force-row-at-a-time",
                      f"imv.{FLAG_FIELD} is never consulted when choosing between batch mode and row-at-a-time", cb.loc)
    else:
        why = ""
        if witness:
            rel = {a: v for a, v in witness[0].items() if a != mode and ("imv." in a or "self." in a or a.startswith("sort_by"))
                   and not (a.endswith(" is None") and a[: -len(" is None")] in witness[0])}
            why = ", ".join(f"{a}={v}" for a, v in sorted(rel.items()))
        ctx.check(witness is None, f"{cb.key}:upsert-bound-parameters-force-row-at-a-time",
                  f"batch mode (`{mode}` not True) is chosen although the statement may have a per-row bound parameter in its upsert "
                  f"clause ({FLAG_FIELD}): path condition [{why}].  There is one SET/WHERE clause per statement, so every row of the "
                  f"batch is executed with the first parameter set's value for that placeholder",
                  f"{npaths} path(s): {FLAG_FIELD} always selects row-at-a-time", cb.loc,
                  g.describe_path(witness[1])[-12:] if witness else None)
    return n


# ===================================================================== sentinel: negative increments
def sentinel_negative_increment(ctx, incrementing_kinds):
    """In Table._sentinel_column_characteristics: a server-generated incrementing default (IDENTITY / SEQUENCE) may be
    characterised as such only if its increment was tested and found non-negative, or the candidate sentinel was dropped
    (the_sentinel = None) / the configuration rejected (raise).  One instance per kind."""
    f = ctx.func("sql/schema.py::Table._sentinel_column_characteristics")
    g = ctx.cfg(f)
    rets = [r for r in walk_local(f.node) if isinstance(r, ast.Return) and r.value is not None]
    ctx.require(len(rets) == 1 and isinstance(rets[0].value, ast.Call), "_sentinel_column_characteristics: single `return <ctor>(...)` expected")
    rcall = rets[0].value
    ctx.require(rcall.args and isinstance(rcall.args[0], ast.Name), "first field of the returned characterisation is not a local")
    cand = rcall.args[0].id                           # the candidate sentinel column(s)
    chars = [a for a in rcall.args[1:] + [k.value for k in rcall.keywords] if isinstance(a, ast.Name)]
    stores = {}
    for nd in g.nodes:
        if nd.kind == "stmt" and isinstance(nd.stmt, ast.Assign) and len(nd.stmt.targets) == 1 and isinstance(nd.stmt.targets[0], ast.Name):
            v = nd.stmt.value
            if isinstance(v, ast.Attribute) and isinstance(v.value, ast.Name) and v.value.id == "_SentinelDefaultCharacterization":
                stores.setdefault(v.attr, []).append(nd.id)
    n = 0
    kills = {nd.id for nd in g.nodes if nd.kind == "stmt" and isinstance(nd.stmt, ast.Assign)
             and any(isinstance(t, ast.Name) and t.id == cand for t in nd.stmt.targets)
             and isinstance(nd.stmt.value, ast.Constant) and nd.stmt.value.value is None}
    paths = bool_paths(g, g.entry, lambda i: False)
    # a local that only ever holds `<x>._increment_is_negative` stands for that test
    alias = {}
    for nd in g.nodes:
        if nd.kind == "stmt" and isinstance(nd.stmt, ast.Assign) and len(nd.stmt.targets) == 1 and isinstance(nd.stmt.targets[0], ast.Name):
            alias.setdefault(nd.stmt.targets[0].id, []).append(unparse(nd.stmt.value))
    neg_names = {nm for nm, vals in alias.items() if all(v.endswith("._increment_is_negative") for v in vals)}

    def is_neg_atom(a):
        return a.endswith("._increment_is_negative") or a in neg_names

    for kind in incrementing_kinds:
        ctx.require(kind in stores, f"_sentinel_column_characteristics never assigns _SentinelDefaultCharacterization.{kind}")
        witness = None
        count = 0
        for end, assign, path in paths:
            if end != g.exit:
                continue
            hit = [i for i in path if i in stores[kind]]
            if not hit:
                continue
            count += 1
            neg = {a: v for a, v in assign.items() if is_neg_atom(a)}
            killed = any(i in kills for i in path)
            ok = killed or any(v is False for v in neg.values())
            if not ok and (witness is None or len(path) < len(witness[1])):
                witness = (neg, path)
        ctx.require(count > 0, f"no complete path assigns {kind}")
        n += 1
        ctx.check(witness is None, f"{f.key}:negative-increment:{kind}",
                  f"a column whose default is characterised as {kind} is kept as (implicit) sentinel on a path where its increment "
                  + (f"is negative ({witness[0]})" if witness and witness[0] else "was never tested for being negative")
                  + f" and `{cand}` is not dropped: DefaultDialect._deliver_insertmanyvalues_batches sorts the returned rows "
                    f"ASCENDING by the sentinel, so with a descending generator every batch is returned in reverse parameter order",
                  f"{count} path(s): increment tested non-negative, or candidate dropped / rejected", f.loc,
                  g.describe_path(witness[1])[-14:] if witness else None)
    return n
