"""C43 -- ORM UPDATE/DELETE keep in-session objects in sync (criteria evaluator 3VL discipline)."""

from __future__ import annotations

import ast
import re

from ..astutil import (
    FuncNode, call_name, calls_in, const_str, dotted, guard_atoms, lexical_guards, nested_functions,
    raised_name, test_atoms, unparse, walk_local, walk_stmts,
)
from ..cfg import no_exc
from ..oracles import load
from ..report import Registry, chain, sub
from . import _helpers_rob_g1 as G

R = Registry(
    "C43",
    title="ORM-enabled UPDATE/DELETE keep in-session objects in sync with the database",
    decides=(
        "three-valued-logic discipline of orm.evaluator._EvaluatorCompiler: every sub-evaluator result is "
        "tested against the _EXPIRED_OBJECT sentinel (and NULL where a Python operator is applied) before "
        "any other use; AND/OR clause lists return early only with their absorbing value and decide NULL "
        "after the loop; every visit_<op>_binary_op is implemented with Python semantics that agree with "
        "SQL or guards/raises on the diverging part (oracle evaluator_sql_semantics.json); the bulk "
        "UPDATE/DELETE synchronisation catches UnevaluatableError as documented ('evaluate' raises "
        "InvalidRequestError, 'auto' falls back to fetch), matches objects by identity tests on the "
        "evaluator result, consumes the undecided (expired) flag and never stores the sentinel; the in-session "
        "candidates of the evaluate synchroniser are filtered by mapper, not-expired and -- exactly when a token was "
        "given -- identity token; identity tokens are tested with `is None`/`is not None`, never for truthiness; the "
        "statement's WHERE criteria and options (loader criteria) flow into the pre-fetch SELECT of 'fetch' and into the "
        "criteria compiled for 'evaluate', and the pre-fetch SELECT is executed with the statement's parameters, execution "
        "options and bind arguments."
    ),
    not_decided=(
        "equality of evaluated and database truth for arbitrary criteria (collations, numeric precision, "
        "division by zero, type coercion); what the 'fetch' strategy does with the fetched rows; RETURNING handling."
    ),
)

EV = "orm/evaluator.py"
BP = "orm/bulk_persistence.py"
COMP = f"{EV}::_EvaluatorCompiler"


def _closures(fn):
    """nested one-parameter functions (the `evaluate(obj)` closures) of a visit method"""
    out = []
    for n in ast.walk(fn):
        if n is not fn and isinstance(n, FuncNode):
            a = n.args
            if len(a.args) == 1 and not a.vararg and not a.kwarg:
                out.append(n)
    return out


def _is_name(e, name):
    d = dotted(e) if isinstance(e, (ast.Name, ast.Attribute)) else None
    return d is not None and d.split(".")[-1] == name


def _cut(g, t, clean):
    """nodes reachable from entry when the `clean` outcome edge(s) of test node t are removed, i.e. everything that can
    run while the tested value may still be the sentinel"""
    return g.reachable([g.entry], edge_ok=lambda a, b, l: not (a == t and l == clean))


def _sentinel_tests(g, var, sentinel):
    """test nodes one outcome of which implies `var is not <sentinel>` (`if v is S: ...` -> the false outcome,
    `if v is not S and ...: ...` -> the true outcome) -> [(node id, the other outcome returns the sentinel, clean label)]"""
    out = []
    for n in g.nodes:
        if n.kind != "test" or not isinstance(n.stmt, ast.If):
            continue
        for clean in ("false", "true"):
            atoms = test_atoms(n.stmt.test, clean == "true")
            if any(p is False and re.fullmatch(rf"{re.escape(var)} is (\w+\.)*{sentinel}", a) for a, p in atoms):
                other = "true" if clean == "false" else "false"
                osucc = [b for b, l in g.succ[n.id] if l == other]
                # `return <var>` hands back the sentinel too when the test compares nothing but <var> by identity
                # (`if v is S: return v`, `if v is S or v is T: return v`)
                same = _only_identity_tests_on(n.stmt.test, var)
                rets = bool(osucc) and all(
                    isinstance(g.nodes[b].stmt, ast.Return) and g.nodes[b].kind == "stmt" and g.nodes[b].stmt.value is not None
                    and ((_is_name(g.nodes[b].stmt.value, sentinel) if sentinel != "None" else
                          (isinstance(g.nodes[b].stmt.value, ast.Constant) and g.nodes[b].stmt.value.value is None))
                         or (same and isinstance(g.nodes[b].stmt.value, ast.Name) and g.nodes[b].stmt.value.id == var))
                    for b in osucc
                )
                out.append((n.id, rets, clean))
                if rets:
                    _SENTINEL_RETURNS.setdefault(id(g), set()).update(osucc)
                break
    return out


#: {id(cfg): node ids of `return <sentinel>` / `return <tested variable>` statements accepted as the sentinel branch}
_SENTINEL_RETURNS: dict = {}


def _only_identity_tests_on(test, var):
    """is `test` built (and / or / not) from identity comparisons `<var> is X` / `<var> is not X` of this one variable only"""
    if isinstance(test, ast.BoolOp):
        return all(_only_identity_tests_on(v, var) for v in test.values)
    if isinstance(test, ast.UnaryOp) and isinstance(test.op, ast.Not):
        return _only_identity_tests_on(test.operand, var)
    return (isinstance(test, ast.Compare) and len(test.ops) == 1 and isinstance(test.ops[0], (ast.Is, ast.IsNot))
            and isinstance(test.left, ast.Name) and test.left.id == var)


def _sub_calls(cl, outer=None):
    """{evaluator name: [call nodes E(obj)]} inside closure cl.  An evaluator is a parameter of the
    enclosing visit method, a local of it bound from self.process(...), or a loop variable of the
    closure that iterates over such a parameter (never a module-level function)."""
    p = cl.args.args[0].arg
    evs = None
    if outer is not None:
        a = outer.args
        evs = {x.arg for x in a.args + a.kwonlyargs}
        for n in walk_local(outer):
            if isinstance(n, ast.Assign) and isinstance(n.value, ast.Call) and (call_name(n.value) or "").endswith(".process"):
                evs |= {t.id for t in n.targets if isinstance(t, ast.Name)}
        for n in walk_local(cl):
            if isinstance(n, ast.For) and isinstance(n.target, ast.Name) and isinstance(n.iter, ast.Name) and n.iter.id in evs:
                evs = evs | {n.target.id}
    out = {}
    for c in calls_in(cl):
        if isinstance(c.func, ast.Name) and len(c.args) == 1 and not c.keywords \
                and isinstance(c.args[0], ast.Name) and c.args[0].id == p and (evs is None or c.func.id in evs):
            out.setdefault(c.func.id, []).append(c)
    return out


@R.rule("C43-R1", floor=13, template="T-PATH",
        desc="in every evaluate(obj) closure each sub-evaluator result is tested `is _EXPIRED_OBJECT` "
             "(returning the sentinel) before any other use, and `is None` before a Python operator is "
             "applied; the column getter never emits SQL and maps NO_RESULT to the sentinel")
def r1(ctx):
    cls = ctx.index.cls(COMP)
    pm = cls.module.parents()
    for mname, f in sorted(cls.methods.items()):
        for cl in _closures(f.node):
            subs = _sub_calls(cl, f.node)
            if not subs:
                continue
            ctx.functions_analysed.add(f.key)
            g = ctx.cfg(cl)
            base = f"{f.key}.{cl.name}"
            loc = f"{f.module.path}:{cl.lineno}"
            bound = {}
            for e, cs in sorted(subs.items()):
                key = f"{base}:{e}:expired"
                vs = []
                for c in cs:
                    par = pm.get(c)
                    if isinstance(par, ast.Assign) and par.value is c and len(par.targets) == 1 and isinstance(par.targets[0], ast.Name):
                        vs.append((par.targets[0].id, c))
                if not vs:
                    ctx.violation(key, f"result of sub-evaluator {e}(obj) is used without being bound and tested against _EXPIRED_OBJECT", loc)
                    continue
                v = vs[0][0]
                bound[e] = v
                tests = _sentinel_tests(g, v, "_EXPIRED_OBJECT")
                if not tests:
                    ctx.violation(key, f"{v} = {e}(obj) is never tested `is _EXPIRED_OBJECT`: an expired attribute "
                                       f"would be treated as an ordinary value", loc)
                    continue
                t, rets, clean = tests[0]
                probs = []
                if not rets:
                    probs.append("the expired branch does not return _EXPIRED_OBJECT")
                allowed = _cut(g, t, clean)
                uses = [n for n in ast.walk(cl) if isinstance(n, ast.Name) and n.id == v and isinstance(n.ctx, ast.Load)]
                uses += [c for c in cs if c is not vs[0][1]]
                early = []
                for u in uses:
                    for nid in g.nodes_containing(u):
                        if nid in _SENTINEL_RETURNS.get(id(g), ()):
                            continue  # `return v` in the branch where v IS the sentinel
                        if nid != t and nid in allowed and g.nodes[nid].kind != "entry":
                            early.append(g.nodes[nid].describe())
                if early:
                    probs.append("used before the _EXPIRED_OBJECT test: " + "; ".join(sorted(set(early))[:3]))
                ctx.check(not probs, key, "; ".join(probs), f"{v} tested before use", loc)
            # None before a Python operator is applied to the values
            for r in [n for n in walk_local(cl) if isinstance(n, ast.Return) and n.value is not None]:
                val = r.value
                computing = (
                    isinstance(val, (ast.BinOp,)) or (isinstance(val, ast.UnaryOp) and isinstance(val.op, ast.Not))
                    or (isinstance(val, ast.Call) and isinstance(val.func, ast.Name) and val.func.id not in subs
                        and val.func.id not in ("tuple", "list", "bool"))
                )
                if not computing:
                    continue
                involved = [e for e in subs if any(
                    (isinstance(n, ast.Name) and n.id in (bound.get(e), e)) for n in ast.walk(val))]
                if not involved:
                    continue
                key = f"{base}:none-guard"
                probs = []
                rn = g.nodes_for(r)
                for e in involved:
                    v = bound.get(e)
                    if v is None:
                        probs.append(f"{e}(obj) unbound")
                        continue
                    tests = _sentinel_tests(g, v, "None")
                    ok = False
                    for t, rets, clean in tests:
                        allowed = _cut(g, t, clean)
                        if rets and not any(n in allowed for n in rn):
                            ok = True
                    if not ok:
                        probs.append(f"`{unparse(val)}` is computed without a dominating `{v} is None -> return None` test "
                                     f"(Python would raise or yield a non-NULL result for a NULL operand)")
                ctx.check(not probs, key, "; ".join(probs), f"None tested before `{unparse(val)}`", loc)
    # the column getter
    f = ctx.func(f"{COMP}.visit_column")
    getters = [c for c in _closures(f.node)]
    ctx.require(getters, "visit_column has no getter closure")
    cl = getters[0]
    probs = []
    gets = [c for c in calls_in(cl) if isinstance(c.func, ast.Attribute) and c.func.attr == "get"]
    if not any(any(k.arg == "passive" and unparse(k.value).endswith("PASSIVE_NO_FETCH") for k in c.keywords) for c in gets):
        probs.append("attribute is not read with passive=PASSIVE_NO_FETCH (evaluation could emit SQL / load stale data)")
    g = ctx.cfg(cl)
    found = False
    for n in g.nodes:
        if n.kind == "test" and "PASSIVE_NO_RESULT" in unparse(n.stmt.test) and " is " in unparse(n.stmt.test):
            ts = [b for b, l in g.succ[n.id] if l == "true"]
            if ts and all(isinstance(g.nodes[b].stmt, ast.Return) and _is_name(g.nodes[b].stmt.value, "_EXPIRED_OBJECT") for b in ts):
                found = True
    if not found:
        probs.append("PASSIVE_NO_RESULT is not mapped to _EXPIRED_OBJECT")
    ctx.check(not probs, f"{f.key}.{cl.name}", "; ".join(probs), "PASSIVE_NO_FETCH; NO_RESULT -> _EXPIRED_OBJECT",
              f"{f.module.path}:{cl.lineno}")


ABSORB = {"and": False, "or": True}


@R.rule("C43-R2", floor=2, template="T-SIBLING",
        desc="AND/OR clause-list evaluators implement SQL three-valued logic: the closure is model-checked over every "
             "operand sequence of TRUE/FALSE/NULL/expired up to length 3 -- an absorbing operand (False for AND, True "
             "for OR) decides whatever the other operands are, otherwise NULL if any operand is NULL, otherwise the "
             "identity value; an expired operand yields _EXPIRED_OBJECT (or the absorbing value when one is present)")
def r2(ctx):
    for kind, absorbing in ABSORB.items():
        f = ctx.func(f"{COMP}.visit_{kind}_clauselist_op")
        cls_ = _closures(f.node)
        ctx.require(len(cls_) == 1, f"{f.key}: expected exactly one evaluate closure")
        cl = cls_[0]
        ctx.functions_analysed.add(f.key)
        # the list of sub-evaluators: the parameter of the visit method the closure iterates over / calls elements of
        outer_params = [a.arg for a in f.node.args.args if a.arg not in ("self", "cls")]
        iterated = {n.iter.id for n in ast.walk(cl) if isinstance(n, (ast.For, ast.comprehension)) and isinstance(n.iter, ast.Name)}
        evs = [p for p in outer_params if p in iterated]
        ctx.require(len(evs) == 1, f"{f.key}: the evaluators parameter iterated by the closure not found")
        probs = _clauselist_counterexamples(ctx, f, cl, evs[0], kind, absorbing)
        ctx.check(not probs, f.key, "; ".join(probs[:4]) + (f" (+{len(probs) - 4} more)" if len(probs) > 4 else ""),
                  f"SQL 3VL {kind.upper()} on all operand sequences up to length 3", f.loc)


_SQLNAME = {True: "TRUE", False: "FALSE", None: "NULL"}


def _clauselist_counterexamples(ctx, f, cl, evname, kind, absorbing):
    import itertools
    EXP, NOOBJ = G.Sentinel("_EXPIRED_OBJECT", "self"), G.Sentinel("_NO_OBJECT", "none")
    sent = {"_EXPIRED_OBJECT": EXP, "_NO_OBJECT": NOOBJ}
    obj = G.Opaque("obj")

    def show(v):
        return "expired" if v is EXP else _SQLNAME.get(v, repr(v)) if (v is None or isinstance(v, bool)) else repr(v)

    probs, groups = [], set()
    for n in range(0, 4):
        for seq in itertools.product((True, False, None, EXP), repeat=n):
            evaluators = [(lambda o, v=v: v) for v in seq]
            mi = G.Mini(sent, free={evname: evaluators})
            try:
                res = mi.call(cl, obj)
            except G.Unsupported as e:
                ctx.error(f"{f.key}: the evaluate closure uses a construct outside the model-checked subset: {e}")
            has_exp = any(v is EXP for v in seq)
            has_abs = any(v is absorbing for v in seq)
            if has_exp:
                allowed = [EXP] + ([absorbing] if has_abs else [])
            elif has_abs:
                allowed = [absorbing]
            elif any(v is None for v in seq):
                allowed = [None]
            else:
                allowed = [not absorbing]
            if any(res is a for a in allowed):
                continue
            # one message per kind of error
            if has_exp:
                grp, why = "expired", "an operand that could not be evaluated must make the result _EXPIRED_OBJECT"
            elif has_abs:
                other = _SQLNAME[absorbing]
                grp, why = "absorbing", (f"a {other} operand must decide the result whatever the other operands are "
                                         f"(NULL {kind.upper()} {other} = {other}; e.g. NOT (NULL AND FALSE) is TRUE)")
            elif any(v is None for v in seq):
                grp, why = "null", "NULL must be remembered and returned after the loop when no operand decides"
            else:
                grp, why = "identity", f"without a deciding or NULL operand the result is the identity value {not absorbing}"
            if grp in groups:
                continue
            groups.add(grp)
            probs.append(f"operands ({', '.join(show(v) for v in seq)}) evaluate to {show(res)} but SQL {kind.upper()} gives "
                         f"{' or '.join(show(a) for a in allowed)}: {why}")
    return probs


PYOPS = {"add": ast.Add, "sub": ast.Sub, "mul": ast.Mult, "truediv": ast.Div, "lt": ast.Lt, "le": ast.LtE,
         "gt": ast.Gt, "ge": ast.GtE, "eq": ast.Eq, "ne": ast.NotEq}
PASS = ("_straight_evaluate", "_straight_evaluate_numeric_only")


def _norm_lambda(lam: ast.Lambda) -> str:
    names = [a.arg for a in lam.args.args]
    m = dict(zip(names, "abcdef"))

    class T(ast.NodeTransformer):
        def visit_Name(self, n):
            return ast.copy_location(ast.Name(id=m.get(n.id, n.id), ctx=n.ctx), n)
    import copy
    return unparse(T().visit(copy.deepcopy(lam.body)))


def _guard_marker(kind: str, node: ast.AST) -> bool:
    consts = [n.value for n in ast.walk(node) if isinstance(n, ast.Constant) and isinstance(n.value, str)]
    names = [call_name(c) or "" for c in ast.walk(node) if isinstance(c, ast.Call)]
    if kind in ("truncated-remainder", "truncated-division"):
        return any(n.split(".")[-1] in ("fmod", "trunc") for n in names)
    if kind == "null-in-list":
        for n in ast.walk(node):
            if isinstance(n, ast.Compare) and len(n.ops) == 1:
                if isinstance(n.ops[0], (ast.In, ast.NotIn)) and isinstance(n.left, ast.Constant) and n.left.value is None:
                    return True
                if isinstance(n.ops[0], (ast.Is, ast.IsNot)) and isinstance(n.comparators[0], ast.Constant) \
                        and n.comparators[0].value is None:
                    # only counts inside a comprehension / any() over the list
                    pass
        for n in ast.walk(node):
            if isinstance(n, (ast.GeneratorExp, ast.ListComp, ast.SetComp)) and " is None" in unparse(n):
                return True
        return False
    if kind == "like-wildcards":
        wild = any("%" in c for c in consts) and any("_" in c and len(c) <= 3 for c in consts)
        esc = any(c in ("escape", "autoescape") for c in consts) and any(
            isinstance(n, ast.Attribute) and n.attr == "modifiers" for n in ast.walk(node))
        # both halves are needed: the wildcards of an unescaped operand, and the escape character of an escaped one (with
        # escape= / autoescape=True the evaluator is handed the ESCAPED pattern 'a/_b', which no column value starts with)
        return wild and esc
    if kind == "like-pattern":
        return any(n.startswith("re.") or "regex" in n for n in names)
    return False


@R.rule("C43-R3", floor=19, template="T-TABLE",
        desc="every visit_<op>_binary_op implements <op> with Python semantics that agree with SQL on the "
             "whole domain (oracle), or guards / raises UnevaluatableError on the diverging part")
def r3(ctx):
    orc = load("evaluator_sql_semantics.json")
    agree, diverge = orc["agree"], orc["diverge"]
    cls = ctx.index.cls(COMP)
    entries = {}
    for name, f in cls.methods.items():
        m = re.fullmatch(r"visit_(.+)_binary_op", name)
        if m:
            entries[m.group(1)] = ("method", f)
    for name, vals in cls.assigns.items():
        m = re.fullmatch(r"visit_(.+)_binary_op", name)
        if m:
            ctx.require(len(vals) == 1 and isinstance(vals[0], ast.Name), f"{COMP}.{name}: alias value not understood")
            entries[m.group(1)] = ("alias", vals[0].id)
    for op, (kind, impl) in sorted(entries.items()):
        key = f"{COMP}.visit_{op}_binary_op"
        loc = impl.loc if kind == "method" else cls.loc
        if op not in agree and op not in diverge:
            ctx.error(f"{key}: SQL-vs-Python semantics of operator {op!r} are not in oracle evaluator_sql_semantics.json")
        # ---- classify the implementation
        how, lam, node = None, None, None
        if kind == "alias":
            ctx.require(impl in PASS, f"{key}: alias target {impl} is not a known pass-through evaluator")
            how = "passthrough"
        else:
            f = impl
            ctx.functions_analysed.add(f.key)
            node = f.node
            g = ctx.cfg(f)
            if g.exit not in g.reachable([g.entry]):
                how = "raises"
            else:
                opparam = f.params[1] if len(f.params) > 1 else None
                pcs = [c for c in calls_in(f.node) if (call_name(c) or "").replace("self.", "") in PASS]
                if pcs and not _closures(f.node):
                    a0 = pcs[0].args[0] if pcs[0].args else None
                    if isinstance(a0, ast.Name) and a0.id == opparam:
                        how = "passthrough"
                    elif isinstance(a0, ast.Lambda):
                        how, lam = "lambda", a0
                if how is None and _closures(f.node):
                    how = "custom"
            ctx.require(how is not None, f"{key}: implementation idiom not understood")
        # ---- judge
        if op in diverge:
            d = diverge[op]
            if how == "raises":
                ctx.ok(key, "raises UnevaluatableError")
            elif how == "passthrough" or (how in ("lambda", "custom") and not _guard_marker(d["guard"], node)):
                if how == "custom":
                    ctx.error(f"{key}: custom evaluator for diverging operator {op}: no recognised guard ({d['guard']})")
                shown = f"`{_norm_lambda(lam)}`" if lam is not None else "the Python operator itself"
                more = ("; with escape= / autoescape=True the operand handed to the Python comparison is the escaped pattern "
                        "('a/_b' for 'a_b'), so rows that match in SQL never match in Python (both the wildcards and the "
                        "`escape` modifier must be handled)") if d["guard"] == "like-wildcards" else ""
                ctx.violation(key, f"{op} is evaluated with plain Python semantics ({shown}) but SQL differs: {d['why']}{more}; "
                                   f"neither guarded ({d['guard']}) nor UnevaluatableError", loc)
            else:
                ctx.ok(key, f"guarded ({d['guard']})")
            continue
        exp = agree[op]
        if exp == "operator":
            if how == "passthrough":
                ctx.ok(key, "applies the operator callable itself")
            elif how == "lambda":
                b = lam.body
                names = [a.arg for a in lam.args.args]
                good = False
                if isinstance(b, ast.BinOp):
                    good = isinstance(b.op, PYOPS[op]) and unparse(b.left) == names[0] and unparse(b.right) == names[1]
                elif isinstance(b, ast.Compare) and len(b.ops) == 1:
                    good = isinstance(b.ops[0], PYOPS[op]) and unparse(b.left) == names[0] and unparse(b.comparators[0]) == names[1]
                ctx.check(good, key, f"lambda `{_norm_lambda(lam)}` is not the Python form of {op}", _norm_lambda(lam), loc)
            else:
                ctx.error(f"{key}: {how} implementation of a plain operator not understood")
        elif exp in ("==", "!="):
            want = ast.Eq if exp == "==" else ast.NotEq
            good = False
            if how == "custom":
                for cl in _closures(node):
                    for r in walk_local(cl):
                        if isinstance(r, ast.Return) and isinstance(r.value, ast.Compare) and len(r.value.ops) == 1:
                            good = isinstance(r.value.ops[0], want)
            ctx.check(good, key, f"{op} must compare the two values with `{exp}` (two-valued IS semantics)", f"a {exp} b", loc)
        elif exp == "user":
            txt = unparse(node)
            good = "python_impl" in txt and any(raised_name(r) and raised_name(r).endswith("UnevaluatableError")
                                                for r in walk_local(node) if isinstance(r, ast.Raise))
            ctx.check(good, key, "custom operators must be evaluated only through operator.python_impl, else raise",
                      "python_impl or UnevaluatableError", loc)
        else:
            good = how == "lambda" and _norm_lambda(lam) == exp
            ctx.check(good, key, f"{op} is not implemented as `{exp}`" + (f" but `{_norm_lambda(lam)}`" if lam is not None else ""),
                      exp, loc)


def _handler_for(fn, exc_suffix):
    for n in walk_local(fn):
        if isinstance(n, ast.Try):
            for h in n.handlers:
                if h.type is not None and (dotted(h.type) or "").endswith(exc_suffix):
                    return n, h
    return None, None


@R.rule("C43-R4", floor=9, template="T-PATH",
        desc="bulk UPDATE/DELETE synchronisation: UnevaluatableError is caught ('evaluate' -> "
             "InvalidRequestError, 'auto' -> fetch); objects are matched by identity tests on the evaluator "
             "result; every evaluator result is tested against the sentinel before it is stored; consumers of "
             "the matched list honour the undecided (expired) flag; unevaluable SET values are expired")
def r4(ctx):
    base = f"{BP}::_BulkUDCompileState"
    # (a) evaluate: documented error
    f = ctx.func(f"{base}._do_pre_synchronize_evaluate")
    t, h = _handler_for(f.node, "UnevaluatableError")
    good = False
    if h is not None:
        body_calls = [call_name(c) or "" for st in t.body for c in calls_in(st)]
        raises = [r for r in walk_local(h) if isinstance(r, ast.Raise)]
        good = (any(n.endswith("_eval_condition_from_statement") for n in body_calls) and raises
                and all((raised_name(r) or "").endswith("InvalidRequestError") and r.cause is not None for r in raises))
        g = ctx.cfg(f)
        hn = g.nodes_for(h)
        good = good and g.exit not in g.reachable(hn)
    ctx.check(good, f.key, "UnevaluatableError from criteria compilation is not re-raised as InvalidRequestError (documented contract of 'evaluate')",
              "except UnevaluatableError -> raise InvalidRequestError from err", f.loc)
    # (b) auto: fall back to fetch
    f = ctx.func(f"{base}._do_pre_synchronize_auto")
    t, h = _handler_for(f.node, "UnevaluatableError")
    good = False
    if h is not None:
        g = ctx.cfg(f)
        hn = g.nodes_for(h)
        fetch = g.find_calls("_do_pre_synchronize_fetch")
        noraise = not [r for r in walk_local(h) if isinstance(r, ast.Raise)]
        w = g.must_pass(hn, [g.exit], fetch, edge_ok=no_exc)
        # when the criteria compile, every normal path selects 'evaluate' with the compiled condition -- and the handler never does
        compiled = g.find_calls("_eval_condition_from_statement")
        ev_rets = [n.id for n in g.nodes if n.kind == "stmt" and isinstance(n.stmt, ast.Return) and n.stmt.value is not None
                   and "'evaluate'" in unparse(n.stmt.value) and "_eval_condition" in unparse(n.stmt.value)]
        ev_ret = bool(compiled) and bool(ev_rets) and g.must_pass(compiled, [g.exit], ev_rets, edge_ok=no_exc) is None \
            and not (set(ev_rets) & g.reachable(hn, edge_ok=no_exc))
        good = noraise and w is None and bool(fetch) and ev_ret
    ctx.check(good, f.key, "'auto' does not fall back to the fetch strategy when the criteria cannot be evaluated "
                           "(or does not select 'evaluate' when they can)",
              "evaluable -> 'evaluate'; UnevaluatableError -> _do_pre_synchronize_fetch", f.loc)
    # (c) matching by identity: the decision "is this object matched" is evaluated for every kind of evaluator result
    f = ctx.func(f"{base}._get_matched_objects_on_criteria")
    pm = f.module.parents()
    g = ctx.cfg(f)
    defs = G.single_defs(f.node)
    apps = [c for c in calls_in(f.node) if (call_name(c) or "").endswith(".append")]
    ctx.require(apps, f"{f.key}: no result.append(...) found")
    vnames = set()
    for n in walk_local(f.node):
        if isinstance(n, ast.Assign) and len(n.targets) == 1 and isinstance(n.targets[0], ast.Name) and isinstance(n.value, ast.Call):
            fn_ = G.resolve_name(n.value.func, defs)
            if isinstance(fn_, ast.Attribute) and fn_.attr == "_eval_condition":
                vnames.add(n.targets[0].id)
    ctx.require(len(vnames) == 1, f"{f.key}: the local that receives the evaluator result not found")
    v = next(iter(vnames))
    EXP, NOOBJ = G.Sentinel("_EXPIRED_OBJECT", "self"), G.Sentinel("_NO_OBJECT", "none")
    sent = {"_EXPIRED_OBJECT": EXP, "_NO_OBJECT": NOOBJ}
    domain = [True, EXP, False, None, 1, 0, "x", NOOBJ]
    probs = []
    sites = []
    for c in apps:
        st = c
        while st in pm and not isinstance(st, ast.stmt):
            st = pm[st]
        guards = list(lexical_guards(pm, c, stop=f.node))
        seen = {(id(t_), p) for t_, p in guards}
        for nid in g.nodes_for(st)[:1]:
            for t_, p in g.edge_guards(nid):
                if (id(t_), p) not in seen:
                    guards.append((t_, p))
        dec = []
        for t_, p in guards:
            e = G.expand_expr(t_, defs, keep={v})
            if v in G.names_read(e):
                dec.append((e, p))
        tup = G.resolve_name(c.args[0], defs) if c.args else None
        if not (isinstance(tup, ast.Tuple) and len(tup.elts) == 4):
            probs.append("the matched entry is not a 4-tuple (object, state, dict, is-expired flag)")
            continue
        sites.append((dec, G.expand_expr(tup.elts[3], defs, keep={v})))

    def shown(dec):
        return " and ".join(("" if p else "not ") + "(" + unparse(e) + ")" for e, p in dec) or "unconditional"

    try:
        for val in domain if sites else []:
            mi = G.Mini(sent)
            hits = [(dec, fl) for dec, fl in sites if all(mi.truth(mi.ev(e, {v: val})) == p for e, p in dec)]
            want = val is True or val is EXP
            if want and not hits:
                probs.append(f"an evaluator result of {val!r} is not matched (decision: {' | '.join(shown(d) for d, _ in sites)})")
            elif not want and hits:
                probs.append(f"an evaluator result of {val!r} is matched (decision: {shown(hits[0][0])})")
            elif len(hits) > 1:
                probs.append(f"an evaluator result of {val!r} is appended {len(hits)} times")
            elif want:
                fl = mi.truth(mi.ev(hits[0][1], {v: val}))
                if fl != (val is EXP):
                    probs.append(f"the is-expired flag (4th element) is {fl} for an evaluator result of {val!r}")
    except G.Unsupported as e:
        ctx.error(f"{f.key}: the matching decision uses a construct outside the model-checked subset: {e}")
    ctx.check(not probs, f.key, "objects are not matched by `cond is True or cond is _EXPIRED_OBJECT` identity tests "
                                f"(truthiness / == would accept the sentinel or non-boolean values): {'; '.join(probs[:3])}",
              "identity tests; 4-tuples carry the expired flag", f.loc)
    # (d) consumers honour the flag
    for cname in ("_BulkORMUpdate", "_BulkORMDelete"):
        f = ctx.func(f"{BP}::{cname}._do_post_synchronize_evaluate")
        key = f"{f.key}:expired-flag"
        srcs = [n for n, v in _assigned_from_call(f.node, "_get_matched_objects_on_criteria")]
        ctx.require(srcs, f"{f.key}: does not call _get_matched_objects_on_criteria")
        flagnames = []
        for n in ast.walk(f.node):
            it, tg = None, None
            if isinstance(n, ast.For):
                it, tg = n.iter, n.target
            elif isinstance(n, ast.comprehension):
                it, tg = n.iter, n.target
            if it is not None and isinstance(it, ast.Name) and it.id in srcs:
                ctx.require(isinstance(tg, ast.Tuple) and len(tg.elts) == 4, f"{f.key}: matched tuple is not unpacked into 4 names")
                flagnames.append(tg.elts[3].id if isinstance(tg.elts[3], ast.Name) else "?")
        ctx.require(flagnames, f"{f.key}: matched objects are never iterated")
        used = False
        for fl in flagnames:
            for n in ast.walk(f.node):
                if isinstance(n, (ast.If, ast.IfExp)) and any(isinstance(x, ast.Name) and x.id == fl for x in ast.walk(n.test)):
                    used = True
                if isinstance(n, ast.comprehension) and any(isinstance(x, ast.Name) and x.id == fl for i in n.ifs for x in ast.walk(i)):
                    used = True
        ctx.check(used, key,
                  "the is-expired flag of the matched objects is discarded: objects whose criteria could not be decided "
                  "(an attribute used in WHERE is expired) are treated as matching rows and get the SET values applied",
                  "undecided objects are handled separately", f.loc)
    # delete: undecided -> expire, decided -> _remove_newly_deleted
    f = ctx.func(f"{BP}::_BulkORMDelete._do_post_synchronize_evaluate")
    txt_calls = [call_name(c) or "" for c in calls_in(f.node)]
    ctx.check(any(n.endswith("._expire") for n in txt_calls) and any(n.endswith("._remove_newly_deleted") for n in txt_calls),
              f"{f.key}:actions", "DELETE/evaluate must expire undecided objects and remove decided ones from the session",
              "_expire / _remove_newly_deleted", f.loc)
    # (e) every evaluator call result tested against the sentinel before stored/used
    m = ctx.index.module(BP)
    n_sites = 0
    for fi in ctx.index.all_functions(m):
        evnames, evdicts = set(), set()
        for n in walk_local(fi.node):
            if isinstance(n, ast.Assign) and len(n.targets) == 1 and isinstance(n.targets[0], ast.Name):
                v = n.value
                if isinstance(v, ast.Call) and isinstance(v.func, ast.Attribute) and v.func.attr == "process":
                    rc = G.resolve_name(v.func.value, G.single_defs(fi.node))
                    if "evaluator" in (call_name(v) or "") or (isinstance(rc, ast.Call) and (call_name(rc) or "").endswith("_EvaluatorCompiler")):
                        evnames.add(n.targets[0].id)
                if isinstance(v, ast.Attribute) and v.attr == "_eval_condition":
                    evnames.add(n.targets[0].id)
        for n in walk_local(fi.node):
            if isinstance(n, ast.Assign) and isinstance(n.targets[0], ast.Subscript) and isinstance(n.value, ast.Name) \
                    and n.value.id in evnames and isinstance(n.targets[0].value, ast.Name):
                evdicts.add(n.targets[0].value.id)
        for c in calls_in(fi.node):
            fn_ = c.func
            is_ev = (isinstance(fn_, ast.Name) and fn_.id in evnames) or (
                isinstance(fn_, ast.Subscript) and isinstance(fn_.value, ast.Name) and fn_.value.id in evdicts)
            if not is_ev:
                continue
            n_sites += 1
            ctx.functions_analysed.add(fi.key)
            key = f"{fi.key}:evaluator-result"
            par = pm.get(c)
            v = par.targets[0].id if isinstance(par, ast.Assign) and isinstance(par.targets[0], ast.Name) else None
            fdefs = G.single_defs(fi.node)
            tested = v is not None and any(
                isinstance(x, ast.Compare) and isinstance(x.ops[0], (ast.Is, ast.IsNot)) and isinstance(x.left, ast.Name)
                and x.left.id == v and _is_name(G.resolve_name(x.comparators[0], fdefs), "_EXPIRED_OBJECT") for x in ast.walk(fi.node))
            ctx.check(tested, key,
                      f"the result of `{unparse(c)}` is {'stored' if isinstance(par, ast.Assign) else 'used'} without an "
                      f"`is _EXPIRED_OBJECT` test: when the expression reads an expired attribute the internal sentinel "
                      f"object itself becomes the attribute value",
                      "sentinel tested", f"{fi.module.path}:{c.lineno}")
    ctx.require(n_sites >= 2, "fewer than 2 evaluator call sites found in bulk_persistence (rule went blind)")
    # (f) unevaluable SET values are expired
    f = ctx.func(f"{BP}::_BulkORMUpdate._apply_update_set_values_to_objects")
    t, h = _handler_for(f.node, "UnevaluatableError")
    swallowed = h is not None and not [r for r in walk_local(h) if isinstance(r, ast.Raise)]
    # the keys that get evaluated: `<state>.unmodified.intersection(<evaluable keys>)`; everything else in SET is expired
    evaluated = {n.targets[0].id for n in walk_local(f.node) if isinstance(n, ast.Assign) and len(n.targets) == 1 and isinstance(n.targets[0], ast.Name)
                 and any(isinstance(c, ast.Call) and isinstance(c.func, ast.Attribute) and c.func.attr == "intersection"
                         and isinstance(c.func.value, ast.Attribute) and c.func.value.attr == "unmodified" for c in ast.walk(n.value))}
    uses_unmod = bool(evaluated)
    exp = False
    for c in calls_in(f.node):
        if (call_name(c) or "").endswith("._expire_attributes") and len(c.args) == 2:
            srcs = [c.args[1]]
            if isinstance(c.args[1], ast.Name):
                srcs = [n.value for n in walk_local(f.node) if isinstance(n, ast.Assign) and isinstance(n.targets[0], ast.Name) and n.targets[0].id == c.args[1].id]
            for v_ in srcs:
                for d in ast.walk(v_):
                    if isinstance(d, ast.Call) and isinstance(d.func, ast.Attribute) and d.func.attr == "difference" \
                            and any(isinstance(x, ast.Name) and x.id in evaluated for a_ in d.args for x in ast.walk(a_)):
                        exp = True
    ctx.check(swallowed and exp and uses_unmod, f"{f.key}:unevaluable-values",
              "SET values that cannot be evaluated (or belong to locally modified attributes) are not expired on the matched objects",
              "evaluated for unmodified keys, everything else in SET expired", f.loc)


def _assigned_from_call(fn, suffix):
    out = []
    for n in walk_local(fn):
        if isinstance(n, ast.Assign) and isinstance(n.value, ast.Call) and (call_name(n.value) or "").endswith(suffix) \
                and isinstance(n.targets[0], ast.Name):
            out.append((n.targets[0].id, n.value))
    return out


# ---------------------------------------------------------------------- R5: identity tokens (shard ids) are optional VALUES
TOKEN_NAMES = ("identity_token", "_identity_token")


def _tokenish(e, aliases=()):
    if isinstance(e, ast.Attribute):
        return e.attr in TOKEN_NAMES
    if isinstance(e, ast.Name):
        return e.id in TOKEN_NAMES or e.id in aliases
    return False


def _returns_token(fn, mod_funcs, depth=2):
    """does function `fn` return an identity-token-valued expression on some path (a helper extracted around a token lookup)"""
    al = _token_aliases(fn, mod_funcs if depth > 0 else None, depth - 1)
    return any(isinstance(r, ast.Return) and r.value is not None and _tokenish(r.value, al) for r in walk_local(fn))


def _token_aliases(fn, mod_funcs=None, depth=2):
    """locals of fn that hold an identity token: bound from a token-valued expression, from a same-module helper that
    returns one, or handed on as `identity_token=<name>`"""
    al = set()
    for n in walk_local(fn):
        if isinstance(n, ast.Assign) and len(n.targets) == 1 and isinstance(n.targets[0], ast.Name) and _tokenish(n.value):
            al.add(n.targets[0].id)
        if (mod_funcs and depth > 0 and isinstance(n, ast.Assign) and len(n.targets) == 1 and isinstance(n.targets[0], ast.Name)
                and isinstance(n.value, ast.Call) and isinstance(n.value.func, ast.Name) and n.value.func.id in mod_funcs
                and mod_funcs[n.value.func.id] is not fn and _returns_token(mod_funcs[n.value.func.id], mod_funcs, depth - 1)):
            al.add(n.targets[0].id)
        if isinstance(n, ast.Call):
            for k in n.keywords:
                if k.arg == "identity_token" and isinstance(k.value, ast.Name):
                    al.add(k.value.id)
    return al


def _is_none_test(e, aliases=()):
    """(token expr, True if `is None` / False if `is not None`) for a comparison of a token with None, else None"""
    if isinstance(e, ast.Compare) and len(e.ops) == 1 and isinstance(e.ops[0], (ast.Is, ast.IsNot)) \
            and isinstance(e.comparators[0], ast.Constant) and e.comparators[0].value is None and _tokenish(e.left, aliases):
        return e.left, isinstance(e.ops[0], ast.Is)
    return None


def _token_tests(fn, mod_funcs=None):
    """[(kind, node shown, token expr)] for every boolean test in fn that involves an identity-token-valued expression;
    kind: 'none' (is None / is not None), 'cmp' (==, !=, in), 'truth' (truthiness: if x / not x / x and.. / x or.. / bool(x))"""
    aliases = _token_aliases(fn, mod_funcs)
    pm = {ch: p for p in ast.walk(fn) for ch in ast.iter_child_nodes(p)}
    out = []
    for e in walk_local(fn):
        if not (isinstance(e, (ast.Name, ast.Attribute)) and isinstance(getattr(e, "ctx", None), ast.Load) and _tokenish(e, aliases)):
            continue
        par = pm.get(e)
        if isinstance(par, ast.Compare) and len(par.ops) == 1:
            if _is_none_test(par, aliases) and par.left is e:
                out.append(("none", par, e))
            elif isinstance(par.ops[0], (ast.Eq, ast.NotEq, ast.In, ast.NotIn)) and not any(x[1] is par for x in out):
                out.append(("cmp", par, e))
            continue
        truth = (
            (isinstance(par, (ast.If, ast.While, ast.IfExp, ast.Assert)) and par.test is e)
            or (isinstance(par, ast.comprehension) and any(i is e for i in par.ifs))
            or isinstance(par, ast.BoolOp)
            or (isinstance(par, ast.UnaryOp) and isinstance(par.op, ast.Not))
            or (isinstance(par, ast.Call) and isinstance(par.func, ast.Name) and par.func.id == "bool" and par.args and par.args[0] is e)
        )
        if truth:
            out.append(("truth", par if isinstance(par, (ast.UnaryOp, ast.BoolOp, ast.Call)) else e, e))
    return out


@R.rule("C43-R5", floor=13, template="T-GUARD/T-SIBLING",
        desc="an identity token (shard id) is an optional VALUE: every boolean test of an identity-token-valued expression in "
             "orm/ and ext/ is `is None` / `is not None` or a comparison with another token, never truthiness (0 and '' are "
             "valid tokens); the in-session objects an evaluated UPDATE/DELETE synchronises are filtered by mapper, by "
             "not-expired and -- exactly when a token was given -- by equality of the state's token with it")
def r5(ctx):
    # ---- (a) family: all tests on token-valued expressions
    n_tests = 0
    for m in ctx.index.all_modules():
        if not (m.relpath.startswith("orm/") or m.relpath.startswith("ext/")) or "identity_token" not in m.source:
            continue
        mod_funcs = {name: f_.node for name, f_ in m.functions.items() if isinstance(f_.node, ast.FunctionDef)}
        for fi in ctx.index.all_functions(m):
            if fi.type_only or fi.is_overload:
                continue
            tests = _token_tests(fi.node, mod_funcs)
            if not tests:
                continue
            ctx.functions_analysed.add(fi.key)
            seen = {}
            for kind, shown, tok in sorted(tests, key=lambda t: (t[1].lineno, t[1].col_offset)):
                n_tests += 1
                txt = unparse(shown).replace("\n", " ")
                seen[txt] = seen.get(txt, 0) + 1
                key = f"{fi.key}:token-test[{txt}]" + (f"#{seen[txt]}" if seen[txt] > 1 else "")
                loc = f"{m.path}:{shown.lineno}"
                ctx.check(kind != "truth", key,
                          f"`{unparse(tok)}` holds an identity token and is tested for truthiness in `{txt}`: the falsy tokens 0 and '' "
                          f"(e.g. integer shard ids starting at 0) are treated as 'no token', so the token is dropped / its filter skipped; "
                          f"optional-token tests must be `is None` / `is not None`",
                          "is None / is not None" if kind == "none" else "comparison of two tokens", loc)
    ctx.require(n_tests >= 8, f"only {n_tests} tests on identity tokens found in orm/ and ext/ (rule went blind)")
    # ---- (b) the evaluate synchroniser: which in-session objects are candidates
    f = ctx.func(f"{BP}::_BulkUDCompileState._get_matched_objects_on_criteria")
    pm = f.module.parents()
    aliases = _token_aliases(f.node)
    apps = [c for c in calls_in(f.node) if (call_name(c) or "").endswith(".append")]
    ctx.require(apps, f"{f.key}: no result.append(...) found")
    loop = None
    for anc in _ancestors_of(pm, apps[0], f.node):
        if isinstance(anc, ast.For):
            loop = anc
    ctx.require(loop is not None and isinstance(loop.iter, ast.Name), f"{f.key}: matching loop over a named candidate list not found")
    cand = loop.iter.id

    def filter_conds():
        """[(cond expr, statement-level guards, binds-candidates?)] of every filtering position that feeds the loop"""
        out = []
        for n in walk_local(f.node):
            if isinstance(n, ast.Assign) and len(n.targets) == 1 and isinstance(n.targets[0], ast.Name) and n.targets[0].id == cand \
                    and isinstance(n.value, (ast.ListComp, ast.GeneratorExp)):
                for gen in n.value.generators:
                    for i in gen.ifs:
                        out.append((i, lexical_guards(pm, n, stop=f.node)))
        for t_, pol in lexical_guards(pm, apps[0], stop=loop):
            if pol:
                out.append((t_, []))
        return out

    conds = filter_conds()
    ctx.require(conds, f"{f.key}: no filter over the candidate states found")

    def conjuncts(e):
        if isinstance(e, ast.BoolOp) and isinstance(e.op, ast.And):
            for v in e.values:
                yield from conjuncts(v)
        else:
            yield e

    atoms = [(c, guards) for e, guards in conds for c in conjuncts(e)]
    has_isa = any(isinstance(c, ast.Call) and (call_name(c) or "").endswith(".mapper.isa") and not guards for c, guards in atoms)
    ctx.check(has_isa, f"{f.key}:filter[mapper]", "candidates are not unconditionally restricted to states whose mapper isa() the statement's mapper",
              "state.mapper.isa(mapper)", f.loc)
    has_exp = any(isinstance(c, ast.UnaryOp) and isinstance(c.op, ast.Not) and isinstance(c.operand, ast.Attribute)
                  and c.operand.attr == "expired" and not guards for c, guards in atoms)
    ctx.check(has_exp, f"{f.key}:filter[not-expired]", "fully expired states are not excluded from evaluation", "not state.expired", f.loc)
    # token filter: an equality of <state>.identity_token with the statement's token whose only bypass is "no token given"
    probs, found = [], False
    for c, guards in atoms:
        alts = list(c.values) if isinstance(c, ast.BoolOp) and isinstance(c.op, ast.Or) else [c]
        eqs = [a for a in alts if isinstance(a, ast.Compare) and len(a.ops) == 1 and isinstance(a.ops[0], ast.Eq)
               and _tokenish(a.left, aliases) and _tokenish(a.comparators[0], aliases)
               and any(isinstance(x, ast.Attribute) and x.attr == "identity_token" for x in (a.left, a.comparators[0]))]
        if not eqs:
            continue
        found = True
        for a in alts:
            if a in eqs:
                continue
            nt = _is_none_test(a, aliases)
            if not (nt and nt[1]):
                probs.append(f"the token filter is bypassed when `{unparse(a)}` (only `<token> is None` may bypass it)")
        for t_, pol in guards:
            nt = _is_none_test(t_, aliases)
            if not (nt and nt[1] != pol):
                probs.append(f"the token filter is applied only when `{'' if pol else 'not '}{unparse(t_)}` (only `<token> is not None` may enable it)")
    if not found:
        probs.append("no filter `state.identity_token == <token of the statement>` is applied to the candidate states: objects of "
                     "other shards that satisfy the criteria in Python are synchronised although their rows were not touched")
    ctx.check(not probs, f"{f.key}:filter[identity-token]", "; ".join(probs), "token equality, bypassed only by `token is None`", f.loc)


# ---------------------------------------------------------------------- R6: the rows looked at are the rows touched
#: positional protocol of the _do_pre_synchronize_<strategy> classmethods (after cls)
PRESYNC_PARAMS = ("session", "statement", "params", "execution_options", "bind_arguments", "update_options")


def _root_name(e):
    while isinstance(e, (ast.Attribute, ast.Subscript, ast.Call)):
        e = e.func if isinstance(e, ast.Call) else e.value
    return e.id if isinstance(e, ast.Name) else None


@R.rule("C43-R6", floor=7, template="T-FLOW",
        desc="both synchronisers decide on the rows the statement itself touches: every row-restricting component of the "
             "UPDATE/DELETE -- its WHERE criteria and its options (with_loader_criteria() adds WHERE criteria at compile "
             "time) -- flows into the pre-fetch SELECT of 'fetch' and into the criteria compiled for 'evaluate', and the "
             "pre-fetch SELECT is executed with the statement's parameters, execution options and bind arguments "
             "(same shard / bind / bound values)")
def r6(ctx):
    from ._helpers_str2_q import flows_into
    base = f"{BP}::_BulkUDCompileState"

    def attr_of(param, attr):
        def pred(x):
            return isinstance(x, ast.Attribute) and x.attr == attr and _root_name(x.value) == param
        return pred

    def is_param(param):
        def pred(x):
            return isinstance(x, ast.Name) and x.id == param and isinstance(x.ctx, ast.Load)
        return pred

    # ---- fetch
    f0 = ctx.func(f"{base}._do_pre_synchronize_fetch")
    ctx.functions_analysed.add(f0.key)
    f = G.normal_form(ctx, f0)
    pos = [a.arg for a in f.node.args.posonlyargs + f.node.args.args if a.arg != "cls"]
    ctx.require(len(pos) == len(PRESYNC_PARAMS), f"{f0.key}: expected the {len(PRESYNC_PARAMS)} positional parameters of the pre-synchronize protocol, found {pos}")
    p = dict(zip(PRESYNC_PARAMS, pos))
    g = ctx.cfg(f.node)
    pm = G_parent_map(f.node)
    sinks = [c for c in walk_local(f.node) if isinstance(c, ast.Call) and isinstance(c.func, ast.Attribute) and c.func.attr == "execute"
             and _root_name(c.func.value) == p["session"]]
    ctx.require(len(sinks) == 1, f"{f0.key}: expected exactly one `<session>.execute(...)` (the pre-fetch SELECT), found {len(sinks)}")
    sink = sinks[0]
    st = sink
    while st in pm and not isinstance(st, ast.stmt):
        st = pm[st]
    ctx.require(bool(sink.args), f"{f0.key}: the pre-fetch execute() has no statement argument")
    loc = f"{f0.module.path}:{sink.lineno}"
    res = flows_into(g, f.node, st, sink.args[0], {
        "where": attr_of(p["statement"], "_where_criteria"),
        "options": attr_of(p["statement"], "_with_options"),
    })
    ctx.check(res["where"], f"{f0.key}:prefetch[where-criteria]",
              f"the pre-fetch SELECT `{unparse(sink.args[0])}` does not receive `{p['statement']}._where_criteria`: it selects rows "
              "the UPDATE/DELETE does not touch, whose in-session objects are then updated / evicted",
              "statement._where_criteria reaches the pre-fetch SELECT", loc)
    ctx.check(res["options"], f"{f0.key}:prefetch[options]",
              f"the pre-fetch SELECT `{unparse(sink.args[0])}` does not receive `{p['statement']}._with_options`: with_loader_criteria() "
              "options add WHERE criteria to the UPDATE/DELETE at compile time, so without them the SELECT matches a superset of "
              "the rows the statement touches and 'fetch' applies SET values to (or evicts) objects whose rows were left alone",
              "statement._with_options reaches the pre-fetch SELECT", loc)
    # how it is executed: Session.execute(statement, params=None, *, execution_options=..., bind_arguments=...)
    slots = {"params": (1, "params"), "execution_options": (2, "execution_options"), "bind_arguments": (3, "bind_arguments")}
    why = {"params": "the bound values of the WHERE criteria are missing / different",
           "execution_options": "shard ids, schema translation and other per-execution routing differ from the DML statement's",
           "bind_arguments": "the SELECT may run on another bind / shard than the DML statement"}
    for name, (i, kwname) in slots.items():
        arg = sink.args[i] if len(sink.args) > i else next((k.value for k in sink.keywords if k.arg == kwname), None)
        ok = arg is not None and flows_into(g, f.node, st, arg, {"x": is_param(p[name])})["x"]
        ctx.check(ok, f"{f0.key}:prefetch[{name}]",
                  f"the pre-fetch SELECT is executed without the statement's `{p[name]}`: {why[name]}, so the rows it matches are "
                  "not the rows the UPDATE/DELETE touches", f"{p[name]} passed on to execute()", loc)
    # ---- evaluate: the compiled condition covers WHERE criteria and loader criteria
    e0 = ctx.func(f"{base}._eval_condition_from_statement")
    ctx.functions_analysed.add(e0.key)
    e = G.normal_form(ctx, e0)
    epos = [a.arg for a in e.node.args.posonlyargs + e.node.args.args if a.arg != "cls"]
    ctx.require(len(epos) == 2, f"{e0.key}: expected (update_options, statement), found {epos}")
    stmt_p = epos[1]
    eg = ctx.cfg(e.node)
    epm = G_parent_map(e.node)
    edefs = G.single_defs(e.node)
    procs = []
    for c in walk_local(e.node):
        if isinstance(c, ast.Call) and isinstance(c.func, ast.Attribute) and c.func.attr == "process":
            rc = G.resolve_name(c.func.value, edefs)
            if isinstance(rc, ast.Call) and (call_name(rc) or "").endswith("_EvaluatorCompiler"):
                procs.append(c)
    ctx.require(len(procs) == 1, f"{e0.key}: expected exactly one `_EvaluatorCompiler(..).process(...)`, found {len(procs)}")
    proc = procs[0]
    est = proc
    while est in epm and not isinstance(est, ast.stmt):
        est = epm[est]
    argx = ast.Tuple(elts=[a.value if isinstance(a, ast.Starred) else a for a in proc.args], ctx=ast.Load())
    eres = flows_into(eg, e.node, est, argx, {
        "where": attr_of(stmt_p, "_where_criteria"),
        "options": attr_of(stmt_p, "_with_options"),
    })
    eloc = f"{e0.module.path}:{proc.lineno}"
    ctx.check(eres["where"], f"{e0.key}:compiled[where-criteria]",
              f"the criteria compiled for 'evaluate' (`{unparse(proc)}`) do not include `{stmt_p}._where_criteria`: every in-session "
              "object of the mapper is treated as matched", "statement._where_criteria is compiled", eloc)
    ctx.check(eres["options"], f"{e0.key}:compiled[options]",
              f"the criteria compiled for 'evaluate' (`{unparse(proc)}`) do not include what `{stmt_p}._with_options` contributes "
              "(with_loader_criteria() options add WHERE criteria to the UPDATE/DELETE): objects the loader criteria exclude are "
              "synchronised although their rows are left alone", "loader criteria of statement._with_options are compiled", eloc)


def G_parent_map(node):
    return {ch: par for par in ast.walk(node) for ch in ast.iter_child_nodes(par)}


def _ancestors_of(pm, node, stop):
    cur = pm.get(node)
    while cur is not None and cur is not stop:
        yield cur
        cur = pm.get(cur)


# ------------------------------------------------------------------------------------ self-test
# R1
R.mutant("straight-none-check-dropped", EV,
         sub("            elif left_val is None or right_val is None:\n                return None\n\n            return operator(", "            return operator("),
         "C43-R1")
R.mutant("unary-expired-check-dropped", EV,
         sub("                if value is _EXPIRED_OBJECT:\n                    return _EXPIRED_OBJECT\n                elif value is None:\n                    return None\n                return not value\n",
             "                if value is None:\n                    return None\n                return not value\n"),
         "C43-R1")
R.mutant("is-expired-check-left-only", EV,
         sub("            if left_val is _EXPIRED_OBJECT or right_val is _EXPIRED_OBJECT:\n                return _EXPIRED_OBJECT\n            return left_val == right_val\n",
             "            if left_val is _EXPIRED_OBJECT:\n                return _EXPIRED_OBJECT\n            return left_val == right_val\n"),
         "C43-R1")
R.mutant("column-getter-fetches", EV, sub("passive=PassiveFlag.PASSIVE_NO_FETCH", "passive=PassiveFlag.PASSIVE_OFF"), "C43-R1")
# R2
R.mutant("or-returns-null-early", EV,
         sub("                elif value:\n                    return True\n                has_null = has_null or value is None\n",
             "                elif value:\n                    return True\n                elif value is None:\n                    return None\n"),
         "C43-R2")
R.mutant("or-forgets-null", EV,
         sub("            if has_null:\n                return None\n            return False\n", "            return False\n"), "C43-R2")
R.mutant("or-early-false", EV,
         sub("                has_null = has_null or value is None\n",
             "                has_null = has_null or value is None\n                if value is not None:\n                    return False\n"),
         "C43-R2")
# R3
R.mutant("concat-reversed", EV, sub("lambda a, b: a + b, eval_left", "lambda a, b: b + a, eval_left"), "C43-R3")
R.mutant("is-not-uses-eq", EV, sub("            return left_val != right_val\n", "            return left_val == right_val\n"), "C43-R3")
R.mutant("floordiv-added-passthrough", EV,
         sub("    visit_truediv_binary_op = _straight_evaluate_numeric_only\n",
             "    visit_truediv_binary_op = _straight_evaluate_numeric_only\n    visit_floordiv_binary_op = _straight_evaluate_numeric_only\n"),
         "C43-R3")
R.mutant("contains-added-plain", EV,
         sub("    def visit_unary(self, clause):\n",
             "    def visit_contains_op_binary_op(self, operator, eval_left, eval_right, clause):\n"
             "        return self._straight_evaluate(lambda a, b: b in a, eval_left, eval_right, clause)\n\n"
             "    def visit_unary(self, clause):\n"),
         "C43-R3")
# R4
R.mutant("evaluate-swallows-unevaluatable", BP,
         sub("        except evaluator.UnevaluatableError as err:\n            raise sa_exc.InvalidRequestError(\n                'Could not evaluate current criteria in Python: \"%s\". '\n                \"Specify 'fetch' or False for the \"\n                \"synchronize_session execution option.\" % err\n            ) from err\n\n        return update_options + {\n            \"_eval_condition\": eval_condition,\n        }\n",
             "        except evaluator.UnevaluatableError as err:\n            return update_options\n\n        return update_options + {\n            \"_eval_condition\": eval_condition,\n        }\n"),
         "C43-R4")
R.mutant("auto-no-fetch-fallback", BP,
         sub("        update_options += {\"_synchronize_session\": \"fetch\"}\n        return cls._do_pre_synchronize_fetch(\n            session,\n            statement,\n            params,\n            execution_options,\n            bind_arguments,\n            update_options,\n        )\n\n    @classmethod\n    def _do_pre_synchronize_evaluate(",
             "        update_options += {\"_synchronize_session\": False}\n        return update_options\n\n    @classmethod\n    def _do_pre_synchronize_evaluate("),
         "C43-R4")
R.mutant("match-by-truthiness", BP,
         sub("            if (\n                evaled_condition is True\n                or evaled_condition is evaluator._EXPIRED_OBJECT\n            ):\n",
             "            if evaled_condition:\n"),
         "C43-R4")
R.mutant("delete-ignores-expired-flag", BP,
         sub("        for _, state, dict_, is_partially_expired in matched_objects:\n            if is_partially_expired:\n                state._expire(dict_, session.identity_map._modified)\n            else:\n                to_delete.append(state)\n",
             "        for _, state, dict_, is_partially_expired in matched_objects:\n            to_delete.append(state)\n"),
         "C43-R4")
# benign
R.mutant("benign-rename-local-or", EV,
         sub("            has_null = False\n            for sub_evaluate in evaluators:\n                value = sub_evaluate(obj)\n                if value is _EXPIRED_OBJECT:\n                    return _EXPIRED_OBJECT\n                elif value:\n                    return True\n                has_null = has_null or value is None\n            if has_null:\n                return None\n            return False\n",
             "            saw_null = False\n            for sub_evaluate in evaluators:\n                value = sub_evaluate(obj)\n                if value is _EXPIRED_OBJECT:\n                    return _EXPIRED_OBJECT\n                elif value:\n                    return True\n                saw_null = saw_null or value is None\n            if saw_null:\n                return None\n            return False\n"),
         None)
R.mutant("benign-gt-as-method", EV,
         sub("    visit_gt_binary_op = _straight_evaluate\n",
             "    def visit_gt_binary_op(self, operator, eval_left, eval_right, clause):\n        return self._straight_evaluate(operator, eval_left, eval_right, clause)\n\n"),
         None)
R.mutant("benign-mod-raises", EV,
         sub("    visit_mod_binary_op = _straight_evaluate_numeric_only\n",
             "    def visit_mod_binary_op(self, operator, eval_left, eval_right, clause):\n        raise UnevaluatableError('modulo of negative numbers differs between Python and SQL')\n\n"),
         None)
R.mutant("benign-logging-in-matched", BP,
         sub("        result = []\n        for obj, state, dict_ in raw_data:\n            evaled_condition = eval_condition(obj)\n",
             "        result = []\n        n_seen = 0\n        for obj, state, dict_ in raw_data:\n            n_seen += 1\n            evaled_condition = eval_condition(obj)\n"),
         None)

# ---- round 3 (str-q): seeds C43_1 / C43_2 and the families they belong to
_AND_NULL = "                if value is None or value is _NO_OBJECT:\n                    has_null = True\n                elif not value:\n                    return False\n            if has_null:\n                return None\n            return True\n"
R.mutant("seed-and-returns-null-at-first-null", EV,
         sub(_AND_NULL, "                if value is None or value is _NO_OBJECT:\n                    return None\n                elif not value:\n                    return False\n            return True\n"),
         "C43-R2")
R.mutant("and-never-returns-false", EV,
         sub(_AND_NULL, "                if value is None or value is _NO_OBJECT:\n                    has_null = True\n                elif not value:\n                    has_null = True\n            if has_null:\n                return None\n            return True\n"),
         "C43-R2")
R.mutant("and-false-on-true-operand", EV,
         sub(_AND_NULL, "                if value is None or value is _NO_OBJECT:\n                    has_null = True\n                elif value:\n                    return False\n            if has_null:\n                return None\n            return True\n"),
         "C43-R2")
R.mutant("benign-and-null-recorded-with-continue", EV,
         sub(_AND_NULL, "                if value is None or value is _NO_OBJECT:\n                    has_null = True\n                    continue\n                if not value:\n                    return False\n            if has_null:\n                return None\n            return True\n"),
         None)
_MATCH_OLD = "        raw_data = [\n            (state.obj(), state, state.dict)\n            for state in states\n            if state.mapper.isa(mapper) and not state.expired\n        ]\n\n        identity_token = update_options._identity_token\n        if identity_token is not None:\n            raw_data = [\n                (obj, state, dict_)\n                for obj, state, dict_ in raw_data\n                if state.identity_token == identity_token\n            ]\n"
R.mutant("seed-matched-objects-token-filter-by-truthiness", BP,
         sub(_MATCH_OLD, "        identity_token = update_options._identity_token\n\n        raw_data = [\n            (state.obj(), state, state.dict)\n            for state in states\n            if state.mapper.isa(mapper)\n            and not state.expired\n            and (not identity_token or state.identity_token == identity_token)\n        ]\n"),
         "C43-R5")
R.mutant("matched-objects-token-filter-dropped", BP,
         sub(_MATCH_OLD, "        raw_data = [\n            (state.obj(), state, state.dict)\n            for state in states\n            if state.mapper.isa(mapper) and not state.expired\n        ]\n"),
         "C43-R5")
R.mutant("matched-objects-token-filter-only-for-modified", BP,
         sub("        if identity_token is not None:\n            raw_data = [\n                (obj, state, dict_)\n                for obj, state, dict_ in raw_data\n                if state.identity_token == identity_token\n",
             "        if identity_token is not None:\n            raw_data = [\n                (obj, state, dict_)\n                for obj, state, dict_ in raw_data\n                if state.modified or state.identity_token == identity_token\n"),
         "C43-R5")
R.mutant("matched-objects-mapper-filter-dropped", BP,
         sub("            if state.mapper.isa(mapper) and not state.expired\n", "            if not state.expired\n"), "C43-R5")
R.mutant("fetch-sync-token-test-by-truthiness", BP,
         sub("                if update_options._identity_token is None\n                or identity_token == update_options._identity_token\n",
             "                if not update_options._identity_token\n                or identity_token == update_options._identity_token\n"),
         "C43-R5")
R.mutant("shard-lookup-token-test-by-truthiness", "ext/horizontal_shard.py",
         sub("        if identity_token is not None:\n            obj = super()._identity_lookup(", "        if identity_token:\n            obj = super()._identity_lookup("),
         "C43-R5")
R.mutant("benign-matched-objects-single-pass", BP,
         sub(_MATCH_OLD, "        identity_token = update_options._identity_token\n\n        raw_data = [\n            (state.obj(), state, state.dict)\n            for state in states\n            if state.mapper.isa(mapper)\n            and not state.expired\n            and (identity_token is None or state.identity_token == identity_token)\n        ]\n"),
         None)
# the R5 finding is repaired in the tree (fix 1bc97a0); the repaired test may be written either way round, a relapse fires
R.mutant("benign-get-options-token-test-inverted-arms", "orm/loading.py",
         sub("    if identity_token is not None:\n        load_options[\"_identity_token\"] = identity_token\n",
             "    if identity_token is None:\n        pass\n    else:\n        load_options[\"_identity_token\"] = identity_token\n"),
         None)
R.mutant("get-options-token-test-by-truthiness-again", "orm/loading.py",
         sub("    if identity_token is not None:\n        load_options[\"_identity_token\"] = identity_token\n",
             "    if identity_token:\n        load_options[\"_identity_token\"] = identity_token\n"),
         "C43-R5")
# a token lookup extracted into a module helper keeps the tests on its result in the family (stored refactor rfI_15)
R.mutant("benign-shard-id-lookup-in-helper", "ext/horizontal_shard.py",
         chain(sub("    for orm_opt in orm_context._non_compile_orm_options:\n        # TODO: if we had an ORMOption that gets applied at ORM statement\n        # execution time, that would allow this to be more generalized.\n        # for now just iterate and look for our options\n        if isinstance(orm_opt, set_shard_id):\n            shard_id = orm_opt.shard_id\n            break\n    else:\n        if active_options and active_options._identity_token is not None:\n            shard_id = active_options._identity_token\n        elif \"_sa_shard_id\" in orm_context.execution_options:\n            shard_id = orm_context.execution_options[\"_sa_shard_id\"]\n        elif \"shard_id\" in orm_context.bind_arguments:\n            shard_id = orm_context.bind_arguments[\"shard_id\"]\n        else:\n            shard_id = None\n",
                   "    shard_id = _requested_shard(orm_context, active_options)\n"),
               sub("def execute_and_instances(\n",
                   "def _requested_shard(orm_context, active_options):\n    for orm_opt in orm_context._non_compile_orm_options:\n        if isinstance(orm_opt, set_shard_id):\n            return orm_opt.shard_id\n    if active_options and active_options._identity_token is not None:\n        return active_options._identity_token\n    elif \"_sa_shard_id\" in orm_context.execution_options:\n        return orm_context.execution_options[\"_sa_shard_id\"]\n    elif \"shard_id\" in orm_context.bind_arguments:\n        return orm_context.bind_arguments[\"shard_id\"]\n    return None\n\n\ndef execute_and_instances(\n")),
         None)
R.mutant("shard-id-from-helper-tested-by-truthiness", "ext/horizontal_shard.py",
         chain(sub("    for orm_opt in orm_context._non_compile_orm_options:\n        # TODO: if we had an ORMOption that gets applied at ORM statement\n        # execution time, that would allow this to be more generalized.\n        # for now just iterate and look for our options\n        if isinstance(orm_opt, set_shard_id):\n            shard_id = orm_opt.shard_id\n            break\n    else:\n        if active_options and active_options._identity_token is not None:\n            shard_id = active_options._identity_token\n        elif \"_sa_shard_id\" in orm_context.execution_options:\n            shard_id = orm_context.execution_options[\"_sa_shard_id\"]\n        elif \"shard_id\" in orm_context.bind_arguments:\n            shard_id = orm_context.bind_arguments[\"shard_id\"]\n        else:\n            shard_id = None\n\n    if shard_id is not None:\n",
                   "    shard_id = _requested_shard(orm_context, active_options)\n\n    if shard_id:\n"),
               sub("def execute_and_instances(\n",
                   "def _requested_shard(orm_context, active_options):\n    for orm_opt in orm_context._non_compile_orm_options:\n        if isinstance(orm_opt, set_shard_id):\n            return orm_opt.shard_id\n    if active_options and active_options._identity_token is not None:\n        return active_options._identity_token\n    elif \"_sa_shard_id\" in orm_context.execution_options:\n        return orm_context.execution_options[\"_sa_shard_id\"]\n    elif \"shard_id\" in orm_context.bind_arguments:\n        return orm_context.bind_arguments[\"shard_id\"]\n    return None\n\n\ndef execute_and_instances(\n")),
         "C43-R5")
R.mutant("matched-objects-token-filter-inverted", BP,
         sub("                for obj, state, dict_ in raw_data\n                if state.identity_token == identity_token\n",
             "                for obj, state, dict_ in raw_data\n                if state.identity_token != identity_token\n"),
         "C43-R5")

# ---- rob-G1: benign refactoring families (renamed locals, flag idioms, conditional-expression return, sentinel alias,
# named boolean local, inverted if/else, guard clause) and breaking edits written in the refactored shapes
_OR_BODY = "            has_null = False\n            for sub_evaluate in evaluators:\n                value = sub_evaluate(obj)\n                if value is _EXPIRED_OBJECT:\n                    return _EXPIRED_OBJECT\n                elif value:\n                    return True\n                has_null = has_null or value is None\n            if has_null:\n                return None\n            return False\n"
_AND_BODY = "            has_null = False\n            for sub_evaluate in evaluators:\n                value = sub_evaluate(obj)\n                if value is _EXPIRED_OBJECT:\n                    return _EXPIRED_OBJECT\n\n" + _AND_NULL
_OR_G1 = "            saw_null = False\n            for operand_evaluator in evaluators:\n                operand = operand_evaluator(obj)\n                if operand is _EXPIRED_OBJECT:\n                    return _EXPIRED_OBJECT\n                if operand:\n                    return True\n                if operand is None:\n                    saw_null = True\n            return None if saw_null else False\n"
_AND_G1 = "            saw_null = False\n            for operand_evaluator in evaluators:\n                operand = operand_evaluator(obj)\n                if operand is _EXPIRED_OBJECT:\n                    return _EXPIRED_OBJECT\n                elif operand is None or operand is _NO_OBJECT:\n                    saw_null = True\n                elif not operand:\n                    return False\n            return None if saw_null else True\n"
R.mutant("benign-or-flag-by-if-and-ternary-return", EV, sub(_OR_BODY, _OR_G1), None)
R.mutant("benign-and-elif-chain-and-ternary-return", EV, sub(_AND_BODY, _AND_G1), None)
R.mutant("benign-or-flag-by-augmented-or", EV, sub("                has_null = has_null or value is None\n", "                has_null |= value is None\n"), None)
R.mutant("benign-or-inverted-tail", EV, sub("            if has_null:\n                return None\n            return False\n", "            if not has_null:\n                return False\n            return None\n"), None)
R.mutant("benign-or-null-recorded-with-continue", EV,
         sub("                elif value:\n                    return True\n                has_null = has_null or value is None\n",
             "                if value is None:\n                    has_null = True\n                    continue\n                if value:\n                    return True\n"), None)
R.mutant("or-ternary-return-swapped", EV, sub(_OR_BODY, _OR_G1.replace("return None if saw_null else False", "return False if saw_null else None")), "C43-R2")
R.mutant("and-ternary-return-identity-only", EV, sub(_AND_BODY, _AND_G1.replace("return None if saw_null else True", "return True")), "C43-R2")
R.mutant("or-flag-recorded-for-false-operands", EV, sub(_OR_BODY, _OR_G1.replace("                if operand is None:\n", "                if not operand:\n")), "C43-R2")
R.mutant("and-expired-operand-counts-as-null", EV,
         sub(_AND_BODY, _AND_G1.replace("                if operand is _EXPIRED_OBJECT:\n                    return _EXPIRED_OBJECT\n                elif operand is None or operand is _NO_OBJECT:\n",
                                        "                if operand is None or operand is _NO_OBJECT or operand is _EXPIRED_OBJECT:\n")), "C43-R2")
_MATCH_IF = "            if (\n                evaled_condition is True\n                or evaled_condition is evaluator._EXPIRED_OBJECT\n            ):\n                result.append(\n                    (\n                        obj,\n                        state,\n                        dict_,\n                        evaled_condition is evaluator._EXPIRED_OBJECT,\n                    )\n                )\n"
_MATCH_G3 = "            is_partially_expired = evaled_condition is expired_marker\n            if evaled_condition is True or is_partially_expired:\n                result.append((obj, state, dict_, is_partially_expired))\n"
_MARKER = ("        result = []\n        for obj, state, dict_ in raw_data:\n", "        expired_marker = evaluator._EXPIRED_OBJECT\n\n        result = []\n        for obj, state, dict_ in raw_data:\n")
R.mutant("benign-match-sentinel-alias-and-named-flag", BP, chain(sub(*_MARKER), sub(_MATCH_IF, _MATCH_G3)), None)
R.mutant("benign-match-guard-clause", BP,
         sub(_MATCH_IF, "            if not (\n                evaled_condition is True\n                or evaled_condition is evaluator._EXPIRED_OBJECT\n            ):\n                continue\n            result.append(\n                (obj, state, dict_, evaled_condition is evaluator._EXPIRED_OBJECT)\n            )\n"), None)
R.mutant("benign-match-two-branches-constant-flag", BP,
         sub(_MATCH_IF, "            if evaled_condition is evaluator._EXPIRED_OBJECT:\n                result.append((obj, state, dict_, True))\n            elif evaled_condition is True:\n                result.append((obj, state, dict_, False))\n"), None)
R.mutant("benign-delete-inverted-flag-branches", BP,
         sub("            if is_partially_expired:\n                state._expire(dict_, session.identity_map._modified)\n            else:\n                to_delete.append(state)\n",
             "            if not is_partially_expired:\n                to_delete.append(state)\n            else:\n                state._expire(dict_, session.identity_map._modified)\n"), None)
R.mutant("match-alias-form-by-truthiness", BP, chain(sub(*_MARKER), sub(_MATCH_IF, _MATCH_G3.replace("if evaled_condition is True or", "if evaled_condition or"))), "C43-R4")
R.mutant("match-alias-form-flag-is-true-test", BP, chain(sub(*_MARKER), sub(_MATCH_IF, _MATCH_G3.replace("is_partially_expired = evaled_condition is expired_marker", "is_partially_expired = evaled_condition is True"))), "C43-R4")
R.mutant("match-guard-clause-by-equality", BP,
         sub(_MATCH_IF, "            if evaled_condition != True:\n                continue\n            result.append(\n                (obj, state, dict_, evaled_condition is evaluator._EXPIRED_OBJECT)\n            )\n"), "C43-R4")
R.mutant("match-expired-not-matched", BP,
         sub(_MATCH_IF, "            if evaled_condition is True:\n                result.append((obj, state, dict_, False))\n"), "C43-R4")

# further everyday shapes
R.mutant("benign-is-op-inverted-expired-test", EV,
         sub("            if left_val is _EXPIRED_OBJECT or right_val is _EXPIRED_OBJECT:\n                return _EXPIRED_OBJECT\n            return left_val == right_val\n",
             "            if left_val is not _EXPIRED_OBJECT and right_val is not _EXPIRED_OBJECT:\n                return left_val == right_val\n            return _EXPIRED_OBJECT\n"), None)
R.mutant("benign-straight-split-expired-tests", EV,
         sub("            if left_val is _EXPIRED_OBJECT or right_val is _EXPIRED_OBJECT:\n                return _EXPIRED_OBJECT\n            elif left_val is None or right_val is None:\n                return None\n",
             "            if left_val is _EXPIRED_OBJECT:\n                return _EXPIRED_OBJECT\n            if right_val is _EXPIRED_OBJECT:\n                return _EXPIRED_OBJECT\n            if left_val is None or right_val is None:\n                return None\n"), None)
R.mutant("is-op-inverted-test-left-only", EV,
         sub("            if left_val is _EXPIRED_OBJECT or right_val is _EXPIRED_OBJECT:\n                return _EXPIRED_OBJECT\n            return left_val == right_val\n",
             "            if left_val is not _EXPIRED_OBJECT:\n                return left_val == right_val\n            return _EXPIRED_OBJECT\n"), "C43-R1")
R.mutant("benign-auto-fetch-fallback-inside-handler", BP,
         sub("        except evaluator.UnevaluatableError:\n            pass\n        else:\n            return update_options + {\n                \"_eval_condition\": eval_condition,\n                \"_synchronize_session\": \"evaluate\",\n            }\n\n"
             "        update_options += {\"_synchronize_session\": \"fetch\"}\n        return cls._do_pre_synchronize_fetch(\n            session,\n            statement,\n            params,\n            execution_options,\n            bind_arguments,\n            update_options,\n        )\n",
             "        except evaluator.UnevaluatableError:\n            update_options += {\"_synchronize_session\": \"fetch\"}\n            return cls._do_pre_synchronize_fetch(\n                session,\n                statement,\n                params,\n                execution_options,\n                bind_arguments,\n                update_options,\n            )\n\n"
             "        return update_options + {\n            \"_eval_condition\": eval_condition,\n            \"_synchronize_session\": \"evaluate\",\n        }\n"), None)
R.mutant("auto-handler-form-falls-through-to-evaluate", BP,
         sub("        except evaluator.UnevaluatableError:\n            pass\n        else:\n            return update_options + {\n", "        except evaluator.UnevaluatableError:\n            eval_condition = None\n        if True:\n            return update_options + {\n"), "C43-R4")
R.mutant("benign-set-values-locals-renamed", BP, chain(sub("to_evaluate", "evaluable", count=12), sub("evaluator_compiler", "criteria_compiler", count=4)), None)
R.mutant("set-values-renamed-nothing-expired", BP,
         chain(sub("to_evaluate", "evaluable", count=12), sub("            to_expire = attrib.intersection(dict_).difference(evaluable)\n", "            to_expire = set()\n")), "C43-R4")

# ---- round 2 (str2-q): seeds C43_3 / C43_4 and the families they belong to
_UNARY = "                if value is _EXPIRED_OBJECT:\n                    return _EXPIRED_OBJECT\n                elif value is None:\n                    return None\n                return not value\n"
R.mutant("seed3-unary-null-guard-merged-into-no-object-test", EV,
         sub(_UNARY, "                if value is _EXPIRED_OBJECT or value is _NO_OBJECT:\n                    return value\n                return not value\n"),
         "C43-R1")
R.mutant("unary-null-guard-tests-truthiness", EV,
         sub(_UNARY, "                if value is _EXPIRED_OBJECT:\n                    return value\n                elif not value:\n                    return None\n                return not value\n"),
         "C43-R1")
R.mutant("benign-unary-guards-return-the-tested-value", EV,
         sub(_UNARY, "                if value is _EXPIRED_OBJECT:\n                    return value\n                if value is None:\n                    return value\n                return not value\n"),
         None)
R.mutant("benign-unary-guards-merged-return-the-tested-value", EV,
         sub(_UNARY, "                if value is _EXPIRED_OBJECT or value is None:\n                    return value\n                return not value\n"),
         None)
R.mutant("unary-merged-guard-returns-other-variable", EV,
         sub(_UNARY, "                if value is _EXPIRED_OBJECT or value is None:\n                    return obj\n                return not value\n"),
         "C43-R1")
_PREFETCH = ("        select_stmt = (\n            select(*(mapper.primary_key + (mapper.select_identity_token,)))\n            .select_from(mapper)\n"
             "            .options(*statement._with_options)\n        )\n        select_stmt._where_criteria = statement._where_criteria\n")
R.mutant("seed4-prefetch-select-loses-statement-options", BP,
         sub(_PREFETCH, "        select_stmt = select(\n            *(mapper.primary_key + (mapper.select_identity_token,))\n        ).select_from(mapper)\n"
                        "        select_stmt._where_criteria = statement._where_criteria\n"),
         "C43-R6")
R.mutant("prefetch-select-where-criteria-assigned-after-execute", BP,
         chain(sub("        select_stmt._where_criteria = statement._where_criteria\n", ""),
               sub("        matched_rows = result.fetchall()\n", "        select_stmt._where_criteria = statement._where_criteria\n        matched_rows = result.fetchall()\n")),
         "C43-R6")
R.mutant("prefetch-select-executed-without-bind-arguments", BP,
         sub("            select_stmt,\n            params,\n            execution_options=execution_options,\n            bind_arguments=bind_arguments,\n            _add_event=skip_for_returning,\n",
             "            select_stmt,\n            params,\n            execution_options=execution_options,\n            _add_event=skip_for_returning,\n"),
         "C43-R6")
R.mutant("prefetch-select-executed-with-fresh-execution-options", BP,
         sub("            select_stmt,\n            params,\n            execution_options=execution_options,\n            bind_arguments=bind_arguments,\n            _add_event=skip_for_returning,\n",
             "            select_stmt,\n            params,\n            execution_options=util.EMPTY_DICT,\n            bind_arguments=bind_arguments,\n            _add_event=skip_for_returning,\n"),
         "C43-R6")
R.mutant("evaluate-condition-ignores-loader-criteria", BP,
         sub("        for opt in statement._with_options:\n            if opt._is_criteria_option:\n                opt.get_global_criteria(global_attributes)\n\n", ""),
         "C43-R6")
R.mutant("evaluate-condition-compiles-loader-criteria-only", BP,
         sub("        if statement._where_criteria:\n            crit += statement._where_criteria\n\n        global_attributes = {}\n", "        global_attributes = {}\n"),
         "C43-R6")
R.mutant("benign-prefetch-select-generative-where-and-option-alias", BP,
         sub(_PREFETCH, "        loader_options = statement._with_options\n        pk_and_token = mapper.primary_key + (mapper.select_identity_token,)\n"
                        "        select_stmt = select(*pk_and_token).select_from(mapper)\n        select_stmt = select_stmt.options(*loader_options)\n"
                        "        if statement._where_criteria:\n            select_stmt = select_stmt.where(*statement._where_criteria)\n"),
         None)
R.mutant("benign-prefetch-select-built-by-classmethod-helper", BP,
         chain(sub(_PREFETCH, "        select_stmt = cls._prefetch_select_for(mapper, statement)\n"),
               sub("    @classmethod\n    def _do_pre_synchronize_fetch(\n",
                   "    @classmethod\n    def _prefetch_select_for(cls, mapper, dml):\n        stmt = select(\n            *(mapper.primary_key + (mapper.select_identity_token,))\n        ).select_from(mapper)\n"
                   "        stmt = stmt.options(*dml._with_options)\n        stmt._where_criteria = dml._where_criteria\n        return stmt\n\n"
                   "    @classmethod\n    def _do_pre_synchronize_fetch(\n")),
         None)
R.mutant("prefetch-helper-form-loses-options", BP,
         chain(sub(_PREFETCH, "        select_stmt = cls._prefetch_select_for(mapper, statement)\n"),
               sub("    @classmethod\n    def _do_pre_synchronize_fetch(\n",
                   "    @classmethod\n    def _prefetch_select_for(cls, mapper, dml):\n        stmt = select(\n            *(mapper.primary_key + (mapper.select_identity_token,))\n        ).select_from(mapper)\n"
                   "        stmt._where_criteria = dml._where_criteria\n        return stmt\n\n"
                   "    @classmethod\n    def _do_pre_synchronize_fetch(\n")),
         "C43-R6")
R.mutant("benign-evaluate-condition-criteria-collected-in-a-list", BP,
         sub("        crit = ()\n        if statement._where_criteria:\n            crit += statement._where_criteria\n\n        global_attributes = {}\n        for opt in statement._with_options:\n            if opt._is_criteria_option:\n                opt.get_global_criteria(global_attributes)\n\n        if global_attributes:\n            crit += cls._adjust_for_extra_criteria(global_attributes, mapper)\n",
             "        criteria = list(statement._where_criteria)\n\n        extra = {}\n        for option in statement._with_options:\n            if not option._is_criteria_option:\n                continue\n            option.get_global_criteria(extra)\n\n        if extra:\n            criteria.extend(cls._adjust_for_extra_criteria(extra, mapper))\n        crit = tuple(criteria)\n"),
         None)
# C43-R3, LIKE family (round-2 observation: the operand of an escaped / autoescaped startswith() reaches the evaluator in
# its escaped form): a guard has to deal with the wildcards AND with the escape modifier; one that does both clears the finding
_SW = "        return self._straight_evaluate(\n            lambda a, b: a.startswith(b), eval_left, eval_right, clause\n        )\n"
R.mutant("benign-startswith-guards-wildcards-and-escape-modifier", EV,
         sub(_SW, "        if clause.modifiers.get(\"escape\") is not None or clause.modifiers.get(\"autoescape\"):\n"
                  "            raise UnevaluatableError(\"startswith() with an escape character cannot be evaluated in Python\")\n"
                  "        return self._straight_evaluate(\n            lambda a, b: a.startswith(b) if \"%\" not in b and \"_\" not in b else _like_prefix(a, b),\n"
                  "            eval_left, eval_right, clause\n        )\n"),
         None)
