"""C54 -- Utility collections conform to their reference models (structural clauses)."""

from __future__ import annotations

import ast

from ..astutil import (
    calls_in, calls_named, call_name, dotted, enclosing_try, lexical_guards, guard_atoms,
    name_stores, unparse, walk_local, walk_stmts, raises_of,
)
from ..oracles import python_mutators
from ..report import Registry, sub

R = Registry(
    "C54",
    title="Utility collections conform to their reference models",
    decides=(
        "operator/update agreement of OrderedSet and IdentitySet (in-place operators mutate and return "
        "self, binary operators are pure); OrderedSet overrides every set mutator and only ever extends "
        "its order list from duplicate-free sources; immutabledict/ReadOnlyContainer reject every dict "
        "mutator and their merge helpers build new objects; LRUCache acquire/release pairing, trimming "
        "bound and LRU victim selection."
    ),
    not_decided="full model conformance of the collections under arbitrary operation sequences.",
)

CY = "util/_collections_cy.py"
IMM = "util/_immutabledict_cy.py"
COLL = "util/_collections.py"

INPLACE = {
    "__ior__": "update",
    "__iand__": "intersection_update",
    "__isub__": "difference_update",
    "__ixor__": "symmetric_difference_update",
}
BINARY = {
    "__or__": "union",
    "__and__": "intersection",
    "__sub__": "difference",
    "__xor__": "symmetric_difference",
}
PURE = set(BINARY.values()) | {"copy"}


def _self_calls(fn: ast.AST):
    """[(method name, call node, statement-is-bare-Expr)] for calls `self.m(...)`."""
    out = []
    for st in walk_stmts(fn.body):
        for c in calls_in(st) if not isinstance(st, (ast.If, ast.For, ast.While, ast.Try, ast.With)) else []:
            if isinstance(c.func, ast.Attribute) and isinstance(c.func.value, ast.Name) and c.func.value.id == "self":
                bare = isinstance(st, ast.Expr) and st.value is c
                out.append((c.func.attr, c, bare))
    return out


def _returns(fn):
    return [n for n in walk_local(fn) if isinstance(n, ast.Return)]


@R.rule("C54-R1", floor=16, template="T-SIBLING",
        desc="in-place operators delegate to the mutating sibling and return self; binary operators "
             "return the pure sibling's result; the result of a pure method is never discarded")
def r1(ctx):
    for cname in ("OrderedSet", "IdentitySet"):
        cls = ctx.index.cls(f"{CY}::{cname}")
        for op, sibling in INPLACE.items():
            key = f"{CY}::{cname}.{op}"
            f = cls.methods.get(op)
            if f is None:
                ctx.violation(key, f"in-place operator {op} is not defined (falls back to rebinding / base set)", cls.loc)
                continue
            ctx.functions_analysed.add(f.key)
            calls = _self_calls(f.node)
            names = [n for n, _, _ in calls]
            rets = [r for r in _returns(f.node) if not (isinstance(r.value, ast.Name) and r.value.id == "NotImplemented")]
            ok_ret = rets and all(isinstance(r.value, ast.Name) and r.value.id == "self" for r in rets)
            if sibling not in names:
                ctx.violation(key, f"{op} does not call the mutating sibling self.{sibling}() (calls: {names})", f.loc)
            elif not ok_ret:
                ctx.violation(key, f"{op} does not return self on its operating path", f.loc)
            else:
                ctx.ok(key, f"-> self.{sibling}(); return self")
        for op, sibling in BINARY.items():
            key = f"{CY}::{cname}.{op}"
            f = cls.methods.get(op)
            if f is None:
                ctx.violation(key, f"binary operator {op} is not defined", cls.loc)
                continue
            ctx.functions_analysed.add(f.key)
            good = False
            for r in _returns(f.node):
                v = r.value
                if isinstance(v, ast.Call) and dotted(v.func) == f"self.{sibling}":
                    good = True
            ctx.check(good, key, f"{op} does not return self.{sibling}(...)", f"-> return self.{sibling}()", f.loc)
        # unused-result rule: a pure method called as a bare expression statement
        already = {i.key for i in ctx.instances if i.verdict == "violation" and i.rule == "C54-R1"}
        for name, f in sorted(cls.methods.items()):
            for mname, c, bare in _self_calls(f.node):
                if mname in PURE and bare and f"{CY}::{cname}.{name}" not in already:
                    ctx.violation(
                        f"{CY}::{cname}.{name}",
                        f"result of pure method self.{mname}() is discarded (statement has no effect)",
                        f"{f.module.path}:{c.lineno}",
                    )


def _dupfree(expr, fn, cls, ctx, depth=0) -> bool:
    """Is `expr` (a list-valued expression inside method `fn` of OrderedSet) duplicate-free?"""
    if depth > 6:
        return False
    if isinstance(expr, ast.List) and not expr.elts:
        return True
    if isinstance(expr, ast.Attribute) and expr.attr == "_list":
        return True
    if isinstance(expr, ast.Call):
        nm = call_name(expr) or ""
        short = nm.rsplit(".", 1)[-1]
        if short == "unique_list":
            return True
        if short in ("list", "tuple", "sorted", "reversed") and len(expr.args) == 1:
            return _dupfree(expr.args[0], fn, cls, ctx, depth + 1)
        if short in ("set", "frozenset") or nm.startswith("set."):
            return True
        if short == "cast" and len(expr.args) == 2 and unparse(expr.args[0]) in ("set", "frozenset"):
            return True
        return False
    if isinstance(expr, ast.ListComp) and len(expr.generators) == 1:
        # a filter / projection of identity over a duplicate-free source
        g = expr.generators[0]
        if isinstance(expr.elt, ast.Name) and isinstance(g.target, ast.Name) and expr.elt.id == g.target.id:
            return _dupfree(g.iter, fn, cls, ctx, depth + 1)
        return False
    if isinstance(expr, ast.Name):
        if expr.id == "self":
            return True  # iterating the OrderedSet itself
        # isinstance(x, set/dict) lexical guard
        pm = fn.module.parents()
        for t, pol in lexical_guards(pm, expr):
            if not pol:
                continue
            disj = t.values if isinstance(t, ast.BoolOp) and isinstance(t.op, ast.Or) else [t]

            def is_set_test(e):
                if not (isinstance(e, ast.Call) and call_name(e) == "isinstance" and len(e.args) == 2):
                    return False
                if unparse(e.args[0]) != expr.id:
                    return False
                kinds = e.args[1].elts if isinstance(e.args[1], ast.Tuple) else [e.args[1]]
                return all(unparse(k) in ("set", "dict", "frozenset") for k in kinds)

            if all(is_set_test(e) for e in disj):
                return True
        # parameter of a private constructor: check every call site in the class
        if expr.id in fn.params and fn.name.startswith("_") and not fn.name.startswith("__"):
            pos = fn.params.index(expr.id) - 1
            sites = []
            for mname, m in cls.methods.items():
                for c in calls_named(m.node, fn.name):
                    if pos < len(c.args):
                        sites.append((m, c.args[pos]))
            return bool(sites) and all(_dupfree(a, m, cls, ctx, depth + 1) for m, a in sites)
        binds = [(v, st) for n, v, st in name_stores(fn.node) if n == expr.id]
        if binds and all(v is not None and _dupfree(v, fn, cls, ctx, depth + 1) for v, st in binds):
            return True
        return False
    if isinstance(expr, ast.IfExp):
        return _dupfree(expr.body, fn, cls, ctx, depth + 1) and _dupfree(expr.orelse, fn, cls, ctx, depth + 1)
    return False


@R.rule("C54-R2", floor=20, template="T-EXHAUST/T-PATH",
        desc="OrderedSet overrides every set mutator; each override touches both the set and _list; "
             "_list is only extended from duplicate-free sources or under an element-wise not-in test")
def r2(ctx):
    cls = ctx.index.cls(f"{CY}::OrderedSet")
    members, _ = python_mutators("set")
    for m in members:
        key = f"{CY}::OrderedSet.{m}"
        f = cls.methods.get(m)
        if f is None:
            ctx.violation(key, f"set mutator {m} is not overridden: the builtin would change the set but not _list", cls.loc)
            continue
        ctx.functions_analysed.add(f.key)
        body_calls = [call_name(c) or "" for c in calls_in(f.node)]
        touches_list = any(isinstance(n, ast.Attribute) and n.attr == "_list" for n in ast.walk(f.node))
        touches_set = any(c.startswith("set.") for c in body_calls)
        delegates = any(c.startswith("self.") and c.split(".")[1] in members for c in body_calls)
        ctx.check(
            (touches_list and touches_set) or delegates, key,
            f"{m} does not update both the set and _list (nor delegate to a sibling mutator)",
            "updates set and _list" if not delegates else "delegates to sibling mutator", f.loc,
        )
    # every extension of `_list`
    pm = cls.module.parents()
    for name, f in sorted(cls.methods.items()):
        for st in walk_stmts(f.node.body):
            # self._list.append(x) / insert(pos, x) / extend(xs)
            if isinstance(st, ast.Expr) and isinstance(st.value, ast.Call):
                c = st.value
                d = dotted(c.func) or ""
                if d.endswith("._list.append") or d.endswith("._list.insert"):
                    elem = c.args[-1]
                    atoms = guard_atoms(lexical_guards(pm, st, stop=f.node))
                    want = f"{unparse(elem)} in self"
                    good = (want, False) in atoms
                    ctx.check(good, f"{CY}::OrderedSet.{name}:{d.rsplit('.',1)[-1]}",
                              f"`{unparse(st)}` is not guarded by `{unparse(elem)} not in self`",
                              "guarded element-wise", f"{f.module.path}:{st.lineno}")
                elif d.endswith("._list.extend"):
                    good = _dupfree(c.args[0], f, cls, ctx)
                    ctx.check(good, f"{CY}::OrderedSet.{name}:extend",
                              f"`{unparse(st)}` extends _list from a source that may contain duplicates",
                              "duplicate-free source", f"{f.module.path}:{st.lineno}")
            elif isinstance(st, (ast.Assign, ast.AugAssign)):
                tg = st.targets if isinstance(st, ast.Assign) else [st.target]
                if any(isinstance(t, ast.Attribute) and t.attr == "_list" for t in tg):
                    good = _dupfree(st.value, f, cls, ctx)
                    kind = "+=" if isinstance(st, ast.AugAssign) else "="
                    ctx.check(good, f"{CY}::OrderedSet.{name}:_list{kind}",
                              f"`{unparse(st)}` puts elements into _list from a source that may contain duplicates "
                              f"(iteration would repeat them while len() does not)",
                              "duplicate-free source", f"{f.module.path}:{st.lineno}")


@R.rule("C54-R3", floor=20, template="T-EXHAUST/T-FRESH",
        desc="every dict mutator raises on immutabledict / ImmutableDictBase; ReadOnlyContainer rejects "
             "item/attribute stores; union/merge_with/_union_other never mutate receiver or arguments")
def r3(ctx):
    members, _ = python_mutators("dict")
    members = members + ["__setattr__"]
    nr = ctx.noreturn_names()
    for cname in ("immutabledict", "ImmutableDictBase"):
        cls = ctx.index.cls(f"{IMM}::{cname}")
        for m in members:
            key = f"{IMM}::{cname}.{m}"
            f = ctx.index.resolve_method(cls, m)
            if f is None:
                ctx.violation(key, f"dict mutator {m} is not overridden: the builtin would mutate an immutable dict", cls.loc)
                continue
            g = ctx.cfg(f)
            # no normal exit: every path ends in a raise (call of a NoReturn function or raise)
            normal = g.exit in g.reachable([g.entry])
            ctx.check(not normal, key, f"{m} can return normally (does not raise on every path)", "always raises", f.loc)
    roc = ctx.index.cls(f"{IMM}::ReadOnlyContainer")
    for m in ("__setitem__", "__delitem__", "__setattr__"):
        f = roc.methods.get(m)
        key = f"{IMM}::ReadOnlyContainer.{m}"
        if f is None:
            ctx.violation(key, f"{m} not defined", roc.loc)
            continue
        g = ctx.cfg(f)
        ctx.check(g.exit not in g.reachable([g.entry]), key, f"{m} can return normally", "always raises", f.loc)
    # freshness of merge helpers: in-place updates only on a locally constructed dict
    cls = ctx.index.cls(f"{IMM}::immutabledict")
    for m in ("union", "merge_with", "_union_other", "__or__", "__ror__"):
        f = cls.methods.get(m)
        key = f"{IMM}::immutabledict.{m}"
        if f is None:
            ctx.violation(key, f"{m} not defined", cls.loc)
            continue
        ctx.functions_analysed.add(f.key)
        fresh = set()
        for n, v, st in name_stores(f.node):
            if isinstance(v, ast.Call) and (call_name(v) or "").rsplit(".", 1)[-1] in ("immutabledict", "dict"):
                fresh.add(n)
        bad = []
        for c in calls_in(f.node):
            nm = call_name(c) or ""
            if nm in ("PyDict_Update", "dict.update", "dict.__setitem__", "dict.__ior__") and c.args:
                tgt = c.args[0]
                if not (isinstance(tgt, ast.Name) and tgt.id in fresh):
                    bad.append(unparse(c))
        ctx.check(not bad, key, f"{m} updates a dict that is not a fresh local: {bad}", "mutates only fresh result", f.loc)


@R.rule("C54-R4", floor=6, template="T-PATH",
        desc="LRUCache._manage_size: non-blocking acquire, release on every exit after acquisition, "
             "trim loop bound, LRU victims; __getitem__/__setitem__ counter/value indices")
def r4(ctx):
    f = ctx.func(f"{COLL}::LRUCache._manage_size")
    g = ctx.cfg(f)
    key = f.key
    acq = g.find_calls("_mutex.acquire")
    rel = g.find_calls("_mutex.release")
    ctx.require(acq, "no _mutex.acquire() in LRUCache._manage_size")
    # (a) the acquire is a test; its failing branch returns without touching _data
    a = g.node(acq[0])
    is_test = a.kind == "test"
    nonblocking = False
    for c in calls_in(a.stmt.test if is_test else a.stmt):
        if (call_name(c) or "").endswith("_mutex.acquire"):
            args = [unparse(x) for x in c.args] + [f"{k.arg}={unparse(k.value)}" for k in c.keywords]
            nonblocking = args in (["False"], ["blocking=False"], ["0"])
    ctx.check(is_test and nonblocking, key + ":acquire", "mutex is not acquired non-blockingly inside a test", "non-blocking acquire tested", f.loc)
    if is_test:
        neg = isinstance(a.stmt.test, ast.UnaryOp) and isinstance(a.stmt.test.op, ast.Not)
        got_label = "false" if neg else "true"
        got = [b for b, lab in g.succ[a.id] if lab == got_label]
        notgot = [b for b, lab in g.succ[a.id] if lab == ("true" if neg else "false")]
        # (b) after acquisition every path to any exit passes through release()
        w = g.must_pass(got, [g.exit, g.raise_exit], rel)
        ctx.check(w is None, key + ":release", "a path leaves _manage_size with the mutex held", "release() on every exit once acquired", f.loc, w)
        # (c) without acquisition nothing is deleted and release is not called
        dels = [n.id for n in g.nodes if isinstance(n.stmt, ast.Delete)]
        r = g.reachable(notgot)
        ctx.check(not (set(dels) | set(rel)) & r, key + ":not-acquired",
                  "the not-acquired branch reaches a delete or a release", "not-acquired branch returns untouched", f.loc)
    # (d) loop bound and victim selection
    loops = [n for n in walk_local(f.node) if isinstance(n, ast.While)]
    ctx.require(loops, "no trimming while-loop in _manage_size")
    t = loops[0].test
    good = (
        isinstance(t, ast.Compare) and len(t.ops) == 1 and isinstance(t.ops[0], ast.Gt)
        and unparse(t.left).replace(" ", "") in ("len(self)", "len(self._data)")
        and "capacity" in unparse(t.comparators[0])
    )
    ctx.check(good, key + ":bound", f"trim loop condition `{unparse(t)}` is not `len(self) > <capacity bound>`", unparse(t), f.loc)
    srt = [c for c in calls_in(f.node) if call_name(c) == "sorted"]
    ctx.require(srt, "no sorted() victim ordering in _manage_size")
    kw = {k.arg: unparse(k.value) for k in srt[0].keywords}
    rev = kw.get("reverse", "False") == "True"
    keyidx = kw.get("key", "")
    # the slice that is deleted
    fors = [n for n in walk_local(f.node) if isinstance(n, ast.For) and isinstance(n.iter, ast.Subscript)]
    ctx.require(fors, "no slice iteration over sorted victims")
    sl = fors[0].iter.slice
    tail = isinstance(sl, ast.Slice) and sl.lower is not None and sl.upper is None
    head = isinstance(sl, ast.Slice) and sl.lower is None and sl.upper is not None
    # most-recent-first (reverse=True) => delete the tail; ascending => delete the head
    consistent = (rev and tail) or ((not rev) and head)
    ctx.check(consistent and "itemgetter(2)" in keyidx, key + ":victims",
              f"victim slice `{unparse(fors[0].iter)}` with reverse={rev}, key={keyidx} does not select least-recently-used entries",
              f"sorted by usage counter reverse={rev}, deletes {'tail' if tail else 'head'}", f.loc)
    dl = [n for n in walk_local(fors[0]) if isinstance(n, ast.Delete)]
    okdel = dl and unparse(dl[0].targets[0]).replace(" ", "") == f"self._data[{fors[0].target.id}[0]]"
    ctx.check(bool(okdel), key + ":delete-key", "victim is not deleted by its own key (item[0])", "del self._data[item[0]]", f.loc)
    # (e) accessors
    for m in ("__getitem__", "get"):
        fm = ctx.func(f"{COLL}::LRUCache.{m}")
        txt = [unparse(s) for s in walk_stmts(fm.node.body)]
        bump = any(s.replace(" ", "") == "item[2][0]=self._inc_counter()" for s in txt)
        ret = any(isinstance(s, ast.Return) and unparse(s.value) == "item[1]" for s in walk_stmts(fm.node.body))
        src = any(s.replace(" ", "") in ("item=self._data[key]", "item=self._data.get(key)") for s in txt)
        ctx.check(bump and ret and src, fm.key, f"{m} does not bump the counter of / return the value of the accessed key", "bumps item[2][0], returns item[1]", fm.loc)
    fs = ctx.func(f"{COLL}::LRUCache.__setitem__")
    st = [s for s in walk_stmts(fs.node.body) if isinstance(s, ast.Assign)]
    good = False
    for s in st:
        if unparse(s.targets[0]).replace(" ", "") == "self._data[key]" and isinstance(s.value, ast.Tuple) and len(s.value.elts) == 3:
            e = s.value.elts
            good = unparse(e[0]) == "key" and unparse(e[1]) == "value" and "_inc_counter" in unparse(e[2])
    calls_ms = bool(calls_named(fs.node, "_manage_size"))
    ctx.check(good and calls_ms, fs.key, "__setitem__ does not store (key, value, [counter]) and trim", "(key, value, [counter]); _manage_size()", fs.loc)


# ---------------------------------------------------------------------- self-test battery
R.mutant("orderedset-ior-returns-copy", CY,
         sub("        self.update(iterable)\n        return self\n", "        return self.union(iterable)\n"), "C54-R1")
R.mutant("orderedset-isub-calls-pure", CY,
         sub("        self.difference_update(other)\n        return self\n", "        self.difference(other)\n        return self\n"), "C54-R1")
R.mutant("identityset-or-returns-self", CY,
         sub("        return self.union(other)\n\n    @cython.ccall\n    def update", "        self.update(other)\n        return self\n\n    @cython.ccall\n    def update"), "C54-R1")
R.mutant("orderedset-discard-not-overridden", CY,
         sub("    def discard(self, element: _T, /) -> None:\n        if element in self:\n            set.remove(self, element)\n            self._list.remove(element)\n", ""), "C54-R2")
R.mutant("orderedset-add-unguarded", CY,
         sub("    def add(self, element: _T, /) -> None:\n        if element not in self:\n            self._list.append(element)\n            set.add(self, element)\n",
             "    def add(self, element: _T, /) -> None:\n        self._list.append(element)\n        set.add(self, element)\n"), "C54-R2")
R.mutant("orderedset-init-list-not-unique", CY,
         sub("self._list = unique_list(d)", "self._list = list(d)"), "C54-R2")
R.mutant("immutabledict-setdefault-passes", IMM,
         sub("    def setdefault(self, key: Any, default: Optional[Any] = None) -> NoReturn:\n        _immutable_fn(self)\n",
             "    def setdefault(self, key: Any, default: Optional[Any] = None) -> Any:\n        return dict.setdefault(self, key, default)\n", count=2), "C54-R3")
R.mutant("immutabledict-ior-removed", IMM,
         sub("    def __ior__(self, __value: Any, /) -> NoReturn:\n        _immutable_fn(self)\n", ""), "C54-R3")
R.mutant("immutabledict-union-mutates-self", IMM,
         sub("        result: immutabledict = immutabledict()\n        if not self_is_empty:\n            PyDict_Update(result, self)\n",
             "        result: immutabledict = self\n"), "C54-R3")
R.mutant("lru-release-not-in-finally", COLL,
         sub("                        continue\n        finally:\n            self._mutex.release()\n", "                        continue\n        finally:\n            pass\n        self._mutex.release()\n"), "C54-R4")
R.mutant("lru-wrong-victims", COLL,
         sub("for item in by_counter[self.capacity :]:", "for item in by_counter[: self.capacity]:"), "C54-R4")
R.mutant("lru-getitem-returns-key", COLL,
         sub("        item = self._data[key]\n        item[2][0] = self._inc_counter()\n        return item[1]\n",
             "        item = self._data[key]\n        item[2][0] = self._inc_counter()\n        return item[0]\n"), "C54-R4")
# benign refactors: must stay silent
R.mutant("benign-rename-local", CY, sub("other_set: Set[Any] = set.difference(self, *other)\n        return self._from_list([a for a in self._list if a in other_set])",
                                        "keep: Set[Any] = set.difference(self, *other)\n        return self._from_list([a for a in self._list if a in keep])"), None)
R.mutant("benign-lru-logging", COLL, sub("            size_alert = bool(self.size_alert)\n", "            size_alert = bool(self.size_alert)\n            _n = len(self)\n"), None)
