"""C54 -- Utility collections conform to their reference models (structural clauses)."""

from __future__ import annotations

import ast

from ..astutil import (
    calls_in, calls_named, call_name, dotted, enclosing_stmt, enclosing_try, lexical_guards, guard_atoms,
    name_stores, unparse, walk_local, walk_stmts, raises_of,
)
from ..oracles import python_mutators
from ..cfg import no_exc
from ..report import Registry, chain, sub
from ._helpers_rob_h1 import expand_properties, implied, nform, resolve_local

R = Registry(
    "C54",
    title="Utility collections conform to their reference models",
    decides=(
        "operator/update agreement of OrderedSet and IdentitySet (in-place operators mutate and return "
        "self, binary operators are pure); OrderedSet overrides every set mutator and only ever extends "
        "its order list from duplicate-free sources; immutabledict/ReadOnlyContainer reject every dict "
        "mutator and their merge helpers build new objects; LRUCache acquire/release pairing, trimming "
        "bound and LRU victim selection."
    ),
    not_decided="full model conformance of the collections under arbitrary operation sequences.",
)

CY = "util/_collections_cy.py"
IMM = "util/_immutabledict_cy.py"
COLL = "util/_collections.py"

INPLACE = {
    "__ior__": "update",
    "__iand__": "intersection_update",
    "__isub__": "difference_update",
    "__ixor__": "symmetric_difference_update",
}
BINARY = {
    "__or__": "union",
    "__and__": "intersection",
    "__sub__": "difference",
    "__xor__": "symmetric_difference",
}
PURE = set(BINARY.values()) | {"copy"}


def _self_calls(fn: ast.AST):
    """[(method name, call node, statement-is-bare-Expr)] for calls `self.m(...)`."""
    out = []
    for st in walk_stmts(fn.body):
        for c in calls_in(st) if not isinstance(st, (ast.If, ast.For, ast.While, ast.Try, ast.With)) else []:
            if isinstance(c.func, ast.Attribute) and isinstance(c.func.value, ast.Name) and c.func.value.id == "self":
                bare = isinstance(st, ast.Expr) and st.value is c
                out.append((c.func.attr, c, bare))
    return out


def _returns(fn):
    return [n for n in walk_local(fn) if isinstance(n, ast.Return)]


@R.rule("C54-R1", floor=16, template="T-SIBLING",
        desc="in-place operators delegate to the mutating sibling and return self; binary operators "
             "return the pure sibling's result; the result of a pure method is never discarded")
def r1(ctx):
    for cname in ("OrderedSet", "IdentitySet"):
        cls = ctx.index.cls(f"{CY}::{cname}")
        for op, sibling in INPLACE.items():
            key = f"{CY}::{cname}.{op}"
            f = cls.methods.get(op)
            if f is None:
                ctx.violation(key, f"in-place operator {op} is not defined (falls back to rebinding / base set)", cls.loc)
                continue
            ctx.functions_analysed.add(f.key)
            calls = _self_calls(f.node)
            names = [n for n, _, _ in calls]
            rets = [r for r in _returns(f.node) if not (isinstance(r.value, ast.Name) and r.value.id == "NotImplemented")]
            ok_ret = rets and all(isinstance(r.value, ast.Name) and r.value.id == "self" for r in rets)
            if sibling not in names:
                ctx.violation(key, f"{op} does not call the mutating sibling self.{sibling}() (calls: {names})", f.loc)
            elif not ok_ret:
                ctx.violation(key, f"{op} does not return self on its operating path", f.loc)
            else:
                ctx.ok(key, f"-> self.{sibling}(); return self")
        for op, sibling in BINARY.items():
            key = f"{CY}::{cname}.{op}"
            f = cls.methods.get(op)
            if f is None:
                ctx.violation(key, f"binary operator {op} is not defined", cls.loc)
                continue
            ctx.functions_analysed.add(f.key)
            good = False
            for r in _returns(f.node):
                v = r.value
                if isinstance(v, ast.Call) and dotted(v.func) == f"self.{sibling}":
                    good = True
            ctx.check(good, key, f"{op} does not return self.{sibling}(...)", f"-> return self.{sibling}()", f.loc)
        # unused-result rule: a pure method called as a bare expression statement
        already = {i.key for i in ctx.instances if i.verdict == "violation" and i.rule == "C54-R1"}
        for name, f in sorted(cls.methods.items()):
            for mname, c, bare in _self_calls(f.node):
                if mname in PURE and bare and f"{CY}::{cname}.{name}" not in already:
                    ctx.violation(
                        f"{CY}::{cname}.{name}",
                        f"result of pure method self.{mname}() is discarded (statement has no effect)",
                        f"{f.module.path}:{c.lineno}",
                    )


def _dupfree(expr, fn, cls, ctx, depth=0) -> bool:
    """Is `expr` (a list-valued expression inside method `fn` of OrderedSet) duplicate-free?"""
    if depth > 6:
        return False
    if isinstance(expr, ast.List) and not expr.elts:
        return True
    if isinstance(expr, ast.Attribute) and expr.attr == "_list":
        return True
    if isinstance(expr, ast.Call):
        nm = call_name(expr) or ""
        short = nm.rsplit(".", 1)[-1]
        if short == "unique_list":
            return True
        if short in ("list", "tuple", "sorted", "reversed") and len(expr.args) == 1:
            return _dupfree(expr.args[0], fn, cls, ctx, depth + 1)
        if short in ("set", "frozenset") or nm.startswith("set."):
            return True
        if short == "cast" and len(expr.args) == 2 and unparse(expr.args[0]) in ("set", "frozenset"):
            return True
        return False
    if isinstance(expr, ast.ListComp) and len(expr.generators) == 1:
        # a filter / projection of identity over a duplicate-free source
        g = expr.generators[0]
        if isinstance(expr.elt, ast.Name) and isinstance(g.target, ast.Name) and expr.elt.id == g.target.id:
            return _dupfree(g.iter, fn, cls, ctx, depth + 1)
        return False
    if isinstance(expr, ast.Name):
        if expr.id == "self":
            return True  # iterating the OrderedSet itself
        # the branch outcomes under which the expression is evaluated say that it is a set/dict: lexical guards and the
        # outcomes that dominate it on the CFG (early return, inverted if/else), `or` / De Morgan / `not` normalised
        pm = fn.module.parents() if not hasattr(fn, "pm") else fn.pm
        guards = list(lexical_guards(pm, expr))
        st = enclosing_stmt(pm, expr)
        if st is not None:
            g = ctx.cfg(fn)
            for i in g.nodes_for(st)[:1]:
                guards += g.edge_guards(i)

        def is_set_test(e):
            if not (isinstance(e, ast.Call) and call_name(e) == "isinstance" and len(e.args) == 2):
                return False
            if unparse(e.args[0]) != expr.id:
                return False
            kinds = e.args[1].elts if isinstance(e.args[1], ast.Tuple) else [e.args[1]]
            return all(unparse(k) in ("set", "dict", "frozenset") for k in kinds)

        if any(implied(t, pol, is_set_test) for t, pol in guards):
            return True
        # parameter of a private constructor: check every call site in the class
        if expr.id in fn.params and fn.name.startswith("_") and not fn.name.startswith("__"):
            pos = fn.params.index(expr.id) - 1
            sites = []
            for mname, m in cls.methods.items():
                for c in calls_named(m.node, fn.name):
                    if pos < len(c.args):
                        sites.append((m, c.args[pos]))
            return bool(sites) and all(_dupfree(a, m, cls, ctx, depth + 1) for m, a in sites)
        binds = [(v, st) for n, v, st in name_stores(fn.node) if n == expr.id]
        if binds and all(v is not None and _dupfree(v, fn, cls, ctx, depth + 1) for v, st in binds):
            # a local list that is filled afterwards is what its fill makes it: `x = []` + `for a in SRC: [if C:]
            # x.append(a)` is the comprehension `[a for a in SRC if C]`; any other growth is not understood as
            # duplicate-free
            return _fills_dupfree(expr.id, fn, cls, ctx, depth)
        return False
    if isinstance(expr, ast.IfExp):
        return _dupfree(expr.body, fn, cls, ctx, depth + 1) and _dupfree(expr.orelse, fn, cls, ctx, depth + 1)
    if isinstance(expr, ast.BinOp) and isinstance(expr.op, ast.Add):
        # a concatenation is duplicate-free iff both operands are AND they are disjoint.  An operand that
        # may itself repeat elements decides the question (False); two duplicate-free operands whose
        # disjointness is not visible in their shape are an idiom this analysis does not understand.
        lt, rt = expr.left, expr.right
        if not (_dupfree(lt, fn, cls, ctx, depth + 1) and _dupfree(rt, fn, cls, ctx, depth + 1)):
            return False
        disjoint = (_within_self(lt) and _excludes_self(rt)) or (_within_self(rt) and _excludes_self(lt))
        ctx.require(disjoint, f"{fn.key}: cannot decide whether the operands of `{unparse(expr)}` are disjoint")
        return True
    return False


_GROW = {"append", "extend", "insert", "__iadd__", "__setitem__"}


def _fills_dupfree(name, fn, cls, ctx, depth) -> bool:
    """every statement that grows the local list `name` in fn is the loop form of an identity comprehension over a
    duplicate-free source: `for a in SRC: [if C:] name.append(a)`, the loop not nested in another loop"""
    pm = fn.module.parents() if not hasattr(fn, "pm") else fn.pm
    for n in walk_local(fn.node):
        if isinstance(n, ast.AugAssign) and isinstance(n.target, ast.Name) and n.target.id == name:
            return False
        if isinstance(n, ast.Subscript) and isinstance(n.value, ast.Name) and n.value.id == name and isinstance(n.ctx, ast.Store):
            return False
        if not (isinstance(n, ast.Call) and isinstance(n.func, ast.Attribute) and isinstance(n.func.value, ast.Name)
                and n.func.value.id == name and n.func.attr in _GROW):
            continue
        if n.func.attr != "append" or len(n.args) != 1 or not isinstance(n.args[0], ast.Name):
            return False
        loops = []
        cur = pm.get(n)
        while cur is not None and cur is not fn.node:
            if isinstance(cur, (ast.For, ast.While, ast.AsyncFor)):
                loops.append(cur)
            cur = pm.get(cur)
        if len(loops) != 1 or not isinstance(loops[0], ast.For) or not isinstance(loops[0].target, ast.Name) \
                or loops[0].target.id != n.args[0].id:
            return False
        if not _dupfree(loops[0].iter, fn, cls, ctx, depth + 1):
            return False
    return True


def _is_self_members(e) -> bool:
    """`self` / `self._list` (the receiver's own members)."""
    return (isinstance(e, ast.Name) and e.id == "self") or (
        isinstance(e, ast.Attribute) and e.attr == "_list" and isinstance(e.value, ast.Name) and e.value.id == "self")


def _identity_comp(e):
    if isinstance(e, ast.ListComp) and len(e.generators) == 1:
        g = e.generators[0]
        if isinstance(e.elt, ast.Name) and isinstance(g.target, ast.Name) and e.elt.id == g.target.id:
            return g
    return None


def _within_self(e) -> bool:
    """Every element of the list expression is a member of the receiver."""
    if _is_self_members(e):
        return True
    if isinstance(e, ast.Call) and (call_name(e) or "") in ("list", "tuple") and len(e.args) == 1:
        return _within_self(e.args[0])
    g = _identity_comp(e)
    if g is not None:
        if _within_self(g.iter):
            return True
        return any(isinstance(t, ast.Compare) and len(t.ops) == 1 and isinstance(t.ops[0], ast.In)
                   and isinstance(t.left, ast.Name) and t.left.id == g.target.id
                   and _is_self_members(t.comparators[0]) for t in g.ifs)
    return False


def _excludes_self(e) -> bool:
    """No element of the list expression is a member of the receiver (`... if x not in self`)."""
    g = _identity_comp(e)
    if g is None:
        return False
    return any(isinstance(t, ast.Compare) and len(t.ops) == 1 and isinstance(t.ops[0], ast.NotIn)
               and isinstance(t.left, ast.Name) and t.left.id == g.target.id
               and _is_self_members(t.comparators[0]) for t in g.ifs)


def _is_private_ctor_param(expr, fn) -> bool:
    return (isinstance(expr, ast.Name) and expr.id in fn.params and expr.id != "self"
            and fn.name.startswith("_") and not fn.name.startswith("__"))


def _ctor_call_sites(ctx, cls, ctor, param) -> int:
    """Record one instance per call of the private constructor `ctor` anywhere in its module: the
    argument that becomes `_list` must be duplicate-free in the caller's context."""
    pos = ctor.params.index(param) - 1
    n = 0
    for caller in sorted(ctx.index.all_functions(cls.module), key=lambda x: x.key):
        if caller.type_only or caller.is_overload:
            continue
        sites = calls_named(caller.node, ctor.name)
        for i, c in enumerate(sites):
            arg = c.args[pos] if pos < len(c.args) else next(
                (k.value for k in c.keywords if k.arg == param), None)
            ctx.require(arg is not None, f"{caller.key}: call of {ctor.name}() without the `{param}` argument")
            n += 1
            ctx.functions_analysed.add(caller.key)
            key = f"{caller.key}:{ctor.name}({param})" + (f"#{i + 1}" if len(sites) > 1 else "")
            ctx.check(_dupfree(arg, caller, cls, ctx), key,
                      f"{caller.qualname} builds a new OrderedSet with {ctor.name}(`{unparse(arg)}`): the list may "
                      f"repeat an element (nothing de-duplicates it: iteration would yield the element twice "
                      f"while len() counts it once)",
                      "list handed to the private constructor is duplicate-free",
                      f"{caller.module.path}:{c.lineno}")
    return n


@R.rule("C54-R2", floor=25, template="T-EXHAUST/T-PATH",
        desc="OrderedSet overrides every set mutator; each override touches both the set and _list; "
             "_list is only extended from duplicate-free sources or under an element-wise not-in test")
def r2(ctx):
    cls = ctx.index.cls(f"{CY}::OrderedSet")
    members, _ = python_mutators("set")
    for m in members:
        key = f"{CY}::OrderedSet.{m}"
        f = cls.methods.get(m)
        if f is None:
            ctx.violation(key, f"set mutator {m} is not overridden: the builtin would change the set but not _list", cls.loc)
            continue
        ctx.functions_analysed.add(f.key)
        body_calls = [call_name(c) or "" for c in calls_in(f.node)]
        touches_list = any(isinstance(n, ast.Attribute) and n.attr == "_list" for n in ast.walk(f.node))
        touches_set = any(c.startswith("set.") or c.startswith("super().") for c in body_calls)      # `set.add(self, x)` / `super().add(x)`
        delegates = any(c.startswith("self.") and c.split(".")[1] in members for c in body_calls)
        ctx.check(
            (touches_list and touches_set) or delegates, key,
            f"{m} does not update both the set and _list (nor delegate to a sibling mutator)",
            "updates set and _list" if not delegates else "delegates to sibling mutator", f.loc,
        )
    # every extension of `_list`
    pm = cls.module.parents()
    for name, f in sorted(cls.methods.items()):
        for st in walk_stmts(f.node.body):
            # self._list.append(x) / insert(pos, x) / extend(xs)
            if isinstance(st, ast.Expr) and isinstance(st.value, ast.Call):
                c = st.value
                d = dotted(c.func) or ""
                if d.endswith("._list.append") or d.endswith("._list.insert"):
                    elem = c.args[-1]
                    gf = ctx.cfg(f)
                    atoms = guard_atoms(lexical_guards(pm, st, stop=f.node)) + [a for i in gf.nodes_for(st)[:1]
                                                                               for a in guard_atoms(gf.edge_guards(i))]
                    want = f"{unparse(elem)} in self"
                    good = (want, False) in atoms
                    ctx.check(good, f"{CY}::OrderedSet.{name}:{d.rsplit('.',1)[-1]}",
                              f"`{unparse(st)}` is not guarded by `{unparse(elem)} not in self`",
                              "guarded element-wise", f"{f.module.path}:{st.lineno}")
                elif d.endswith("._list.extend"):
                    good = _dupfree(c.args[0], f, cls, ctx)
                    ctx.check(good, f"{CY}::OrderedSet.{name}:extend",
                              f"`{unparse(st)}` extends _list from a source that may contain duplicates",
                              "duplicate-free source", f"{f.module.path}:{st.lineno}")
            elif isinstance(st, (ast.Assign, ast.AugAssign)):
                tg = st.targets if isinstance(st, ast.Assign) else [st.target]
                if any(isinstance(t, ast.Attribute) and t.attr == "_list" for t in tg):
                    if _is_private_ctor_param(st.value, f) and isinstance(st, ast.Assign):
                        # private constructor (`_from_list(new_list)`): the obligation moves to the
                        # callers; one instance per call site, named after the calling method
                        n = _ctor_call_sites(ctx, cls, f, st.value.id)
                        ctx.check(n > 0, f"{CY}::OrderedSet.{name}:_list=",
                                  f"private constructor {name}() stores its parameter into _list but has no call site",
                                  f"parameter `{st.value.id}`; {n} call site(s) checked one by one",
                                  f"{f.module.path}:{st.lineno}")
                        continue
                    good = _dupfree(st.value, f, cls, ctx)
                    kind = "+=" if isinstance(st, ast.AugAssign) else "="
                    ctx.check(good, f"{CY}::OrderedSet.{name}:_list{kind}",
                              f"`{unparse(st)}` puts elements into _list from a source that may contain duplicates "
                              f"(iteration would repeat them while len() does not)",
                              "duplicate-free source", f"{f.module.path}:{st.lineno}")


@R.rule("C54-R3", floor=20, template="T-EXHAUST/T-FRESH",
        desc="every dict mutator raises on immutabledict / ImmutableDictBase; ReadOnlyContainer rejects "
             "item/attribute stores; union/merge_with/_union_other never mutate receiver or arguments")
def r3(ctx):
    members, _ = python_mutators("dict")
    members = members + ["__setattr__"]
    nr = ctx.noreturn_names()
    for cname in ("immutabledict", "ImmutableDictBase"):
        cls = ctx.index.cls(f"{IMM}::{cname}")
        for m in members:
            key = f"{IMM}::{cname}.{m}"
            f = ctx.index.resolve_method(cls, m)
            if f is None:
                ctx.violation(key, f"dict mutator {m} is not overridden: the builtin would mutate an immutable dict", cls.loc)
                continue
            g = ctx.cfg(f)
            # no normal exit: every path ends in a raise (call of a NoReturn function or raise)
            normal = g.exit in g.reachable([g.entry])
            ctx.check(not normal, key, f"{m} can return normally (does not raise on every path)", "always raises", f.loc)
    roc = ctx.index.cls(f"{IMM}::ReadOnlyContainer")
    for m in ("__setitem__", "__delitem__", "__setattr__"):
        f = roc.methods.get(m)
        key = f"{IMM}::ReadOnlyContainer.{m}"
        if f is None:
            ctx.violation(key, f"{m} not defined", roc.loc)
            continue
        g = ctx.cfg(f)
        ctx.check(g.exit not in g.reachable([g.entry]), key, f"{m} can return normally", "always raises", f.loc)
    # freshness of merge helpers: in-place updates only on a locally constructed dict
    cls = ctx.index.cls(f"{IMM}::immutabledict")
    for m in ("union", "merge_with", "_union_other", "__or__", "__ror__"):
        f = cls.methods.get(m)
        key = f"{IMM}::immutabledict.{m}"
        if f is None:
            ctx.violation(key, f"{m} not defined", cls.loc)
            continue
        ctx.functions_analysed.add(f.key)
        fresh = set()
        for n, v, st in name_stores(f.node):
            if isinstance(v, ast.Call) and (call_name(v) or "").rsplit(".", 1)[-1] in ("immutabledict", "dict"):
                fresh.add(n)
        bad = []
        for c in calls_in(f.node):
            nm = call_name(c) or ""
            if nm in ("PyDict_Update", "dict.update", "dict.__setitem__", "dict.__ior__") and c.args:
                tgt = c.args[0]
                if not (isinstance(tgt, ast.Name) and tgt.id in fresh):
                    bad.append(unparse(c))
        ctx.check(not bad, key, f"{m} updates a dict that is not a fresh local: {bad}", "mutates only fresh result", f.loc)


@R.rule("C54-R4", floor=11, template="T-PATH",
        desc="LRUCache._manage_size: non-blocking acquire, release on every exit after acquisition, "
             "trim loop bound, LRU victims; __getitem__/__setitem__ counter/value indices")
def r4(ctx):
    # normal form: an extracted `self._discard_least_recent()` is read where it is called (inside the loop, inside the
    # try/finally that holds the mutex); `acquired = self._mutex.acquire(False)` / `if not acquired:` is read as the test
    lru = ctx.index.cls(f"{COLL}::LRUCache")
    f = nform(ctx, ctx.func(f"{COLL}::LRUCache._manage_size"), keep={"_inc_counter"}, temps=True)
    g = ctx.cfg(f)
    key = f.key
    acq = g.find_calls("_mutex.acquire")
    rel = g.find_calls("_mutex.release")
    ctx.require(acq, "no _mutex.acquire() in LRUCache._manage_size")
    # (a) the acquire is a test; its failing branch returns without touching _data
    a = g.node(acq[0])
    is_test = a.kind == "test"
    nonblocking = False
    for c in calls_in(a.stmt.test if is_test else a.stmt):
        if (call_name(c) or "").endswith("_mutex.acquire"):
            args = [unparse(x) for x in c.args] + [f"{k.arg}={unparse(k.value)}" for k in c.keywords]
            nonblocking = args in (["False"], ["blocking=False"], ["0"])
    ctx.check(is_test and nonblocking, key + ":acquire", "mutex is not acquired non-blockingly inside a test", "non-blocking acquire tested", f.loc)
    if is_test:
        neg = isinstance(a.stmt.test, ast.UnaryOp) and isinstance(a.stmt.test.op, ast.Not)
        got_label = "false" if neg else "true"
        got = [b for b, lab in g.succ[a.id] if lab == got_label]
        notgot = [b for b, lab in g.succ[a.id] if lab == ("true" if neg else "false")]
        # (b) after acquisition every path to any exit passes through release()
        w = g.must_pass(got, [g.exit, g.raise_exit], rel)
        ctx.check(w is None, key + ":release", "a path leaves _manage_size with the mutex held", "release() on every exit once acquired", f.loc, w)
        # (c) without acquisition nothing is deleted and release is not called
        dels = [n.id for n in g.nodes if isinstance(n.stmt, ast.Delete)]
        r = g.reachable(notgot)
        ctx.check(not (set(dels) | set(rel)) & r, key + ":not-acquired",
                  "the not-acquired branch reaches a delete or a release", "not-acquired branch returns untouched", f.loc)
    # (d) loop bound and victim selection
    loops = [n for n in walk_local(f.node) if isinstance(n, ast.While)]
    ctx.require(loops, "no trimming while-loop in _manage_size")
    t = expand_properties(ctx, lru, loops[0].test)        # `self.size_threshold` is what the property returns
    good = (
        isinstance(t, ast.Compare) and len(t.ops) == 1 and isinstance(t.ops[0], ast.Gt)
        and unparse(t.left).replace(" ", "") in ("len(self)", "len(self._data)")
        and "capacity" in unparse(t.comparators[0])
    )
    ctx.check(good, key + ":bound", f"trim loop condition `{unparse(t)}` is not `len(self) > <capacity bound>`", unparse(t), f.loc)
    srt = [c for c in calls_in(f.node) if call_name(c) == "sorted"]
    ctx.require(srt, "no sorted() victim ordering in _manage_size")
    kw = {k.arg: unparse(k.value) for k in srt[0].keywords}
    rev = kw.get("reverse", "False") == "True"
    keyidx = kw.get("key", "")
    # the slice that is deleted
    fors = [(n, resolve_local(f.node, n.iter)) for n in walk_local(f.node) if isinstance(n, ast.For)]
    fors = [(n, it) for n, it in fors if isinstance(it, ast.Subscript)]
    ctx.require(fors, "no slice iteration over sorted victims")
    victims = fors[0][1]
    fors = [n for n, _ in fors]
    sl = victims.slice
    tail = isinstance(sl, ast.Slice) and sl.lower is not None and sl.upper is None
    head = isinstance(sl, ast.Slice) and sl.lower is None and sl.upper is not None
    # most-recent-first (reverse=True) => delete the tail; ascending => delete the head
    consistent = (rev and tail) or ((not rev) and head)
    ctx.check(consistent and "itemgetter(2)" in keyidx, key + ":victims",
              f"victim slice `{unparse(victims)}` with reverse={rev}, key={keyidx} does not select least-recently-used entries",
              f"sorted by usage counter reverse={rev}, deletes {'tail' if tail else 'head'}", f.loc)
    dl = [n for n in walk_local(fors[0]) if isinstance(n, ast.Delete)]
    okdel = dl and unparse(dl[0].targets[0]).replace(" ", "") == f"self._data[{fors[0].target.id}[0]]"
    ctx.check(bool(okdel), key + ":delete-key", "victim is not deleted by its own key (item[0])", "del self._data[item[0]]", f.loc)
    # (e) accessors: structural, on the CFG of each accessor (no local names are assumed)
    for m in ("__getitem__", "get"):
        fm = nform(ctx, ctx.func(f"{COLL}::LRUCache.{m}"), keep=_LRU_KEEP, alias=None)
        ctx.functions_analysed.add(fm.key)
        a = _LruAccessor(ctx, fm)
        value_returns = [n for n in a.returns if a.is_field(a.g.node(n).stmt.value, 1)]
        other = [n for n in a.returns if n not in value_returns and not a.returns_default(a.g.node(n).stmt)]
        if not value_returns or other:
            bad = [unparse(a.g.node(n).stmt) for n in other] or ["<no return of the stored value>"]
            ctx.violation(fm.key, f"{m} does not return the value stored under the requested key "
                                  f"(field 1 of self._data[{a.key}]): {bad}", fm.loc)
            continue
        w = None
        for n in value_returns:
            w = w or a.g.always_preceded(n, a.bumps, edge_ok=no_exc)
        ctx.check(w is None, fm.key,
                  f"{m} can return the value of `{a.key}` without giving that entry a new usage counter "
                  f"(the read does not count as a use for eviction)",
                  "every return of the stored value is preceded by a counter bump of the same entry", fm.loc, w)
    fs = nform(ctx, ctx.func(f"{COLL}::LRUCache.__setitem__"), keep=_LRU_KEEP, alias=None)
    ctx.functions_analysed.add(fs.key)
    a = _LruAccessor(ctx, fs)
    ctx.require(len(fs.params) == 3, "LRUCache.__setitem__ signature not understood")
    vparam = fs.params[2]
    ctx.require(a.stores, "no store into self._data[...] in LRUCache.__setitem__")
    # (e1) what is stored: (key, value, counter cell) under the same key
    bad = []
    fresh_nodes = []
    for n in a.stores:
        st = a.g.node(n).stmt
        tgt, v = st.targets[0], st.value
        shape = (
            len(st.targets) == 1 and unparse(tgt.slice) == a.key
            and isinstance(v, ast.Tuple) and len(v.elts) == 3
            and unparse(v.elts[0]) == a.key and unparse(v.elts[1]) == vparam
            and (a.is_fresh_cell(v.elts[2]) or a.is_field(v.elts[2], 2))
        )
        if not shape:
            bad.append(unparse(st))
        elif a.is_fresh_cell(v.elts[2]):
            fresh_nodes.append(n)
    ctx.check(not bad, fs.key + ":entry",
              f"__setitem__ stores something other than ({a.key}, {vparam}, <counter cell of {a.key}>) under "
              f"self._data[{a.key}]: {bad}", "(key, value, counter cell) under the key", fs.loc)
    # (e2) every normal path through __setitem__ gives the written key a new usage counter
    w = a.g.must_pass([a.g.entry], [a.g.exit], a.bumps, edge_ok=no_exc)
    ctx.check(w is None, fs.key + ":bump",
              f"a path through __setitem__ stores `{a.key}` without giving the entry a new usage counter: "
              f"a just-written entry keeps its old recency and is evicted first",
              "every path bumps the counter of the written key", fs.loc, w)
    # (e3) a store that may add a NEW entry (fresh counter cell) is followed by the size check
    ms = a.g.find_calls("_manage_size")
    w = a.g.must_pass(fresh_nodes, [a.g.exit], ms, edge_ok=no_exc) if fresh_nodes else None
    ctx.check(w is None, fs.key + ":trim",
              "a path adds an entry and leaves __setitem__ without _manage_size()",
              "every store of a new entry is followed by _manage_size()", fs.loc, w)


_LRU_KEEP = {"_manage_size", "_inc_counter"}


class _LruAccessor:
    """Shape facts about one LRUCache accessor `def m(self, key, ...)`: which locals hold the entry of
    `key`, which CFG nodes give that entry a new usage counter, which nodes store / return."""

    def __init__(self, ctx, f):
        ctx.require(len(f.params) >= 2 and f.params[0] == "self", f"{f.key}: signature not understood")
        self.f = f
        self.key = f.params[1]
        self.g = g = ctx.cfg(f)
        # locals bound (only) to the entry of `key`
        by_name = {}
        for n, v, st in name_stores(f.node):
            by_name.setdefault(n, []).append(v)
        self.entry_locals = {n for n, vs in by_name.items() if all(v is not None and self._is_lookup(v) for v in vs)}
        self.returns = [n.id for n in g.nodes if n.kind == "stmt" and isinstance(n.stmt, ast.Return) and n.stmt.value is not None]
        self.stores = [
            n.id for n in g.nodes
            if n.kind == "stmt" and isinstance(n.stmt, ast.Assign)
            and any(isinstance(t, ast.Subscript) and dotted(t.value) == "self._data" for t in n.stmt.targets)
        ]
        self.bumps = []
        for n in g.nodes:
            st = n.stmt
            if n.kind != "stmt" or not isinstance(st, ast.Assign) or len(st.targets) != 1:
                continue
            t = st.targets[0]
            # <entry>[2][0] = self._inc_counter()
            if (isinstance(t, ast.Subscript) and self._const(t.slice) == 0 and self.is_field(t.value, 2)
                    and self._is_counter_call(st.value)):
                self.bumps.append(n.id)
            # self._data[key] = (..., ..., [self._inc_counter()])
            elif (isinstance(t, ast.Subscript) and dotted(t.value) == "self._data" and unparse(t.slice) == self.key
                  and isinstance(st.value, ast.Tuple) and len(st.value.elts) == 3 and self.is_fresh_cell(st.value.elts[2])):
                self.bumps.append(n.id)

    @staticmethod
    def _const(e):
        return e.value if isinstance(e, ast.Constant) else None

    @staticmethod
    def _is_counter_call(e) -> bool:
        return isinstance(e, ast.Call) and dotted(e.func) == "self._inc_counter" and not e.args

    def _is_lookup(self, e) -> bool:
        """self._data[key] / self._data.get(key)"""
        if isinstance(e, ast.Subscript) and dotted(e.value) == "self._data":
            return unparse(e.slice) == self.key
        if isinstance(e, ast.Call) and dotted(e.func) == "self._data.get" and e.args:
            return unparse(e.args[0]) == self.key
        return False

    def is_entry(self, e) -> bool:
        return (isinstance(e, ast.Name) and e.id in self.entry_locals) or self._is_lookup(e)

    def is_field(self, e, i) -> bool:
        """<entry of key>[i]"""
        return isinstance(e, ast.Subscript) and self._const(e.slice) == i and self.is_entry(e.value)

    def is_fresh_cell(self, e) -> bool:
        return isinstance(e, ast.List) and len(e.elts) == 1 and self._is_counter_call(e.elts[0])

    def returns_default(self, ret) -> bool:
        """`return <parameter other than key>` (the caller's default) or a constant."""
        v = ret.value
        if isinstance(v, ast.Constant):
            return True
        return isinstance(v, ast.Name) and v.id in self.f.params[2:]


# ---------------------------------------------------------------------- C54-R5: bounded model conformance
class _El:
    """an element of the bounded universe: hashable, compared by identity (what IdentitySet is about)"""
    __slots__ = ("n",)

    def __init__(self, n):
        self.n = n

    def __repr__(self):
        return self.n


_A, _B, _C, _D, _E = (_El(n) for n in "abcde")
_UNIVERSE = (_A, _B, _C, _D, _E)
_RECEIVERS = ([], [_A], [_B, _A], [_A, _B, _C])
_OPERANDS = ([], [_A], [_D], [_A, _A], [_D, _D], [_A, _D, _A, _D], [_B, _A], [_C, _B, _A], [_D, _C, _D, _E], [_E, _D])
_ORDERED_KINDS = ("list", "tuple", "iterator", "generator", "same class")
_ALL_KINDS = _ORDERED_KINDS + ("set", "frozenset")


def _uniq(seq):
    out = []
    for x in seq:
        if not any(x is y for y in out):
            out.append(x)
    return out


def _mk_operand(kind, seq, cls):
    if kind == "list":
        return list(seq)
    if kind == "tuple":
        return tuple(seq)
    if kind == "iterator":
        return iter(list(seq))
    if kind == "generator":
        return (x for x in list(seq))
    if kind == "set":
        return set(seq)
    if kind == "frozenset":
        return frozenset(seq)
    return cls(list(seq))


def _set_model(op, recv, others):
    """reference result of a set-algebra operation as an insertion-ordered list: (retained part in receiver order,
    appended part in first-occurrence order of the arguments) -- contents are those of the builtin set operation"""
    if op in ("union", "update"):
        app = []
        for o in others:
            app += [x for x in _uniq(o) if x not in recv and x not in app]
        return list(recv), app
    if op in ("intersection", "intersection_update"):
        return [x for x in recv if all(x in o for o in others)], []
    if op in ("difference", "difference_update"):
        return [x for x in recv if not any(x in o for o in others)], []
    if op in ("symmetric_difference", "symmetric_difference_update"):
        (o,) = others
        return [x for x in recv if x not in o], [x for x in _uniq(o) if x not in recv]
    raise AssertionError(op)


_PURE_OPS = ("union", "intersection", "difference", "symmetric_difference")
_INPLACE_OPS = ("update", "intersection_update", "difference_update", "symmetric_difference_update")
_BIN_OPERATORS = {"__or__": "union", "__and__": "intersection", "__sub__": "difference", "__xor__": "symmetric_difference"}
_INPLACE_OPERATORS = {"__ior__": "update", "__iand__": "intersection_update", "__isub__": "difference_update",
                      "__ixor__": "symmetric_difference_update"}


class _SetBench:
    """runs one set-like library class (interpreted) against the reference model"""

    def __init__(self, ctx, interp, relpath, cname, ordered: bool, variadic: bool, strict_operators: bool):
        self.ctx, self.m, self.relpath, self.cname = ctx, interp, relpath, cname
        self.cls = interp.cls(cname)
        self.ordered = ordered              # iteration order is part of the model (OrderedSet)
        self.variadic = variadic            # union / intersection / difference / *_update take *iterables
        self.strict = strict_operators      # operators answer NotImplemented for operands of another type
        self.unsupported = []

    # ---- observation through the public protocol
    def new(self, seq):
        st, v = self.m.invoke(self.cls, list(seq))
        if st != "ok":
            raise _Broken(f"{self.cname}({list(seq)!r}) raises {type(v).__name__}: {v}")
        return v

    def observe(self, inst, what):
        st, it = self.m.invoke(list, inst)
        if st != "ok":
            return None, f"iterating {what} raises {type(it).__name__}: {it}"
        st, n = self.m.invoke(len, inst)
        if st != "ok":
            return None, f"len({what}) raises {type(n).__name__}: {n}"
        if len(_uniq(it)) != len(it):
            return None, f"{what} iterates {it!r}: an element is repeated"
        if n != len(it):
            return None, f"{what} iterates {it!r} but len() is {n}"
        for x in _UNIVERSE:
            st, r = self.m.invoke(lambda: x in inst)
            if st != "ok" or bool(r) != (x in it):
                return None, f"`{x!r} in {what}` is {r!r} while iteration gives {it!r}"
        if isinstance(inst, set) and set(set.__iter__(inst)) != set(it):
            return None, f"{what} iterates {it!r} but its set part holds {sorted(set.__iter__(inst), key=repr)!r}"
        return it, None

    def same(self, got, retained, appended, unordered_tail=False) -> bool:
        want = retained + appended
        if not self.ordered:
            return len(got) == len(want) and all(x in want for x in got)
        if unordered_tail:
            k = len(retained)
            return got[:k] == retained and len(got) == len(want) and all(x in appended for x in got[k:])
        return got == want

    # ---- one method = one rule instance
    def record(self, mname, cases, aspect=""):
        key = f"{self.relpath}::{self.cname}.{mname}:model" + (f"[{aspect}]" if aspect else "")
        from ._helpers_str2_w import Unsupported
        n = 0
        fails = []
        try:
            for case in cases:
                n += 1
                msg = case()
                if msg:
                    fails.append(msg)
        except Unsupported as e:
            self.unsupported.append(f"{self.cname}.{mname}: {e}")
            return
        except _Broken as e:
            fails.append(str(e))
        f = self.ctx.index.resolve_method(self.ctx.index.cls(f"{self.relpath}::{self.cname}"), mname)
        loc = f.loc if f is not None else None
        if f is not None:
            self.ctx.functions_analysed.add(f.key)
        self.ctx.check(not fails, key,
                       f"{self.cname}.{mname} does not behave like the reference {'insertion-ordered ' if self.ordered else ''}set "
                       f"on {len(fails)} of {n} bounded inputs; first: {fails[0] if fails else ''}",
                       f"{n} bounded inputs agree with the reference model", loc)

    # ---- case builders
    def algebra(self, op, pure: bool, via=None, operands=_OPERANDS, kinds=_ALL_KINDS):
        """cases of `recv.<via or op>(operand)` for every receiver / operand / operand kind, plus the receiver itself"""
        meth = via or op

        def one(recv_seq, kind, seq):
            def run():
                recv = self.new(recv_seq)
                arg = recv if kind == "itself" else _mk_operand(kind, seq, self.cls)
                arg_is_inst = kind in ("same class", "itself")
                shown = f"{self.cname}({recv_seq!r}).{meth}({'<itself>' if kind == 'itself' else kind + ' ' + repr(list(seq))})"
                st, res = self.m.invoke(getattr(recv, meth), arg)
                if st != "ok":
                    return f"{shown} raises {type(res).__name__}: {res}"
                retained, appended = _set_model(op, list(recv_seq), [list(seq)])
                unordered = kind in ("set", "frozenset")
                after, err = self.observe(recv, "the receiver after " + shown)
                if err:
                    return err
                if pure:
                    if type(res) is not self.cls:
                        return f"{shown} returns {res!r}, not a {self.cname}"
                    if res is recv:
                        return f"{shown} returns the receiver itself instead of a new {self.cname}"
                    got, err = self.observe(res, "the result of " + shown)
                    if err:
                        return err
                    if not self.same(got, retained, appended, unordered):
                        return f"{shown} -> {got!r}, the model gives {retained + appended!r}"
                    if after != list(recv_seq):
                        return f"{shown} changed the receiver to {after!r}"
                else:
                    want_ret = recv if via in _INPLACE_OPERATORS else None
                    if res is not want_ret:
                        return f"{shown} returns {res!r} instead of {'the receiver' if want_ret is recv else 'None'}"
                    if not self.same(after, retained, appended, unordered):
                        return f"{shown} leaves {after!r}, the model gives {retained + appended!r}"
                if arg_is_inst and kind != "itself":
                    a2, err = self.observe(arg, "the argument after " + shown)
                    if err:
                        return err
                    if a2 != _uniq(seq):
                        return f"{shown} changed its argument to {a2!r}"
                return None
            return run
        out = []
        for r in _RECEIVERS:
            for seq in operands:
                for k in kinds:
                    out.append(one(r, k, seq))
            out.append(one(r, "itself", r))
        return out

    def rejects_foreign_operand(self, meth):
        def run():
            recv = self.new([_A, _B])
            st, res = self.m.invoke(getattr(recv, meth), [_A])
            if st != "ok" or res is not NotImplemented:
                return f"{self.cname}([a, b]).{meth}(list [a]) gives {res!r}; a set operator answers NotImplemented for an operand that is no {self.cname}"
            after, err = self.observe(recv, "the receiver")
            return err or (None if after == [_A, _B] else f"{meth}(list) changed the receiver to {after!r}")
        return [run]


class _Broken(Exception):
    pass


def _variadic_cases(b: "_SetBench", op, pure):
    """*iterables forms: no argument, two arguments"""
    def one(recv_seq, seqs):
        def run():
            recv = b.new(recv_seq)
            args = [_mk_operand(k, s_, b.cls) for k, s_ in zip(("list", "iterator", "same class"), seqs)]
            shown = f"{b.cname}({recv_seq!r}).{op}({', '.join(repr(list(s_)) for s_ in seqs)})"
            st, res = b.m.invoke(getattr(recv, op), *args)
            if st != "ok":
                return f"{shown} raises {type(res).__name__}: {res}"
            retained, appended = _set_model(op, list(recv_seq), [list(s_) for s_ in seqs])
            target = res if pure else recv
            if pure and (type(res) is not b.cls or res is recv):
                return f"{shown} returns {res!r}, not a new {b.cname}"
            got, err = b.observe(target, ("the result of " if pure else "the receiver after ") + shown)
            if err:
                return err
            if not b.same(got, retained, appended):
                return f"{shown} -> {got!r}, the model gives {retained + appended!r}"
            return None
        return run
    out = []
    for r in _RECEIVERS:
        for seqs in ((), ([_A, _D], [_D, _B, _E]), ([_C, _A], [_A, _A, _B]), ([_D, _D], [])):
            out.append(one(r, seqs))
    return out


def _element_cases(b: "_SetBench"):
    """add / remove / discard / pop / clear / copy and, for the ordered set, insert / __getitem__"""
    def mut(mname, model, args_of):
        def one(recv_seq, args):
            def run():
                recv = b.new(recv_seq)
                shown = f"{b.cname}({recv_seq!r}).{mname}({', '.join(map(repr, args))})"
                want_exc, want_ret, want = model(list(recv_seq), *args)
                st, res = b.m.invoke(getattr(recv, mname), *args)
                if want_exc is not None:
                    if st != "raise" or not isinstance(res, want_exc):
                        return f"{shown} {'returns ' + repr(res) if st == 'ok' else 'raises ' + type(res).__name__}; the model raises {want_exc.__name__}"
                elif st != "ok":
                    return f"{shown} raises {type(res).__name__}: {res}"
                elif want_ret is _ANY_MEMBER:
                    if res not in recv_seq:
                        return f"{shown} returns {res!r}, which was not a member"
                    want = [x for x in recv_seq if x is not res]
                elif res is not want_ret and res != want_ret:
                    return f"{shown} returns {res!r}, the model returns {want_ret!r}"
                after, err = b.observe(recv, "the receiver after " + shown)
                if err:
                    return err
                if not b.same(after, want, []):
                    return f"{shown} leaves {after!r}, the model gives {want!r}"
                return None
            return run
        return [one(r, a) for r in _RECEIVERS for a in args_of(r)]

    elems = lambda r: [(x,) for x in (_A, _C, _D)]
    b.record("add", mut("add", lambda M, x: (None, None, M + [x] if x not in M else M), elems))
    b.record("remove", mut("remove", lambda M, x: (None, None, [y for y in M if y is not x]) if x in M else (KeyError, None, M), elems))
    b.record("discard", mut("discard", lambda M, x: (None, None, [y for y in M if y is not x]), elems))
    b.record("pop", mut("pop", lambda M: (None, _ANY_MEMBER, None) if M else (KeyError, None, M), lambda r: [()]))
    b.record("clear", mut("clear", lambda M: (None, None, []), lambda r: [()]))
    if b.ordered:
        def ins(M, pos, x):
            if x in M:
                return None, None, M
            M2 = list(M)
            M2.insert(pos, x)
            return None, None, M2
        b.record("insert", mut("insert", ins, lambda r: [(p_, x) for p_ in (-5, -1, 0, 1, 5) for x in (_A, _D)]))

        def getitem(recv_seq, i):
            def run():
                recv = b.new(recv_seq)
                st, res = b.m.invoke(lambda: recv[i])
                try:
                    want = list(recv_seq)[i]
                except IndexError:
                    return None if st == "raise" and isinstance(res, IndexError) else f"{b.cname}({recv_seq!r})[{i}] does not raise IndexError"
                return None if st == "ok" and res is want else f"{b.cname}({recv_seq!r})[{i}] gives {res!r}, iteration order says {want!r}"
            return run
        b.record("__getitem__", [getitem(r, i) for r in _RECEIVERS for i in (-4, -1, 0, 2, 3)])

    def copies(mname):
        def one(recv_seq):
            def run():
                recv = b.new(recv_seq)
                st, res = b.m.invoke(getattr(recv, mname))
                shown = f"{b.cname}({recv_seq!r}).{mname}()"
                if st != "ok" or type(res) is not b.cls or res is recv:
                    return f"{shown} gives {res!r}, not a new {b.cname}"
                got, err = b.observe(res, "the result of " + shown)
                if err or not b.same(got, list(recv_seq), []):
                    return err or f"{shown} -> {got!r}"
                st, _ = b.m.invoke(res.add, _E)
                after, err = b.observe(recv, "the receiver after adding to its copy")
                if err or after != list(recv_seq):
                    return err or f"adding to the result of {shown} changed the receiver to {after!r}"
                return None
            return run
        return [one(r) for r in _RECEIVERS]
    b.record("copy", copies("copy"))

    def ctor(kind, seq):
        def run():
            st, res = b.m.invoke(b.cls, _mk_operand(kind, seq, b.cls))
            shown = f"{b.cname}({kind} {list(seq)!r})"
            if st != "ok":
                return f"{shown} raises {type(res).__name__}: {res}"
            got, err = b.observe(res, shown)
            if err:
                return err
            return None if b.same(got, [], _uniq(seq), kind in ("set", "frozenset")) else f"{shown} holds {got!r}, the model gives {_uniq(seq)!r}"
        return run
    b.record("__init__", [ctor(k, s_) for s_ in _OPERANDS for k in _ALL_KINDS])


_ANY_MEMBER = object()


def _comparison_cases(b: "_SetBench"):
    import operator as op_
    table = {"__eq__": op_.eq, "__ne__": op_.ne, "__le__": op_.le, "__lt__": op_.lt, "__ge__": op_.ge, "__gt__": op_.gt,
             "issubset": lambda x, y: x <= y, "issuperset": lambda x, y: x >= y}
    for mname, ref in table.items():
        def one(recv_seq, seq, kind, mname=mname, ref=ref):
            def run():
                recv = b.new(recv_seq)
                arg = _mk_operand(kind, seq, b.cls)
                st, res = b.m.invoke(getattr(recv, mname), arg)
                shown = f"{b.cname}({recv_seq!r}).{mname}({kind} {list(seq)!r})"
                if st != "ok":
                    return f"{shown} raises {type(res).__name__}: {res}"
                if kind != "same class" and mname.startswith("__"):
                    want = {"__eq__": False, "__ne__": True}.get(mname, NotImplemented)
                else:
                    want = ref(set(recv_seq), set(seq))
                return None if (res is want or (res == want and want is not NotImplemented and res is not NotImplemented)) \
                    else f"{shown} is {res!r}, the model gives {want!r}"
            return run
        kinds = ("same class", "list") if mname.startswith("__") else _ALL_KINDS
        b.record(mname, [one(r, s_, k) for r in _RECEIVERS for s_ in _OPERANDS for k in kinds])


def _model_set_class(ctx, interp, relpath, cname, ordered, variadic, strict, comparisons):
    b = _SetBench(ctx, interp, relpath, cname, ordered, variadic, strict)
    for op in _PURE_OPS:
        b.record(op, b.algebra(op, True) + (_variadic_cases(b, op, True) if variadic and op != "symmetric_difference" else []))
    for op in _INPLACE_OPS:
        b.record(op, b.algebra(op, False) + (_variadic_cases(b, op, False) if variadic and op != "symmetric_difference_update" else []))
    set_kinds = ("same class",) if strict else ("same class", "set", "frozenset")
    for meth, op in _BIN_OPERATORS.items():
        b.record(meth, b.algebra(op, True, via=meth, kinds=set_kinds) + (b.rejects_foreign_operand(meth) if strict else []))
    for meth, op in _INPLACE_OPERATORS.items():
        b.record(meth, b.algebra(op, False, via=meth, kinds=set_kinds) + (b.rejects_foreign_operand(meth) if strict else []))
    if comparisons:
        _comparison_cases(b)
    _element_cases(b)
    return b.unsupported


# ---- immutabledict
_DICT_RECEIVERS = ({}, {"a": 1}, {"a": 1, "b": 2})
_DICT_OPERANDS = ({}, {"a": "x"}, {"c": 3}, {"b": "y", "c": 3}, {"c": 3, "a": "x"})


def _model_immutabledict(ctx, interp):
    import types as _t
    from ._helpers_str2_w import Unsupported
    cname = "immutabledict"
    cls = interp.cls(cname)
    unsupported = []
    kinds = {"dict": dict, cname: cls, "read-only mapping": lambda d: _t.MappingProxyType(dict(d))}

    def items(d):
        return list(dict.items(d)) if isinstance(d, dict) else list(d.items())

    def record(mname, cases):
        key = f"{IMM}::{cname}.{mname}:model"
        fails, n = [], 0
        try:
            for c in cases:
                n += 1
                msg = c()
                if msg:
                    fails.append(msg)
        except Unsupported as e:
            unsupported.append(f"{cname}.{mname}: {e}")
            return
        f = ctx.index.resolve_method(ctx.index.cls(f"{IMM}::{cname}"), mname)
        if f is not None:
            ctx.functions_analysed.add(f.key)
        ctx.check(not fails, key,
                  f"{cname}.{mname} does not behave like the reference dict on {len(fails)} of {n} bounded inputs; first: {fails[0] if fails else ''}",
                  f"{n} bounded inputs agree with the builtin dict", f.loc if f is not None else None)

    def merge_case(mname, recv_d, operands, expected, shown_args):
        def run():
            recv = cls(dict(recv_d))
            args = [None if o is None else kinds[k](dict(o)) for k, o in operands]
            before = [None if a is None else items(a) for a in args]
            shown = f"{cname}({recv_d!r}).{mname}({shown_args})"
            st, res = interp.invoke(getattr(recv, mname), *args)
            if st != "ok":
                return f"{shown} raises {type(res).__name__}: {res}"
            if type(res) is not cls:
                return f"{shown} returns {res!r}, not an {cname}"
            want = expected()
            if dict(res) != want:
                return f"{shown} -> {dict(res)!r}, the dict model gives {want!r}"
            if items(res) != list(want.items()):
                return f"{shown} has key order {list(res)!r}, the dict model gives {list(want)!r}"
            if items(recv) != list(recv_d.items()):
                return f"{shown} changed the receiver to {dict(recv)!r}"
            for a, b4 in zip(args, before):
                if a is not None and items(a) != b4:
                    return f"{shown} changed its argument to {dict(a)!r}"
            return None
        return run

    for mname in ("union", "merge_with"):
        cases = []
        for r in _DICT_RECEIVERS:
            cases.append(merge_case(mname, r, [], lambda r=r: dict(r), ""))
            cases.append(merge_case(mname, r, [("dict", None)], lambda r=r: dict(r), "None"))
            for o in _DICT_OPERANDS:
                for k in kinds:
                    cases.append(merge_case(mname, r, [(k, o)], lambda r=r, o=o: {**r, **o}, f"{k} {o!r}"))
            for o1, o2 in (({"a": "x"}, {"a": "z", "c": 3}), ({}, {"c": 3}), ({"c": 3}, {}), ({"b": "y", "c": 3}, {"c": 4, "a": "x"})):
                for k1, k2 in (("dict", cname), (cname, "dict"), (cname, cname)):
                    cases.append(merge_case(mname, r, [(k1, o1), (k2, o2)], lambda r=r, o1=o1, o2=o2: {**r, **o1, **o2},
                                            f"{k1} {o1!r}, {k2} {o2!r}"))
        record(mname, cases)
    for mname, expected in (("__or__", lambda r, o: dict(r) | dict(o)), ("__ror__", lambda r, o: dict(o) | dict(r))):
        cases = []
        for r in _DICT_RECEIVERS:
            for o in _DICT_OPERANDS:
                for k in ("dict", cname):
                    what = f"{k} {o!r}"
                    cases.append(merge_case(mname, r, [(k, o)], lambda r=r, o=o, expected=expected: expected(r, o),
                                            what + (" as the LEFT operand" if mname == "__ror__" else "")))
        record(mname, cases)

    def ctor_case(k, o):
        def run():
            src = kinds[k](dict(o))
            st, res = interp.invoke(cls, src)
            if st != "ok" or type(res) is not cls or items(res) != list(o.items()):
                return f"{cname}({k} {o!r}) gives {res!r}"
            st, cp = interp.invoke(res.copy)
            if st != "ok" or type(cp) is not cls or items(cp) != list(o.items()):
                return f"{cname}({o!r}).copy() gives {cp!r}"
            return None
        return run
    record("copy", [ctor_case(k, o) for o in _DICT_OPERANDS for k in kinds])
    # every dict mutator is rejected and leaves the contents alone
    members, _ = python_mutators("dict")
    sample = {"__setitem__": ("a", 9), "__delitem__": ("a",), "clear": (), "pop": ("a",), "popitem": (), "setdefault": ("z", 1),
              "update": ({"z": 1},), "__ior__": ({"z": 1},)}
    for mname in members:
        ctx.require(mname in sample, f"no sample arguments for dict mutator {mname}")

        def case(mname=mname):
            recv = cls({"a": 1, "b": 2})
            st, res = interp.invoke(getattr(recv, mname), *sample[mname])
            if st != "raise" or not isinstance(res, TypeError):
                return f"{cname}({{'a': 1, 'b': 2}}).{mname}{sample[mname]!r} {'returns ' + repr(res) if st == 'ok' else 'raises ' + type(res).__name__} instead of raising TypeError"
            return None if items(recv) == [("a", 1), ("b", 2)] else f"{mname} changed the contents to {dict(recv)!r}"
        record(mname, [case])
    return unsupported


@R.rule("C54-R5", floor=69, template="T-MODEL",
        desc="bounded model check of the statement itself: every public operation of IdentitySet, OrderedSet and immutabledict is "
             "interpreted from its source (AST interpreter; builtin bases ARE the builtin types, pure-python mode) on a small "
             "universe -- receivers of 0..3 members, operands given as list / tuple / one-shot iterator / generator / set / "
             "frozenset / the same class / the receiver itself, WITH repeated elements, several operands for the variadic forms, "
             "plain dict / immutabledict / read-only mapping / None operands for the dict merges -- and must give the contents, "
             "(for OrderedSet / immutabledict) the iteration order, the return value, the exception class and the "
             "receiver/argument immutability of the builtin set / dict reference model")
def r5(ctx):
    from ._helpers_str2_w import ClassModel, Unsupported
    unsupported = []
    try:
        cy = ClassModel(ctx, CY)
        unsupported += _model_set_class(ctx, cy, CY, "IdentitySet", ordered=False, variadic=False, strict=True, comparisons=True)
        unsupported += _model_set_class(ctx, cy, CY, "OrderedSet", ordered=True, variadic=True, strict=False, comparisons=False)
        imm = ClassModel(ctx, IMM)
        unsupported += _model_immutabledict(ctx, imm)
    except Unsupported as e:
        unsupported.append(str(e))
    # a construct outside the interpreted subset is never a verdict
    ctx.require(not unsupported, "source construct outside the interpreted subset: " + "; ".join(unsupported[:3]))


# ---------------------------------------------------------------------- self-test battery
R.mutant("orderedset-ior-returns-copy", CY,
         sub("        self.update(iterable)\n        return self\n", "        return self.union(iterable)\n"), "C54-R1")
R.mutant("orderedset-isub-calls-pure", CY,
         sub("        self.difference_update(other)\n        return self\n", "        self.difference(other)\n        return self\n", count=2), "C54-R1")
R.mutant("identityset-or-returns-self", CY,
         sub("        return self.union(other)\n\n    @cython.ccall\n    def update", "        self.update(other)\n        return self\n\n    @cython.ccall\n    def update"), "C54-R1")
R.mutant("orderedset-discard-not-overridden", CY,
         sub("    def discard(self, element: _T, /) -> None:\n        if element in self:\n            set.remove(self, element)\n            self._list.remove(element)\n", ""), "C54-R2")
R.mutant("orderedset-add-unguarded", CY,
         sub("    def add(self, element: _T, /) -> None:\n        if element not in self:\n            self._list.append(element)\n            set.add(self, element)\n",
             "    def add(self, element: _T, /) -> None:\n        self._list.append(element)\n        set.add(self, element)\n"), "C54-R2")
R.mutant("orderedset-init-list-not-unique", CY,
         sub("self._list = unique_list(d)", "self._list = list(d)"), "C54-R2")
R.mutant("immutabledict-setdefault-passes", IMM,
         sub("    def setdefault(self, key: Any, default: Optional[Any] = None) -> NoReturn:\n        _immutable_fn(self)\n",
             "    def setdefault(self, key: Any, default: Optional[Any] = None) -> Any:\n        return dict.setdefault(self, key, default)\n", count=2), "C54-R3")
R.mutant("immutabledict-ior-removed", IMM,
         sub("    def __ior__(self, __value: Any, /) -> NoReturn:\n        _immutable_fn(self)\n", "", count=2), "C54-R3")
R.mutant("immutabledict-union-mutates-self", IMM,
         sub("        result: immutabledict = immutabledict()\n        if not self_is_empty:\n            PyDict_Update(result, self)\n",
             "        result: immutabledict = self\n"), "C54-R3")
R.mutant("lru-release-not-in-finally", COLL,
         sub("                        continue\n        finally:\n            self._mutex.release()\n", "                        continue\n        finally:\n            pass\n        self._mutex.release()\n"), "C54-R4")
R.mutant("lru-wrong-victims", COLL,
         sub("for item in by_counter[self.capacity :]:", "for item in by_counter[: self.capacity]:"), "C54-R4")
R.mutant("lru-getitem-returns-key", COLL,
         sub("        item = self._data[key]\n        item[2][0] = self._inc_counter()\n        return item[1]\n",
             "        item = self._data[key]\n        item[2][0] = self._inc_counter()\n        return item[0]\n"), "C54-R4")
# benign refactors: must stay silent
R.mutant("benign-rename-local", CY, sub("other_set: Set[Any] = set.difference(self, *other)\n        return self._from_list([a for a in self._list if a in other_set])",
                                        "keep: Set[Any] = set.difference(self, *other)\n        return self._from_list([a for a in self._list if a in keep])"), None)
R.mutant("benign-lru-logging", COLL, sub("            size_alert = bool(self.size_alert)\n", "            size_alert = bool(self.size_alert)\n            _n = len(self)\n"), None)

# ---- seeds C54_1 / C54_2 and neighbours (str-u)
_SYMDIFF_OLD = (
    "        result: OrderedSet[Union[_T, _S]] = self._from_list(\n"
    "            [a for a in self._list if a not in other_set]\n"
    "        )\n"
    "        result.update([a for a in collection if a not in self])\n"
    "        return result\n"
)
# seed 1: the new set is built in one step from a concatenation whose right half is an arbitrary iterable
R.mutant("orderedset-symdiff-one-step-concat", CY, sub(
    _SYMDIFF_OLD,
    "        return self._from_list(\n"
    "            [a for a in self._list if a not in other_set]\n"
    "            + [a for a in collection if a not in self]\n"
    "        )\n"), "C54-R2")
# same class, other spelling: the result's order list is extended directly, bypassing update()
R.mutant("orderedset-symdiff-extends-result-list", CY, sub(
    "        result.update([a for a in collection if a not in self])\n",
    "        result._list.extend([a for a in collection if a not in self])\n"
    "        set.update(result, result._list)\n"), "C54-R2")
R.mutant("orderedset-intersection-from-argument-order", CY, sub(
    "        other_set: Set[Any] = set.intersection(self, *other)\n"
    "        return self._from_list([a for a in self._list if a in other_set])",
    "        other_set: Set[Any] = set.intersection(self, *other)\n"
    "        return self._from_list([a for a in other[0] if a in other_set])"), "C54-R2")
# benign: one-step construction that de-duplicates the foreign half first (halves disjoint by the filter)
R.mutant("benign-symdiff-one-step-unique", CY, sub(
    _SYMDIFF_OLD,
    "        return self._from_list(\n"
    "            [a for a in self._list if a not in other_set]\n"
    "            + [a for a in unique_list(collection) if a not in self]\n"
    "        )\n"), None)
# benign: the list handed to the private constructor goes through a local
R.mutant("benign-symdiff-local-list", CY, sub(
    _SYMDIFF_OLD,
    "        kept: List[Any] = [a for a in self._list if a not in other_set]\n"
    "        result: OrderedSet[Union[_T, _S]] = self._from_list(kept)\n"
    "        result.update([a for a in collection if a not in self])\n"
    "        return result\n"), None)

_SETITEM_OLD = (
    "        self._data[key] = (key, value, [self._inc_counter()])\n"
    "        self._manage_size()\n"
)
# seed 2: the key-exists path replaces the value but keeps the old counter
R.mutant("lru-setitem-existing-key-keeps-counter", COLL, sub(
    _SETITEM_OLD,
    "        item = self._data.get(key)\n"
    "        if item is not None:\n"
    "            self._data[key] = (key, value, item[2])\n"
    "        else:\n"
    "            self._data[key] = (key, value, [self._inc_counter()])\n"
    "            self._manage_size()\n"), "C54-R4")
R.mutant("lru-get-does-not-bump", COLL, sub(
    "        if item is not None:\n            item[2][0] = self._inc_counter()\n            return item[1]\n",
    "        if item is not None:\n            return item[1]\n"), "C54-R4")
R.mutant("lru-setitem-no-trim", COLL, sub(_SETITEM_OLD, "        self._data[key] = (key, value, [self._inc_counter()])\n"), "C54-R4")
R.mutant("lru-setitem-counter-of-other-entry", COLL, sub(
    _SETITEM_OLD,
    "        self._data[key] = (key, value, [self._counter])\n        self._manage_size()\n"), "C54-R4")
# benign: the key-exists path reuses the counter cell AND bumps it; no size check needed there
R.mutant("benign-lru-setitem-reuse-cell-bumped", COLL, sub(
    _SETITEM_OLD,
    "        item = self._data.get(key)\n"
    "        if item is not None:\n"
    "            item[2][0] = self._inc_counter()\n"
    "            self._data[key] = (key, value, item[2])\n"
    "        else:\n"
    "            self._data[key] = (key, value, [self._inc_counter()])\n"
    "            self._manage_size()\n"), None)
R.mutant("benign-lru-getitem-rename-local", COLL, sub(
    "        item = self._data[key]\n        item[2][0] = self._inc_counter()\n        return item[1]\n",
    "        entry = self._data[key]\n        entry[2][0] = self._inc_counter()\n        return entry[1]\n"), None)

# ---- robustify (rob-H1): behaviour-preserving refactorings that must stay silent, and the same shapes broken
_GET_OLD = ("        item = self._data.get(key)\n        if item is not None:\n            item[2][0] = self._inc_counter()\n"
            "            return item[1]\n        else:\n            return default\n")
_MS_OLD = ("        if not self._mutex.acquire(False):\n            return\n        try:\n            size_alert = bool(self.size_alert)\n"
           "            while len(self) > self.capacity + self.capacity * self.threshold:\n                if size_alert:\n"
           "                    size_alert = False\n                    self.size_alert(self)  # type: ignore[misc]\n"
           "                by_counter = sorted(\n                    self._data.values(),\n                    key=operator.itemgetter(2),\n"
           "                    reverse=True,\n                )\n                for item in by_counter[self.capacity :]:\n"
           "                    try:\n                        del self._data[item[0]]\n                    except KeyError:\n"
           "                        # deleted elsewhere; skip\n                        continue\n        finally:\n            self._mutex.release()\n")


def _ms_new(acquire="        if not self._mutex.acquire(False):\n            return\n", victims="most_recent_first[self.capacity :]",
            bound="self.size_threshold"):
    return (acquire + "        try:\n            alert_pending = bool(self.size_alert)\n"
            f"            while len(self) > {bound}:\n                if alert_pending:\n                    alert_pending = False\n"
            "                    self.size_alert(self)  # type: ignore[misc]\n                self._discard_least_recent()\n"
            "        finally:\n            self._mutex.release()\n\n    def _discard_least_recent(self) -> None:\n"
            "        most_recent_first = sorted(\n            self._data.values(),\n            key=operator.itemgetter(2),\n            reverse=True,\n        )\n"
            f"        for item in {victims}:\n            try:\n                del self._data[item[0]]\n            except KeyError:\n                continue\n")


# rfH_7: early return in get(); the existing size_threshold property used; sort-and-trim extracted (still under the mutex)
R.mutant("benign-rob-lru-get-early-return", COLL,
         sub(_GET_OLD, "        item = self._data.get(key)\n        if item is None:\n            return default\n"
                       "        item[2][0] = self._inc_counter()\n        return item[1]\n"), None)
R.mutant("benign-rob-lru-manage-size-property-and-trim-helper", COLL, sub(_MS_OLD, _ms_new()), None)
R.mutant("benign-rob-lru-manage-size-acquire-result-in-local", COLL,
         sub(_MS_OLD, _ms_new(acquire="        acquired = self._mutex.acquire(False)\n        if not acquired:\n            return\n")), None)
R.mutant("benign-rob-lru-manage-size-victims-in-local", COLL,
         sub("                for item in by_counter[self.capacity :]:\n",
             "                victims = by_counter[self.capacity :]\n                for item in victims:\n"), None)
R.mutant("benign-rob-lru-getitem-bump-in-helper", COLL,
         sub("        item = self._data[key]\n        item[2][0] = self._inc_counter()\n        return item[1]\n",
             "        item = self._data[key]\n        self._touch(item)\n        return item[1]\n\n"
             "    def _touch(self, item: Any) -> None:\n        item[2][0] = self._inc_counter()\n"), None)
R.mutant("rob-lru-trim-helper-wrong-victims", COLL, sub(_MS_OLD, _ms_new(victims="most_recent_first[: self.capacity]")), "C54-R4")
R.mutant("rob-lru-manage-size-bound-without-capacity", COLL, sub(_MS_OLD, _ms_new(bound="self.threshold")), "C54-R4")
R.mutant("rob-lru-get-early-return-no-bump", COLL,
         sub(_GET_OLD, "        item = self._data.get(key)\n        if item is None:\n            return default\n        return item[1]\n"), "C54-R4")
R.mutant("rob-lru-getitem-helper-does-not-bump", COLL,
         sub("        item = self._data[key]\n        item[2][0] = self._inc_counter()\n        return item[1]\n",
             "        item = self._data[key]\n        self._touch(item)\n        return item[1]\n\n"
             "    def _touch(self, item: Any) -> None:\n        self._inc_counter()\n"), "C54-R4")
# rfH_8: inverted if/else, merged isinstance, guard -> early return, comprehension -> loop
_INIT_OLD = ("        if d is not None:\n            if isinstance(d, set) or isinstance(d, dict):\n                self._list = list(d)\n"
             "            else:\n                self._list = unique_list(d)\n            set.__init__(self, self._list)\n"
             "        else:\n            self._list = []\n            set.__init__(self)\n")
_INTER_OLD = ("        other_set: Set[Any] = set.intersection(self, *other)\n"
              "        return self._from_list([a for a in self._list if a in other_set])")


def _inter_loop(source):
    return ("        common: Set[Any] = set.intersection(self, *other)\n        ordered: List[_T] = []\n"
            f"        for member in {source}:\n            if member in common:\n                ordered.append(member)\n"
            "        return self._from_list(ordered)")


R.mutant("benign-rob-orderedset-init-inverted-merged-isinstance", CY,
         sub(_INIT_OLD, "        if d is None:\n            self._list = []\n            set.__init__(self)\n        else:\n"
                        "            if isinstance(d, (set, dict)):\n                self._list = list(d)\n            else:\n"
                        "                self._list = unique_list(d)\n            set.__init__(self, self._list)\n"), None)
R.mutant("benign-rob-orderedset-init-de-morgan", CY,
         sub("            if isinstance(d, set) or isinstance(d, dict):\n                self._list = list(d)\n            else:\n                self._list = unique_list(d)\n",
             "            if not isinstance(d, set) and not isinstance(d, dict):\n                self._list = unique_list(d)\n            else:\n                self._list = list(d)\n"), None)
R.mutant("benign-rob-orderedset-discard-early-return", CY,
         sub("        if element in self:\n            set.remove(self, element)\n            self._list.remove(element)\n",
             "        if element not in self:\n            return\n        set.remove(self, element)\n        self._list.remove(element)\n"), None)
R.mutant("benign-rob-orderedset-add-early-return", CY,
         sub("    def add(self, element: _T, /) -> None:\n        if element not in self:\n            self._list.append(element)\n            set.add(self, element)\n",
             "    def add(self, element: _T, /) -> None:\n        if element in self:\n            return\n        self._list.append(element)\n        set.add(self, element)\n"), None)
R.mutant("benign-rob-orderedset-intersection-as-loop", CY, sub(_INTER_OLD, _inter_loop("self._list")), None)
R.mutant("rob-orderedset-intersection-loop-over-argument", CY, sub(_INTER_OLD, _inter_loop("other[0]")), "C54-R2")
R.mutant("rob-orderedset-add-early-return-wrong-polarity", CY,
         sub("    def add(self, element: _T, /) -> None:\n        if element not in self:\n            self._list.append(element)\n            set.add(self, element)\n",
             "    def add(self, element: _T, /) -> None:\n        if element not in self:\n            return\n        self._list.append(element)\n        set.add(self, element)\n"), "C54-R2")
R.mutant("rob-orderedset-init-de-morgan-wrong-branch", CY,
         sub("            if isinstance(d, set) or isinstance(d, dict):\n                self._list = list(d)\n            else:\n                self._list = unique_list(d)\n",
             "            if not isinstance(d, set) and not isinstance(d, dict):\n                self._list = list(d)\n            else:\n                self._list = unique_list(d)\n"), "C54-R2")

# ---- round 2 (str2-w): seeds C54_3 / C54_4 and the family they belong to (C54-R5, bounded model check)
_IS_SDU_OLD = ("    def symmetric_difference_update(self, iterable: Iterable[Any], /):\n"
               "        other: IdentitySet = self.symmetric_difference(iterable)\n"
               "        self._members = other._members\n")
_IS_SDU_HEAD = "    def symmetric_difference_update(self, iterable: Iterable[Any], /):\n"
# seed C54_3: membership toggled once per element of the argument (an object given twice is toggled back)
R.mutant("identityset-symdiff-update-toggles-per-element", CY, sub(
    _IS_SDU_OLD,
    _IS_SDU_HEAD +
    "        members: Dict[int, Any] = self._members\n"
    "        for obj in list(iterable):\n"
    "            key = _get_id(obj)\n"
    "            if key in members:\n"
    "                del members[key]\n"
    "            else:\n"
    "                members[key] = obj\n"), "C54-R5")
# same family: a one-shot iterator argument is consumed by the first probe
R.mutant("identityset-intersection-update-rereads-iterator", CY, sub(
    "        other: IdentitySet = self.intersection(iterable)\n        self._members = other._members\n",
    "        self._members = {\n"
    "            k: v\n"
    "            for k, v in self._members.items()\n"
    "            if k in {_get_id(obj) for obj in iterable}\n"
    "        }\n"), "C54-R5")
# same family: the pure operation shares the receiver's member dict
R.mutant("identityset-union-shares-members", CY, sub(
    "        result: IdentitySet = self.__class__()\n        result._members.update(self._members)\n        result.update(iterable)\n",
    "        result: IdentitySet = self.__new__(self.__class__)\n        result._members = self._members\n        result.update(iterable)\n"),
    "C54-R5")
R.mutant("orderedset-difference-update-keeps-order-list", CY, sub(
    "        set.difference_update(self, *other)\n        self._list = [a for a in self._list if a in self]\n",
    "        set.difference_update(self, *other)\n"), "C54-R5")
R.mutant("orderedset-union-appends-arguments-reversed", CY, sub(
    "        result.update(*other)\n        return result\n", "        result.update(*reversed(other))\n        return result\n"), "C54-R5")
# benign: the in-place toggle done right (argument de-duplicated into a dict first; `s ^= s` works on a copy)
R.mutant("benign-identityset-symdiff-update-in-place-deduplicated", CY, sub(
    _IS_SDU_OLD,
    _IS_SDU_HEAD +
    "        members: Dict[int, Any] = self._members\n"
    "        incoming: Dict[int, Any]\n"
    "        if isinstance(iterable, IdentitySet):\n"
    "            incoming = dict(cython.cast(IdentitySet, iterable)._members)\n"
    "        else:\n"
    "            incoming = {_get_id(obj): obj for obj in iterable}\n"
    "        for key, obj in incoming.items():\n"
    "            if key in members:\n"
    "                del members[key]\n"
    "            else:\n"
    "                members[key] = obj\n"), None)
# benign: adoption of the sibling's result extracted into a helper
R.mutant("benign-identityset-update-siblings-adopt-helper", CY, chain(
    sub(_IS_SDU_OLD, _IS_SDU_HEAD + "        self._adopt(self.symmetric_difference(iterable))\n\n"
                                    "    def _adopt(self, other: IdentitySet) -> None:\n"
                                    "        self._members = other._members\n"),
    sub("        other: IdentitySet = self.difference(iterable)\n        self._members = other._members\n",
        "        self._adopt(self.difference(iterable))\n")), None)
# benign: inverted isinstance branch + alias in the pure sibling
R.mutant("benign-identityset-symdiff-inverted-branch", CY, sub(
    "        if isinstance(iterable, IdentitySet):\n"
    "            other = cython.cast(IdentitySet, iterable)._members\n"
    "        else:\n"
    "            other = {_get_id(obj): obj for obj in iterable}\n"
    "        result._members = {\n"
    "            k: v for k, v in self._members.items() if k not in other\n"
    "        }\n",
    "        mine = self._members\n"
    "        if not isinstance(iterable, IdentitySet):\n"
    "            other = {_get_id(obj): obj for obj in iterable}\n"
    "        else:\n"
    "            other = cython.cast(IdentitySet, iterable)._members\n"
    "        result._members = {k: v for k, v in mine.items() if k not in other}\n"), None)

_ROR_OLD = ("    ) -> immutabledict[_KT, _VT]:\n"
            "        return immutabledict(\n"
            "            dict.__ror__(self, __value),  # type: ignore[call-overload,operator,unused-ignore]  # noqa: E501\n"
            "        )\n")
# seed C54_4: the reflected operator computes self | value
R.mutant("immutabledict-ror-through-union", IMM, sub(
    _ROR_OLD, "    ) -> immutabledict[_KT, _VT]:\n        return self._union_other((__value,))  # type: ignore[no-any-return]\n"), "C54-R5")
R.mutant("immutabledict-or-operands-swapped", IMM, sub(
    "            dict.__or__(self, __value),  # type: ignore[call-overload,operator,unused-ignore]  # noqa: E501\n",
    "            dict.__or__(__value, self),  # type: ignore[call-overload,operator,unused-ignore]  # noqa: E501\n"), "C54-R5")
R.mutant("immutabledict-union-returns-plain-dict-operand", IMM, sub(
    "            if only_one is False and isinstance(d, immutabledict):\n", "            if only_one is False and isinstance(d, dict):\n"), "C54-R5")
R.mutant("immutabledict-union-skips-equal-sized-operand", IMM, sub(
    "            if not d:\n                continue\n            if isinstance(d, dict):\n",
    "            if not d or len(d) == len(result):\n                continue\n            if isinstance(d, dict):\n"), "C54-R5")
# benign: the reflected operator routed through union() the right way round / built by hand
R.mutant("benign-immutabledict-ror-left-operand-union-self", IMM, sub(
    _ROR_OLD, "    ) -> immutabledict[_KT, _VT]:\n        return immutabledict(__value).union(self)  # type: ignore[no-any-return]\n"), None)
R.mutant("benign-immutabledict-ror-copy-then-update", IMM, sub(
    _ROR_OLD, "    ) -> immutabledict[_KT, _VT]:\n"
              "        merged = dict(__value)\n"
              "        merged.update(self)\n"
              "        return immutabledict(merged)\n"), None)
R.mutant("benign-immutabledict-union-other-direct-loops", IMM, chain(
    sub("        for i in range(size):\n            d = others[i]\n            if not d:\n                continue\n\n            if only_one is False and isinstance(d, immutabledict):\n",
        "        for d in others:\n            if not d:\n                continue\n\n            if only_one is False and isinstance(d, immutabledict):\n"),
    sub("        for i in range(size):\n            d = others[i]\n            if not d:\n                continue\n            if isinstance(d, dict):\n",
        "        for d in others:\n            if d:\n                pass\n            else:\n                continue\n            if isinstance(d, dict):\n")), None)
# benign: the builtin half reached through super() instead of the explicit `set.` spelling (interpreted with Python's own super())
R.mutant("benign-orderedset-builtin-half-through-super", CY, chain(
    sub("        set.difference_update(self, *other)\n", "        super().difference_update(*other)\n"),
    sub("            self._list = []\n            set.__init__(self)\n", "            self._list = []\n            super().__init__()\n")), None)
R.mutant("orderedset-super-difference-update-wrong-sibling", CY,
         sub("        set.difference_update(self, *other)\n", "        super().intersection_update(*other)\n"), "C54-R5")
