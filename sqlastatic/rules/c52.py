"""C52 -- scoped_session gives each scope its own session (keyed-access discipline)."""

from __future__ import annotations

import ast

from ..astutil import call_name, calls_in, dotted, guard_atoms, lexical_guards, unparse, walk_local
from ..cfg import no_exc
from ..report import Registry, sub

R = Registry(
    "C52",
    title="scoped_session gives each scope its own session",
    decides=(
        "every access to ScopedRegistry.registry is keyed by self.scopefunc() evaluated in the same call, creation "
        "uses the atomic setdefault(key, createfunc()) and no whole-dict operation exists; ThreadLocalRegistry stores "
        "a threading.local() and only touches its .value attribute, overriding every accessor of its base; "
        "scoped_session/async_scoped_session.remove closes the current scope's session only if present and then "
        "clears only the current scope; the registry kind follows scopefunc; the proxy re-resolves self.registry() "
        "on every call and never caches a session on the scoped_session object."
    ),
    not_decided="behaviour under actual thread interleavings (dict.setdefault atomicity is CPython's); user scopefuncs.",
)

UC = "util/_collections.py"
SR = f"{UC}::ScopedRegistry"
TL = f"{UC}::ThreadLocalRegistry"
SCOPED = [("orm/scoping.py", "scoped_session"), ("ext/asyncio/scoping.py", "async_scoped_session")]
WHOLE_DICT = {"clear", "popitem", "update", "copy", "values", "items", "keys"}


def _is_scope_key(e, fn):
    """expression is self.scopefunc() or a local bound (only) to self.scopefunc() in fn"""
    if unparse(e).replace(" ", "") == "self.scopefunc()":
        return True
    if isinstance(e, ast.Name):
        defs = [n.value for n in walk_local(fn) if isinstance(n, ast.Assign)
                and any(isinstance(t, ast.Name) and t.id == e.id for t in n.targets)]
        return bool(defs) and all(unparse(d).replace(" ", "") == "self.scopefunc()" for d in defs)
    return False


def _registry_uses(fn):
    """every AST node `self.registry` inside fn with its parent"""
    pm = {}
    for n in ast.walk(fn):
        for c in ast.iter_child_nodes(n):
            pm[c] = n
    out = []
    for n in ast.walk(fn):
        if isinstance(n, ast.Attribute) and n.attr == "registry" and isinstance(n.value, ast.Name) and n.value.id == "self":
            out.append((n, pm.get(n), pm))
    return out


@R.rule("C52-R1", floor=7, template="T-FLOW",
        desc="every use of ScopedRegistry.registry is a single-key operation whose key is self.scopefunc() evaluated in "
             "the same call; creation is the atomic setdefault(key, self.createfunc())")
def r1(ctx):
    cls = ctx.index.cls(SR)
    for mname, f in sorted(cls.methods.items()):
        uses = _registry_uses(f.node)
        if not uses:
            continue
        ctx.functions_analysed.add(f.key)
        if mname == "__init__":
            ok = all(isinstance(p, ast.Assign) and isinstance(p.value, ast.Dict) and not p.value.keys for _, p, _ in uses)
            ctx.check(ok, f"{f.key}:init", "registry is not initialised to a fresh empty dict per ScopedRegistry", "{}", f.loc)
            continue
        for i, (n, p, pm) in enumerate(uses):
            kind, keyexpr, prob = None, None, None
            if isinstance(p, ast.Subscript) and p.value is n:
                kind = {ast.Load: "get", ast.Store: "set", ast.Del: "del"}[type(p.ctx)]
                keyexpr = p.slice
            elif isinstance(p, ast.Compare) and n in p.comparators and isinstance(p.ops[0], (ast.In, ast.NotIn)):
                kind, keyexpr = "in", p.left
            elif isinstance(p, ast.Attribute) and p.value is n:
                call = pm.get(p)
                if isinstance(call, ast.Call) and call.func is p and p.attr in ("setdefault", "get", "pop") and call.args:
                    kind, keyexpr = p.attr, call.args[0]
                    if p.attr == "setdefault" and not (len(call.args) == 2 and unparse(call.args[1]).replace(" ", "") == "self.createfunc()"):
                        prob = "setdefault default is not self.createfunc()"
                else:
                    kind = p.attr
                    prob = f"whole-registry operation .{p.attr} touches other scopes' entries"
            else:
                kind = type(p).__name__
                prob = f"registry used as a whole (`{unparse(p)[:60]}`): other scopes' entries are exposed"
            key = f"{f.key}:{kind}"
            if prob is None and not _is_scope_key(keyexpr, f.node):
                prob = f"key `{unparse(keyexpr)}` is not self.scopefunc() evaluated in this call"
            if prob is None and kind == "set" and mname == "__call__":
                prob = "__call__ creates by check-then-assign instead of the atomic setdefault()"
            ctx.check(prob is None, key, prob or "", f"{kind}[{unparse(keyexpr) if keyexpr is not None else ''}]", f.loc)
    # creation path of __call__
    f = ctx.func(f"{SR}.__call__")
    sd = [c for c in calls_in(f.node) if (call_name(c) or "") == "self.registry.setdefault"]
    ctx.check(bool(sd), f"{f.key}:create", "a missing entry is not created through registry.setdefault(key, createfunc()) "
                                           "(two threads sharing a scope key could each get their own object)",
              "atomic setdefault", f.loc)


@R.rule("C52-R2", floor=5, template="T-FLOW",
        desc="ThreadLocalRegistry.registry is a threading.local() and is only accessed through its .value attribute; "
             "every accessor of ScopedRegistry is overridden")
def r2(ctx):
    cls = ctx.index.cls(TL)
    base = ctx.index.cls(SR)
    ctx.require(base in ctx.index.mro(cls), "ThreadLocalRegistry no longer derives from ScopedRegistry")
    accessors = [m for m, f in base.methods.items() if m != "__init__" and _registry_uses(f.node)]
    for m in sorted(accessors):
        f = cls.methods.get(m)
        key = f"{TL}.{m}"
        if f is None:
            ctx.violation(key, f"accessor {m} is inherited from ScopedRegistry: it would index the threading.local like a dict", cls.loc)
            continue
        ctx.functions_analysed.add(f.key)
        probs = []
        for n, p, pm in _registry_uses(f.node):
            if isinstance(p, ast.Attribute) and p.value is n and p.attr == "value":
                continue
            if isinstance(p, ast.Call) and (call_name(p) in ("hasattr", "getattr", "setattr", "delattr")) and p.args and p.args[0] is n \
                    and len(p.args) > 1 and isinstance(p.args[1], ast.Constant) and p.args[1].value == "value":
                continue
            probs.append(f"`{unparse(p)[:60]}` uses the thread-local other than through .value")
        ctx.check(not probs, key, "; ".join(probs), "only .value of the threading.local", f.loc)
    f = cls.methods.get("__init__")
    ctx.require(f is not None, "ThreadLocalRegistry.__init__ missing")
    ok = any(isinstance(p, ast.Assign) and unparse(p.value).replace(" ", "") == "threading.local()" for _, p, _ in _registry_uses(f.node))
    ctx.check(ok, f"{TL}.__init__", "registry is not a threading.local() created per registry", "threading.local()", f.loc)


def _clear_impl_ok(f, threadlocal):
    dels = [n for n in walk_local(f.node) if isinstance(n, ast.Delete)]
    bad_calls = [c for c in calls_in(f.node) if (call_name(c) or "").startswith("self.registry.") and (call_name(c) or "").split(".")[-1] in WHOLE_DICT]
    rebinds = [n for n in walk_local(f.node) if isinstance(n, ast.Assign) and any(unparse(t) == "self.registry" for t in n.targets)]
    if bad_calls or rebinds:
        return False, "clears/replaces the whole registry (every scope loses its session)"
    if len(dels) != 1 or len(dels[0].targets) != 1:
        return False, "does not delete exactly the current scope's entry"
    t = dels[0].targets[0]
    if threadlocal:
        good = unparse(t) == "self.registry.value"
    else:
        good = isinstance(t, ast.Subscript) and unparse(t.value) == "self.registry" and _is_scope_key(t.slice, f.node)
    return good, "" if good else f"deletes `{unparse(t)}` which is not the current scope's entry"


@R.rule("C52-R3", floor=4, template="T-PATH",
        desc="remove(): close() the current session only under registry.has(), then registry.clear() on every normal "
             "path; clear() implementations delete only the current scope's entry")
def r3(ctx):
    for rel, cname in SCOPED:
        f = ctx.func(f"{rel}::{cname}.remove")
        g = ctx.cfg(f)
        pm = f.module.parents()
        closes = [c for c in calls_in(f.node) if (call_name(c) or "") == "self.registry().close"]
        clears = g.find_calls("self.registry.clear")
        probs = []
        if not closes:
            probs.append("the current session is not closed")
        for c in closes:
            atoms = guard_atoms(lexical_guards(pm, c, stop=f.node))
            if ("self.registry.has()", True) not in atoms:
                probs.append("registry().close() is not guarded by registry.has(): remove() would create a session just to close it")
        if not clears:
            probs.append("registry.clear() is never called")
        else:
            w = g.must_pass([g.entry], [g.exit], clears, edge_ok=no_exc)
            if w is not None:
                probs.append("a normal path leaves remove() without registry.clear(): " + " -> ".join(w[-3:]))
            cn = [i for c in closes for i in g.nodes_containing(c)]
            if cn and set(cn) & g.reachable(clears, edge_ok=no_exc, include_starts=False):
                probs.append("close() can run after clear() (it would close a newly created session)")
        ctx.check(not probs, f.key, "; ".join(probs), "has() -> close(); clear()", f.loc)
    for key_, tl in ((SR, False), (TL, True)):
        f = ctx.func(f"{key_}.clear")
        good, why = _clear_impl_ok(f, tl)
        ctx.check(good, f.key, why, "deletes only the current scope's entry", f.loc)


@R.rule("C52-R4", floor=8, template="T-TABLE",
        desc="registry kind follows scopefunc (ScopedRegistry iff given, else ThreadLocalRegistry), fed with the session "
             "factory; _proxied is an uncached property returning self.registry(); no method stores a session on self; "
             "__call__(**kw) refuses to replace an existing session")
def r4(ctx):
    for rel, cname in SCOPED:
        cls = ctx.index.cls(f"{rel}::{cname}")
        f = ctx.func(f"{cls.key}.__init__")
        pm = f.module.parents()
        assigns = [n for n in walk_local(f.node) if isinstance(n, ast.Assign) and any(unparse(t) == "self.registry" for t in n.targets)]
        probs = []
        kinds = {}
        for a in assigns:
            if not isinstance(a.value, ast.Call):
                probs.append(f"registry assigned from `{unparse(a.value)}`")
                continue
            k = (call_name(a.value) or "").split(".")[-1]
            atoms = guard_atoms(lexical_guards(pm, a, stop=f.node))
            kinds[k] = atoms
            if not a.value.args or unparse(a.value.args[0]) != "session_factory":
                probs.append(f"{k} is not fed with session_factory")
            if k == "ScopedRegistry" and (len(a.value.args) < 2 or unparse(a.value.args[1]) != "scopefunc"):
                probs.append("ScopedRegistry is not given the scopefunc")
        optional = "scopefunc" in [x.arg for x, d in zip(f.node.args.args[-len(f.node.args.defaults):], f.node.args.defaults)] if f.node.args.defaults else False
        if optional:
            if kinds.get("ScopedRegistry") != [("scopefunc", True)] or kinds.get("ThreadLocalRegistry") != [("scopefunc", False)]:
                probs.append(f"registry kind does not follow scopefunc: {kinds}")
        else:
            if list(kinds) != ["ScopedRegistry"] or kinds["ScopedRegistry"]:
                probs.append(f"mandatory scopefunc must always select ScopedRegistry: {kinds}")
        ctx.check(not probs, f.key, "; ".join(probs), f"{sorted(kinds)}", f.loc)
        # _proxied
        p = cls.methods.get("_proxied")
        ctx.require(p is not None, f"{cls.key}._proxied missing")
        rets = [r for r in walk_local(p.node) if isinstance(r, ast.Return)]
        good = p.decorators == ["property"] and len(rets) == 1 and unparse(rets[0].value).replace(" ", "") == "self.registry()" \
            and not [n for n in walk_local(p.node) if isinstance(n, (ast.Assign, ast.AugAssign))]
        ctx.check(good, p.key, "_proxied is not a plain property returning self.registry() (a cached session would leak across scopes)",
                  "property -> self.registry()", p.loc)
        # no session cached on self
        bad = []
        for mname, m in cls.methods.items():
            if mname == "__init__":
                continue
            for n in walk_local(m.node):
                tg = n.targets if isinstance(n, ast.Assign) else ([n.target] if isinstance(n, (ast.AugAssign, ast.AnnAssign)) else [])
                for t in tg:
                    if isinstance(t, ast.Attribute) and isinstance(t.value, ast.Name) and t.value.id == "self":
                        bad.append(f"{mname}: {unparse(n)[:50]}")
        ctx.check(not bad, f"{cls.key}:no-cached-session", f"instance attributes are assigned outside __init__: {bad[:3]} "
                                                           f"(state on the shared scoped_session object is visible to every scope)",
                  "no per-call state on the shared object", cls.loc)
        # __call__
        c = ctx.func(f"{cls.key}.__call__")
        pmc = c.module.parents()
        sets = [x for x in calls_in(c.node) if (call_name(x) or "") == "self.registry.set"]
        probs = []
        for x in sets:
            atoms = guard_atoms(lexical_guards(pmc, x, stop=c.node))
            if ("self.registry.has()", False) not in atoms:
                probs.append("registry.set() of a custom-configured session is not restricted to `not registry.has()`")
        if not any((call_name(x) or "") == "self.registry" for x in calls_in(c.node)):
            probs.append("the no-argument path does not resolve self.registry()")
        ctx.check(not probs, c.key, "; ".join(probs), "kw -> only when absent; else registry()", c.loc)


# -------------------------------------------------------------------------------------- self-test
R.mutant("scoped-call-check-then-assign", UC,
         sub("            return self.registry.setdefault(key, self.createfunc())  # type: ignore[no-any-return] # noqa: E501\n",
             "            self.registry[key] = obj = self.createfunc()\n            return obj\n"),
         "C52-R1")
R.mutant("scoped-has-any-scope", UC,
         sub("        return self.scopefunc() in self.registry\n", "        return bool(self.registry)\n"), "C52-R1")
R.mutant("scoped-set-constant-key", UC,
         sub("        self.registry[self.scopefunc()] = obj\n", "        self.registry[None] = obj\n"), "C52-R1")
R.mutant("threadlocal-has-inherited", UC,
         sub("    def has(self) -> bool:\n        return hasattr(self.registry, \"value\")\n\n", ""), "C52-R2")
R.mutant("threadlocal-registry-is-dict", UC,
         sub("        self.registry = threading.local()\n", "        self.registry = {}\n"), "C52-R2")
R.mutant("threadlocal-set-other-attr", UC,
         sub("        self.registry.value = obj\n", "        self.registry.__dict__.update(value=obj)\n"), "C52-R2")
R.mutant("remove-closes-unconditionally", "orm/scoping.py",
         sub("        if self.registry.has():\n            self.registry().close()\n        self.registry.clear()\n",
             "        self.registry().close()\n        self.registry.clear()\n"),
         "C52-R3")
R.mutant("remove-clear-only-if-present", "orm/scoping.py",
         sub("        if self.registry.has():\n            self.registry().close()\n        self.registry.clear()\n",
             "        if self.registry.has():\n            self.registry().close()\n            return\n        self.registry.clear()\n"),
         "C52-R3")
R.mutant("scoped-clear-whole-dict", UC,
         sub("        try:\n            del self.registry[self.scopefunc()]\n        except KeyError:\n            pass\n", "        self.registry.clear()\n"),
         "C52-R3")
R.mutant("async-remove-no-clear", "ext/asyncio/scoping.py",
         sub("            await self.registry().close()\n        self.registry.clear()\n", "            await self.registry().close()\n"), "C52-R3")
R.mutant("init-kinds-swapped", "orm/scoping.py",
         sub("        if scopefunc:\n            self.registry = ScopedRegistry(session_factory, scopefunc)\n        else:\n            self.registry = ThreadLocalRegistry(session_factory)\n",
             "        if not scopefunc:\n            self.registry = ScopedRegistry(session_factory, scopefunc)\n        else:\n            self.registry = ThreadLocalRegistry(session_factory)\n"),
         "C52-R4")
R.mutant("proxied-cached", "orm/scoping.py",
         sub("    @property\n    def _proxied(self) -> _S:\n        return self.registry()\n",
             "    @property\n    def _proxied(self) -> _S:\n        try:\n            return self._cached\n        except AttributeError:\n            self._cached = self.registry()\n            return self._cached\n"),
         "C52-R4")
R.mutant("call-kw-replaces-existing", "orm/scoping.py",
         sub("            if self.registry.has():\n                raise sa_exc.InvalidRequestError(\n                    \"Scoped session is already present; \"\n                    \"no new arguments may be specified.\"\n                )\n            else:\n                sess = self.session_factory(**kw)\n                self.registry.set(sess)\n",
             "            sess = self.session_factory(**kw)\n            self.registry.set(sess)\n"),
         "C52-R4")
# benign
R.mutant("benign-scoped-has-local-key", UC,
         sub("        return self.scopefunc() in self.registry\n", "        key = self.scopefunc()\n        return key in self.registry\n"), None)
R.mutant("benign-remove-local", "orm/scoping.py",
         sub("        if self.registry.has():\n            self.registry().close()\n        self.registry.clear()\n",
             "        present = self.registry.has()\n        if self.registry.has():\n            self.registry().close()\n        self.registry.clear()\n"),
         None)
R.mutant("benign-threadlocal-getattr", UC,
         sub("        return hasattr(self.registry, \"value\")\n", "        return getattr(self.registry, \"value\", None) is not None\n"), None)
