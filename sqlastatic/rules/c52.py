"""C52 -- scoped_session gives each scope its own session (keyed-access discipline)."""

from __future__ import annotations

import ast

from ..astutil import call_name, calls_in, dotted, guard_atoms, lexical_guards, unparse, walk_local
from ..cfg import no_exc
from ..report import Registry, chain, sub
from ._helpers_rob_a import helper_callers
from ._helpers_rob_h1 import local_defs, nform, reachable_methods, tri, tri_edges

R = Registry(
    "C52",
    title="scoped_session gives each scope its own session",
    decides=(
        "every access to ScopedRegistry.registry is keyed by self.scopefunc() evaluated in the same call, creation "
        "uses the atomic setdefault(key, createfunc()) and no whole-dict operation exists; ThreadLocalRegistry stores "
        "a threading.local() and only touches its .value attribute, overriding every accessor of its base; "
        "scoped_session/async_scoped_session.remove closes the current scope's session if and only if one is present "
        "(no further condition on the close) and then clears only the current scope; the registry kind follows scopefunc; the proxy re-resolves self.registry() "
        "on every call and never caches a session on the scoped_session object; registry accessor contracts "
        "(__call__ returns the slot's object on every path, has() is the positive presence test, set() stores its "
        "argument, the constructor initialises what the accessors read); scoped_session.__call__ returns only a "
        "session resolved from or registered with the registry, registers the factory product on the keyword path "
        "and raises when keyword arguments meet an existing session."
    ),
    not_decided="behaviour under actual thread interleavings (dict.setdefault atomicity is CPython's); user scopefuncs.",
)

UC = "util/_collections.py"
SR = f"{UC}::ScopedRegistry"
TL = f"{UC}::ThreadLocalRegistry"
SCOPED = [("orm/scoping.py", "scoped_session"), ("ext/asyncio/scoping.py", "async_scoped_session")]
WHOLE_DICT = {"clear", "popitem", "update", "copy", "values", "items", "keys"}


_KEY_GETTERS: set = set()


def _note_key_getters(ctx):
    """one-line methods of ScopedRegistry that return self.scopefunc() (`def _key(self): return self.scopefunc()`): a
    call of one is the scope key evaluated in this call, like the expression itself"""
    _KEY_GETTERS.clear()
    for name, f in ctx.index.cls(SR).methods.items():
        body = [st for st in f.node.body if not (isinstance(st, ast.Expr) and isinstance(st.value, ast.Constant))]
        if len(body) == 1 and isinstance(body[0], ast.Return) and body[0].value is not None \
                and unparse(body[0].value).replace(" ", "") == "self.scopefunc()" and len(f.node.args.args) == 1 \
                and not any(name in k.methods for k in ctx.index.subclasses(ctx.index.cls(SR))):
            _KEY_GETTERS.add(name)


def _is_scope_key(e, fn):
    """expression is self.scopefunc() or a local bound (only) to self.scopefunc() in fn"""
    if unparse(e).replace(" ", "") == "self.scopefunc()":
        return True
    if isinstance(e, ast.Call) and not e.args and not e.keywords and isinstance(e.func, ast.Attribute) \
            and isinstance(e.func.value, ast.Name) and e.func.value.id == "self" and e.func.attr in _KEY_GETTERS:
        return True
    if isinstance(e, ast.Name):
        defs = [n.value for n in walk_local(fn) if isinstance(n, ast.Assign)
                and any(isinstance(t, ast.Name) and t.id == e.id for t in n.targets)]
        return bool(defs) and all(not isinstance(d, ast.Name) and _is_scope_key(d, fn) for d in defs)
    return False


def _is_created(e, fn):
    """expression is self.createfunc() or a local bound (only) to self.createfunc() in fn"""
    if unparse(e).replace(" ", "") == "self.createfunc()":
        return True
    if isinstance(e, ast.Name):
        defs = [n.value for n in walk_local(fn) if isinstance(n, ast.Assign)
                and any(isinstance(t, ast.Name) and t.id == e.id for t in n.targets)]
        return bool(defs) and all(unparse(d).replace(" ", "") == "self.createfunc()" for d in defs)
    return False


def _registry_uses(fn):
    """every AST node `self.registry` inside fn with its parent"""
    pm = {}
    for n in ast.walk(fn):
        for c in ast.iter_child_nodes(n):
            pm[c] = n
    out = []
    loads = {x.id for x in ast.walk(fn) if isinstance(x, ast.Name) and isinstance(x.ctx, ast.Load)}
    for n in ast.walk(fn):
        if isinstance(n, ast.Attribute) and n.attr == "registry" and isinstance(n.value, ast.Name) and n.value.id == "self":
            p = pm.get(n)
            if isinstance(p, (ast.Assign, ast.AnnAssign)) and p.value is n and isinstance(n.ctx, ast.Load):
                tgs = p.targets if isinstance(p, ast.Assign) else [p.target]
                if all(isinstance(t, ast.Name) and t.id not in loads for t in tgs):
                    continue        # `registry = self.registry` whose every read was resolved (normal form): a dead store
            out.append((n, p, pm))
    return out


def _private(name):
    return name.startswith("_") and not (name.startswith("__") and name.endswith("__"))


def _class_forms(ctx, cls, **kw):
    """({method name: normal form}, names of private helpers that are read at every one of their call sites): a helper
    that was inlined into all its callers is judged there, with the caller's arguments -- not once more on its own,
    where its parameters mean nothing"""
    forms = {m: nform(ctx, f, **kw) for m, f in cls.methods.items() if not f.type_only}
    folded = set()
    for m, f in cls.methods.items():
        if not _private(m) or m not in forms:
            continue
        callers = helper_callers(ctx.index, f)
        if not callers:
            continue
        ok = True
        for ck in callers:
            cm = ck.split("::", 1)[1].split(".")
            if len(cm) != 2 or cm[0] != cls.name or cm[1] not in forms or f.key not in forms[cm[1]].inlined:
                ok = False
        if ok:
            folded.add(m)
    return forms, folded


@R.rule("C52-R1", floor=7, template="T-FLOW",
        desc="every use of ScopedRegistry.registry is a single-key operation whose key is self.scopefunc() evaluated in "
             "the same call; creation is the atomic setdefault(key, self.createfunc())")
def r1(ctx):
    _note_key_getters(ctx)
    cls = ctx.index.cls(SR)
    forms, folded = _class_forms(ctx, cls)
    for mname, f in sorted(forms.items()):
        if mname in folded:
            continue
        uses = _registry_uses(f.node)
        if not uses:
            continue
        ctx.functions_analysed.add(f.key)
        if mname == "__init__":
            ok = all(isinstance(p, ast.Assign) and isinstance(p.value, ast.Dict) and not p.value.keys for _, p, _ in uses)
            ctx.check(ok, f"{f.key}:init", "registry is not initialised to a fresh empty dict per ScopedRegistry", "{}", f.loc)
            continue
        for i, (n, p, pm) in enumerate(uses):
            kind, keyexpr, prob = None, None, None
            if isinstance(p, ast.Subscript) and p.value is n:
                kind = {ast.Load: "get", ast.Store: "set", ast.Del: "del"}[type(p.ctx)]
                keyexpr = p.slice
            elif isinstance(p, ast.Compare) and n in p.comparators and isinstance(p.ops[0], (ast.In, ast.NotIn)):
                kind, keyexpr = "in", p.left
            elif isinstance(p, ast.Attribute) and p.value is n:
                call = pm.get(p)
                if isinstance(call, ast.Call) and call.func is p and p.attr in ("setdefault", "get", "pop") and call.args:
                    kind, keyexpr = p.attr, call.args[0]
                    if p.attr == "setdefault" and not (len(call.args) == 2 and _is_created(call.args[1], f.node)):
                        prob = "setdefault default is not self.createfunc()"
                else:
                    kind = p.attr
                    prob = f"whole-registry operation .{p.attr} touches other scopes' entries"
            else:
                kind = type(p).__name__
                prob = f"registry used as a whole (`{unparse(p)[:60]}`): other scopes' entries are exposed"
            key = f"{f.key}:{kind}"
            if prob is None and not _is_scope_key(keyexpr, f.node):
                prob = f"key `{unparse(keyexpr)}` is not self.scopefunc() evaluated in this call"
            if prob is None and kind == "set" and mname == "__call__":
                prob = "__call__ creates by check-then-assign instead of the atomic setdefault()"
            ctx.check(prob is None, key, prob or "", f"{kind}[{unparse(keyexpr) if keyexpr is not None else ''}]", f.loc)
    # creation path of __call__
    ctx.func(f"{SR}.__call__")
    f = forms["__call__"]
    sd = [c for c in calls_in(f.node) if (call_name(c) or "") == "self.registry.setdefault"]
    ctx.check(bool(sd), f"{f.key}:create", "a missing entry is not created through registry.setdefault(key, createfunc()) "
                                           "(two threads sharing a scope key could each get their own object)",
              "atomic setdefault", f.loc)


def _registry_storage(ctx, cls):
    """[(value expr, class whose __init__ assigns it)] bound to self.registry by the constructor of `cls`, following
    super().__init__(...) delegation; and the arguments of that delegation (for the message)"""
    out, deleg = [], []
    mro = ctx.index.mro(cls)
    f = ctx.index.resolve_method(cls, "__init__")
    seen = set()
    while f is not None and f.key not in seen:
        seen.add(f.key)
        ctx.functions_analysed.add(f.key)
        vals = [p.value for _, p, _ in _registry_uses(f.node)
                if isinstance(p, ast.Assign) and any(unparse(t) == "self.registry" for t in p.targets)]
        out.extend((v, f.cls) for v in vals)
        nxt = None
        for c in calls_in(f.node):
            if call_name(c) == "super().__init__" and f.cls in mro:
                deleg.append(c)
                for k in mro[mro.index(f.cls) + 1:]:
                    if "__init__" in k.methods:
                        nxt = k.methods["__init__"]
                        break
        if vals:
            break
        f = nxt
    return out, deleg


@R.rule("C52-R2", floor=5, template="T-FLOW",
        desc="the default registry is thread-LOCAL storage: the constructor chain of ThreadLocalRegistry binds "
             "self.registry to a threading.local(), every accessor of ScopedRegistry is overridden and touches only "
             "the .value attribute of that object")
def r2(ctx):
    cls = ctx.index.cls(TL)      # class (or file) gone: anchor vanished -> exit 2
    base = ctx.index.cls(SR)
    ctx.require(base in ctx.index.mro(cls), "ThreadLocalRegistry no longer derives from ScopedRegistry")
    storage, deleg = _registry_storage(ctx, cls)
    is_tl = bool(storage) and all(unparse(v).replace(" ", "") == "threading.local()" for v, _ in storage)
    init = ctx.index.resolve_method(cls, "__init__")
    if storage:
        what = "; ".join(f"`{unparse(v)}` (assigned in {k.name}.__init__)" for v, k in storage)
    else:
        what = "never assigned by the constructor chain"
    if deleg:
        what += "".join(f", reached through `{unparse(c)}`" for c in deleg)
    ctx.check(is_tl, f"{TL}.__init__",
              f"the default registry is not thread-LOCAL storage: self.registry is {what}. A registry keyed by an "
              f"identifier of the thread (idents are recycled) keeps the entry of a finished thread and hands it to the "
              f"next thread with the same key; only threading.local() storage dies with its thread",
              "threading.local()", init.loc if init else cls.loc)
    accessors = {m for m, f in base.methods.items() if m != "__init__" and _registry_uses(f.node)}
    accessors |= {m for m, f in cls.methods.items() if m != "__init__" and _registry_uses(f.node)}
    # what can run on a ThreadLocalRegistry instance: its interface (MRO) and what that calls on self.  A private helper
    # of ScopedRegistry that only the overridden accessors of the base call never runs on the thread-local storage
    reach = reachable_methods(ctx, cls)
    for m in sorted(accessors):
        f = cls.methods.get(m)
        key = f"{TL}.{m}"
        if f is None and m not in reach:
            ctx.ok(key, f"ScopedRegistry.{m} is only called by accessors that ThreadLocalRegistry overrides: it never runs on "
                        f"the thread-local storage", nontrivial=False)
            continue
        if f is None:
            if is_tl:
                msg = f"accessor {m} is inherited from ScopedRegistry: it would index the threading.local like a dict"
            else:
                msg = (f"accessor {m} is inherited from ScopedRegistry: it files the object in a shared dict under "
                       f"self.scopefunc() instead of in per-thread storage")
            ctx.violation(key, msg, cls.loc)
            continue
        ctx.functions_analysed.add(f.key)
        f = nform(ctx, f)
        probs = []
        for n, p, pm in _registry_uses(f.node):
            if isinstance(p, ast.Attribute) and p.value is n and p.attr == "value":
                continue
            if isinstance(p, ast.Call) and (call_name(p) in ("hasattr", "getattr", "setattr", "delattr")) and p.args and p.args[0] is n \
                    and len(p.args) > 1 and isinstance(p.args[1], ast.Constant) and p.args[1].value == "value":
                continue
            probs.append(f"`{unparse(p)[:60]}` uses the thread-local other than through .value")
        ctx.check(not probs, key, "; ".join(probs), "only .value of the threading.local", f.loc)


def _clear_impl_ok(f, threadlocal):
    dels = [n for n in walk_local(f.node) if isinstance(n, ast.Delete)]
    bad_calls = [c for c in calls_in(f.node) if (call_name(c) or "").startswith("self.registry.") and (call_name(c) or "").split(".")[-1] in WHOLE_DICT]
    rebinds = [n for n in walk_local(f.node) if isinstance(n, ast.Assign) and any(unparse(t) == "self.registry" for t in n.targets)]
    if bad_calls or rebinds:
        return False, "clears/replaces the whole registry (every scope loses its session)"
    if len(dels) != 1 or len(dels[0].targets) != 1:
        return False, "does not delete exactly the current scope's entry"
    t = dels[0].targets[0]
    if threadlocal:
        good = unparse(t) == "self.registry.value"
    else:
        good = isinstance(t, ast.Subscript) and unparse(t.value) == "self.registry" and _is_scope_key(t.slice, f.node)
    return good, "" if good else f"deletes `{unparse(t)}` which is not the current scope's entry"


@R.rule("C52-R3", floor=4, template="T-PATH",
        desc="remove(): close() the current session only under registry.has(), then registry.clear() on every normal "
             "path; clear() implementations delete only the current scope's entry")
def r3(ctx):
    _note_key_getters(ctx)
    for rel, cname in SCOPED:
        # normal form: `registry = self.registry` is resolved, `current = registry()` / `current.close()` is read as
        # `self.registry().close()`, an extracted helper is read at its call
        f = nform(ctx, ctx.func(f"{rel}::{cname}.remove"), temps=True)
        g = ctx.cfg(f)
        defs = local_defs(f.node)

        def is_current(e):
            """the current scope's session: `self.registry()` or a local bound only to it"""
            if isinstance(e, ast.Await):
                return is_current(e.value)
            if isinstance(e, ast.Call):
                return call_name(e) == "self.registry" and not e.args and not e.keywords
            if isinstance(e, ast.Name):
                vs = defs.get(e.id)
                return bool(vs) and all(v is not None and is_current(v) for v in vs)
            return False
        closes = [c for c in calls_in(f.node) if isinstance(c.func, ast.Attribute) and c.func.attr == "close" and is_current(c.func.value)]
        resolves = [c for c in calls_in(f.node) if call_name(c) == "self.registry" and not c.args]
        clears = g.find_calls("self.registry.clear")
        probs = []
        if not closes:
            probs.append("the current session is not closed")
        # branch outcomes that dominate the call on the CFG (nested ifs, early return, inverted if/else alike)
        if any(("self.registry.has()", True) not in _atoms_at(g, c) for c in closes + resolves):
            probs.append("registry().close() is not guarded by registry.has(): remove() would create a session just to close it")
        if not clears:
            probs.append("registry.clear() is never called")
        else:
            w = g.must_pass([g.entry], [g.exit], clears, edge_ok=no_exc)
            if w is not None:
                probs.append("a normal path leaves remove() without registry.clear(): " + " -> ".join(w[-3:]))
            cn = [i for c in closes for i in g.nodes_containing(c)]
            if cn and set(cn) & g.reachable(clears, edge_ok=no_exc, include_starts=False):
                probs.append("close() can run after clear() (it would close a newly created session)")
        if closes:
            # "remove() closes the current scope's Session": when one is present, EVERY normal path attempts the close.
            # Scenario evaluation: has() is true, the resolved session is an object (`if sess is not None:` decides
            # nothing); the branch outcomes the scenario refutes are cut, whatever the spelling of the test
            def present(e):
                if isinstance(e, ast.Call) and call_name(e) == "self.registry.has" and not e.args and not e.keywords:
                    return True
                return True if is_current(e) else None
            cut = tri_edges(g, present)
            cn = [i for c in closes for i in g.nodes_containing(c)]
            w = g.witness([g.entry], [g.exit], avoid=cn, edge_ok=lambda a, b, l: l != "exc" and (a, l) not in cut)
            if w is not None:
                extra = sorted({a + ("" if p else " is false") for c in closes for a, p in _atoms_at(g, c)
                                if a != "self.registry.has()"})
                probs.append("with a session present in the current scope a normal path leaves remove() without closing it"
                             + (f" (close() additionally depends on {extra}; " if extra else " (")
                             + "path: " + " -> ".join(g.describe_path(w)[-4:]) + "): the session is dropped from the "
                             "registry still owning its objects and resources")
        ctx.check(not probs, f.key, "; ".join(probs), "has() -> close(); clear()", f.loc)
    for key_, tl in ((SR, False), (TL, True)):
        f = ctx.method(key_, "clear")     # through the MRO: an inherited clear() is judged as what it is
        own = f.cls is not None and f.cls.key == key_
        good, why = _clear_impl_ok(f, tl and own)
        ctx.check(good, f"{key_}.clear", why, "deletes only the current scope's entry"
                  + ("" if own else f" (inherited from {f.cls.name}; storage kind is C52-R2's)"), f.loc)


@R.rule("C52-R4", floor=8, template="T-TABLE",
        desc="registry kind follows scopefunc (ScopedRegistry iff given, else ThreadLocalRegistry), fed with the session "
             "factory; _proxied is an uncached property returning self.registry(); no method stores a session on self; "
             "__call__(**kw) refuses to replace an existing session")
def r4(ctx):
    for rel, cname in SCOPED:
        cls = ctx.index.cls(f"{rel}::{cname}")
        f = ctx.func(f"{cls.key}.__init__")
        pm = f.module.parents()
        assigns = [n for n in walk_local(f.node) if isinstance(n, ast.Assign) and any(unparse(t) == "self.registry" for t in n.targets)]
        probs = []
        kinds = {}
        gi = ctx.cfg(f)

        def alternatives(v, fact):
            """the values a (nested) conditional expression can take under the facts: `A if c else B` is `if c: A else: B`"""
            if isinstance(v, ast.IfExp):
                t = tri(v.test, fact)
                return ([] if t is False else alternatives(v.body, fact)) + ([] if t is True else alternatives(v.orelse, fact))
            return [v]

        def scenario(given):
            """registry classes whose assignment is reachable when scopefunc is / is not given -- the test may be spelled
            `if scopefunc:`, `if scopefunc is None:` (inverted), `if not scopefunc: ... return`, `A if scopefunc else B`"""
            def fact(e):
                if isinstance(e, ast.Name) and e.id == "scopefunc":
                    return given
                if isinstance(e, ast.Compare) and len(e.ops) == 1 and isinstance(e.left, ast.Name) and e.left.id == "scopefunc" \
                        and isinstance(e.comparators[0], ast.Constant) and e.comparators[0].value is None \
                        and isinstance(e.ops[0], (ast.Is, ast.IsNot, ast.Eq, ast.NotEq)):
                    return (not given) == isinstance(e.ops[0], (ast.Is, ast.Eq))
                return None
            cut = tri_edges(gi, fact)
            r = gi.reachable([gi.entry], edge_ok=lambda a, b, l: l != "exc" and (a, l) not in cut)
            return sorted({(call_name(v) or "").split(".")[-1] for a in assigns if set(gi.nodes_for(a)) & r
                           for v in alternatives(a.value, fact) if isinstance(v, ast.Call)})
        for a in assigns:
            for v in alternatives(a.value, lambda e: None):
                if not isinstance(v, ast.Call):
                    probs.append(f"registry assigned from `{unparse(v)}`")
                    continue
                k = (call_name(v) or "").split(".")[-1]
                kinds[k] = guard_atoms(lexical_guards(pm, a, stop=f.node)) + ([("<conditional expression>", True)] if v is not a.value else [])
                if not v.args or unparse(v.args[0]) != "session_factory":
                    probs.append(f"{k} is not fed with session_factory")
                if k == "ScopedRegistry" and (len(v.args) < 2 or unparse(v.args[1]) != "scopefunc"):
                    probs.append("ScopedRegistry is not given the scopefunc"
                                 + (f" but `{unparse(v.args[1])}`" if len(v.args) > 1 else ""))
        optional = "scopefunc" in [x.arg for x, d in zip(f.node.args.args[-len(f.node.args.defaults):], f.node.args.defaults)] if f.node.args.defaults else False
        if optional:
            if scenario(True) != ["ScopedRegistry"] or scenario(False) != ["ThreadLocalRegistry"]:
                probs.append(f"registry kind does not follow scopefunc: given -> {scenario(True)}, not given -> {scenario(False)}"
                             + (" (the default scope must be the thread-LOCAL registry: a dict keyed by anything that "
                                "identifies a thread outlives the thread and hands its session to the next thread with a "
                                "recycled identifier)" if scenario(False) != ["ThreadLocalRegistry"] else ""))
        else:
            if list(kinds) != ["ScopedRegistry"] or kinds["ScopedRegistry"]:
                probs.append(f"mandatory scopefunc must always select ScopedRegistry: {kinds}")
        ctx.check(not probs, f.key, "; ".join(probs), f"{sorted(kinds)}", f.loc)
        # _proxied
        p = cls.methods.get("_proxied")
        ctx.require(p is not None, f"{cls.key}._proxied missing")
        rets = [r for r in walk_local(p.node) if isinstance(r, ast.Return)]
        good = p.decorators == ["property"] and len(rets) == 1 and unparse(rets[0].value).replace(" ", "") == "self.registry()" \
            and not [n for n in walk_local(p.node) if isinstance(n, (ast.Assign, ast.AugAssign))]
        ctx.check(good, p.key, "_proxied is not a plain property returning self.registry() (a cached session would leak across scopes)",
                  "property -> self.registry()", p.loc)
        # no session cached on self
        bad = []
        for mname, m in cls.methods.items():
            if mname == "__init__":
                continue
            for n in walk_local(m.node):
                tg = n.targets if isinstance(n, ast.Assign) else ([n.target] if isinstance(n, (ast.AugAssign, ast.AnnAssign)) else [])
                for t in tg:
                    if isinstance(t, ast.Attribute) and isinstance(t.value, ast.Name) and t.value.id == "self":
                        bad.append(f"{mname}: {unparse(n)[:50]}")
        ctx.check(not bad, f"{cls.key}:no-cached-session", f"instance attributes are assigned outside __init__: {bad[:3]} "
                                                           f"(state on the shared scoped_session object is visible to every scope)",
                  "no per-call state on the shared object", cls.loc)
        # __call__
        c = nform(ctx, ctx.func(f"{cls.key}.__call__"), temps=True)
        sets = [x for x in calls_in(c.node) if (call_name(x) or "") == "self.registry.set"]
        probs = []
        gc = ctx.cfg(c)
        for x in sets:
            # dominating branch outcomes on the CFG (an `if has(): raise` without else counts)
            if ("self.registry.has()", False) not in _atoms_at(gc, x):
                probs.append("registry.set() of a custom-configured session is not restricted to `not registry.has()`")
        if not any((call_name(x) or "") == "self.registry" for x in calls_in(c.node)):
            probs.append("the no-argument path does not resolve self.registry()")
        ctx.check(not probs, c.key, "; ".join(probs), "kw -> only when absent; else registry()", c.loc)



# -------------------------------------------------------------------------------------- C52-R5 / C52-R6
# What the accessors must DO with the current scope's slot (R1/R2 only decide which slot they touch).

def _is_slot(e, fn):
    """expression designates the current scope's slot: self.registry[<scope key>] or self.registry.value"""
    if isinstance(e, ast.Subscript) and unparse(e.value) == "self.registry":
        return _is_scope_key(e.slice, fn)
    return isinstance(e, ast.Attribute) and e.attr == "value" and unparse(e.value) == "self.registry"


def _slot_store_nodes(g, fn, name):
    """CFG nodes that store the local/parameter `name` into the current slot (incl. chained `v = slot = expr`)"""
    out = []
    for n in g.nodes:
        st = n.stmt
        if n.kind != "stmt" or not isinstance(st, ast.Assign):
            continue
        slot_t = [t for t in st.targets if _is_slot(t, fn)]
        if not slot_t:
            continue
        if (isinstance(st.value, ast.Name) and st.value.id == name) or any(isinstance(t, ast.Name) and t.id == name for t in st.targets):
            out.append(n.id)
    return out


def _presence(e, fn):
    """+1 if e is true exactly when the current slot is occupied, -1 for the negation, None if not understood"""
    if isinstance(e, ast.UnaryOp) and isinstance(e.op, ast.Not):
        p = _presence(e.operand, fn)
        return -p if p else None
    if isinstance(e, ast.Call) and call_name(e) == "bool" and len(e.args) == 1:
        return _presence(e.args[0], fn)
    if isinstance(e, ast.Compare) and len(e.ops) == 1:
        op, l, r = e.ops[0], e.left, e.comparators[0]
        if isinstance(op, (ast.In, ast.NotIn)) and unparse(r) == "self.registry" and _is_scope_key(l, fn):
            return 1 if isinstance(op, ast.In) else -1
        if isinstance(op, (ast.Is, ast.IsNot)) and isinstance(r, ast.Constant) and r.value is None and isinstance(l, ast.Call):
            nm = call_name(l) or ""
            getter = (nm == "getattr" and len(l.args) == 3 and unparse(l.args[0]) == "self.registry"
                      and isinstance(l.args[1], ast.Constant) and l.args[1].value == "value"
                      and isinstance(l.args[2], ast.Constant) and l.args[2].value is None) \
                or (nm == "self.registry.get" and 1 <= len(l.args) <= 2 and _is_scope_key(l.args[0], fn)
                    and (len(l.args) == 1 or (isinstance(l.args[1], ast.Constant) and l.args[1].value is None)))
            if getter:
                return 1 if isinstance(op, ast.IsNot) else -1
        return None
    if isinstance(e, ast.Call) and call_name(e) == "hasattr" and len(e.args) == 2 and unparse(e.args[0]) == "self.registry" \
            and isinstance(e.args[1], ast.Constant) and e.args[1].value == "value":
        return 1
    return None


def _whole_registry_use(e, fn):
    """e mentions self.registry other than through a single-slot operation of the current scope"""
    for n, p, pm in _registry_uses(e):
        if isinstance(p, ast.Subscript) and p.value is n and _is_scope_key(p.slice, fn):
            continue
        if isinstance(p, ast.Compare) and n in p.comparators and _is_scope_key(p.left, fn):
            continue
        if isinstance(p, ast.Attribute) and p.value is n and (p.attr == "value" or (
                p.attr in ("get", "setdefault") and isinstance(pm.get(p), ast.Call) and pm[p].args and _is_scope_key(pm[p].args[0], fn))):
            continue
        if isinstance(p, ast.Call) and call_name(p) in ("hasattr", "getattr") and p.args and p.args[0] is n:
            continue
        return True
    return False


def _returns(g):
    return [n for n in g.nodes if n.kind == "stmt" and isinstance(n.stmt, ast.Return)]


def _falls_off(g):
    """a normal path reaches the exit without passing a return statement (the call evaluates to None)"""
    return g.witness([g.entry], [g.exit], avoid=[n.id for n in _returns(g)], edge_ok=no_exc)


def _atoms_at(g, expr):
    """branch outcomes (normalised atoms) that dominate every CFG node evaluating `expr` (early returns included)"""
    nodes = g.nodes_containing(expr)
    sets = [set(guard_atoms(g.edge_guards(i))) for i in nodes]
    return set.intersection(*sets) if sets else set()


def _param_names(fn):
    return [a.arg for a in fn.args.posonlyargs + fn.args.args]


def _init_chain(ctx, cls):
    """__init__ of cls and the __init__s it delegates to with super().__init__(...)"""
    out = []
    mro = ctx.index.mro(cls)
    f = ctx.index.resolve_method(cls, "__init__")
    while f is not None and f not in out:
        out.append(f)
        nxt = None
        if f.cls in mro and any(call_name(c) == "super().__init__" for c in calls_in(f.node)):
            for k in mro[mro.index(f.cls) + 1:]:
                if "__init__" in k.methods:
                    nxt = k.methods["__init__"]
                    break
        f = nxt
    return out


def _uninitialised_reads(ctx, cls, methods):
    """instance attributes read as self.X by `methods` that the constructor chain of cls does not assign on every
    normal path (class-level values and methods in the MRO do not count as reads of instance state)"""
    mro = ctx.index.mro(cls)

    def classlevel(a):
        for k in mro:
            if a in k.methods or a in k.nested:
                return True
            if a in k.assigns and any(v is not None for v in k.assigns[a]):
                # a real class-level value (annotation-only declarations are not in assigns)
                return True
        return False
    reads = {}
    for f in methods:
        for n in walk_local(f.node):
            if isinstance(n, ast.Attribute) and isinstance(n.ctx, ast.Load) and isinstance(n.value, ast.Name) and n.value.id == "self" \
                    and not n.attr.startswith("__") and not classlevel(n.attr):
                reads.setdefault(n.attr, f.name)
    chain_ = _init_chain(ctx, cls)
    missing = {}
    for a, where in sorted(reads.items()):
        ok = False
        for f in chain_:
            g = ctx.cfg(f)
            stores = [n.id for n in g.nodes if n.kind == "stmt" and isinstance(n.stmt, (ast.Assign, ast.AnnAssign))
                      and any(unparse(t) == f"self.{a}" for t in (n.stmt.targets if isinstance(n.stmt, ast.Assign) else [n.stmt.target]))
                      and getattr(n.stmt, "value", None) is not None]
            if stores and g.must_pass([g.entry], [g.exit], stores, edge_ok=no_exc) is None:
                ok = True
                break
        if not ok:
            missing[a] = where
    return missing, reads


@R.rule("C52-R5", floor=8, template="T-FLOW",
        desc="registry accessor contracts, for ScopedRegistry and ThreadLocalRegistry (methods resolved through the MRO): "
             "__call__ returns on every path the object held in (or just stored into) the current slot; has() is the "
             "positive presence test of the current slot; set(obj) stores its argument into the current slot on every "
             "path; the constructor initialises every attribute the accessors read, createfunc/scopefunc from the "
             "parameters in call order")
def r5(ctx):
    _note_key_getters(ctx)
    for ck in (SR, TL):
        cls = ctx.index.cls(ck)
        # ---- __call__
        f = nform(ctx, ctx.method(ck, "__call__"))
        g = ctx.cfg(f)
        probs = []
        w = _falls_off(g)
        if w is not None:
            probs.append("a path falls off the end (returns None instead of the scope's object)")
        for rn in _returns(g):
            v = rn.stmt.value
            if v is None or (isinstance(v, ast.Constant)):
                probs.append(f"`{unparse(rn.stmt)}` does not return the scope's object")
            elif _is_slot(v, f.node):
                pass
            elif isinstance(v, ast.Call) and call_name(v) == "self.registry.setdefault" and v.args and _is_scope_key(v.args[0], f.node):
                pass
            elif isinstance(v, ast.Name):
                stores = _slot_store_nodes(g, f.node, v.id)
                wit = g.always_preceded(rn.id, stores) if stores else ["no store"]
                if wit is not None:
                    probs.append(f"`return {v.id}` is reached without `{v.id}` having been stored into the current scope's slot "
                                 f"(the caller gets an object the registry does not hold; the next call creates another one)")
            else:
                probs.append(f"`{unparse(rn.stmt)[:60]}` is not the current slot's content")
        ctx.check(not probs, f"{ck}.__call__:returns-stored", "; ".join(probs), "every return hands out the slot's object", f.loc)
        # ---- has
        f = nform(ctx, ctx.method(ck, "has"))
        g = ctx.cfg(f)
        probs = []
        if _falls_off(g) is not None:
            probs.append("a path falls off the end (has() is None, i.e. always false)")
        for rn in _returns(g):
            v = _presence(rn.stmt.value, f.node) if rn.stmt.value is not None else None
            if rn.stmt.value is None or isinstance(rn.stmt.value, ast.Constant):
                probs.append(f"`{unparse(rn.stmt)}` is a constant, not the presence of the current scope's object")
            elif v is None and _whole_registry_use(rn.stmt.value, f.node):
                probs.append(f"`{unparse(rn.stmt.value)}` looks at the registry as a whole, not at the current scope's slot")
            elif v is None:
                ctx.error(f"{f.key}: presence test `{unparse(rn.stmt.value)}` not understood")
            elif v < 0:
                probs.append(f"`{unparse(rn.stmt.value)}` is the NEGATED presence test: remove() would skip close() for a live "
                             f"session and create one just to close it when there is none")
        ctx.check(not probs, f"{ck}.has:positive-presence", "; ".join(probs), "true iff the current slot is occupied", f.loc)
        # ---- set
        f = nform(ctx, ctx.method(ck, "set"))
        g = ctx.cfg(f)
        params = _param_names(f.node)
        ctx.require(len(params) == 2, f"{f.key}: expected set(self, obj)")
        stores = _slot_store_nodes(g, f.node, params[1])
        wit = g.must_pass([g.entry], [g.exit], stores, edge_ok=no_exc) if stores else ["no store"]
        ctx.check(wit is None, f"{ck}.set:stores-argument",
                  f"set({params[1]}) can return without having stored `{params[1]}` into the current scope's slot "
                  f"(a configured session handed out by scoped_session(**kw) would not be the scope's session)",
                  "argument stored on every path", f.loc)
        # ---- constructor wiring
        accessors = [ctx.index.resolve_method(cls, m) for m in ("__call__", "has", "set", "clear")]
        missing, reads = _uninitialised_reads(ctx, cls, [a for a in accessors if a is not None])
        probs = [f"self.{a} (read by {where}) is not assigned on every path of the constructor" for a, where in missing.items()]
        init = ctx.index.resolve_method(cls, "__init__")
        ctx.require(init is not None, f"{ck}: no __init__")
        if init.cls is cls:
            iparams = _param_names(init.node)[1:]
            expect = ["createfunc", "scopefunc"][:len(iparams)]
            for pos, attr in enumerate(expect):
                if attr not in reads:
                    continue
                vals = [n.value for n in walk_local(init.node) if isinstance(n, ast.Assign) and any(unparse(t) == f"self.{attr}" for t in n.targets)]
                sup = [c for c in calls_in(init.node) if call_name(c) == "super().__init__"]
                if vals and not all(isinstance(v, ast.Name) and v.id == iparams[pos] for v in vals):
                    probs.append(f"self.{attr} is assigned `{unparse(vals[0])}`, not constructor parameter #{pos + 1} `{iparams[pos]}` "
                                 f"(scoped_session passes the session factory first, the scope function second)")
                elif not vals and not sup and attr not in missing:
                    probs.append(f"self.{attr} is not assigned from the constructor parameter")
        ctx.check(not probs, f"{ck}.__init__:wiring", "; ".join(probs), f"initialises {sorted(reads)}", init.loc)


@R.rule("C52-R6", floor=8, template="T-PATH",
        desc="scoped_session/async_scoped_session.__call__: every return hands out a name that was either resolved "
             "from self.registry() or registered with self.registry.set(<it>) after being created by the factory with "
             "the keyword arguments; with keyword arguments and a session present the call raises; the keyword "
             "parameter selects the configure path; the constructor stores what the methods read")
def r6(ctx):
    for rel, cname in SCOPED:
        cls = ctx.index.cls(f"{rel}::{cname}")
        c = nform(ctx, ctx.func(f"{cls.key}.__call__"), temps=True)
        g = ctx.cfg(c)
        kwname = c.node.args.kwarg.arg if c.node.args.kwarg else None
        ctx.require(kwname is not None, f"{c.key}: no **kw parameter")
        # ---- returns-registered
        probs = []
        if _falls_off(g) is not None:
            probs.append("a path falls off the end (returns None)")
        for rn in _returns(g):
            v = rn.stmt.value
            if isinstance(v, ast.Call) and call_name(v) == "self.registry" and not v.args:
                continue
            if not isinstance(v, ast.Name):
                probs.append(f"`{unparse(rn.stmt)[:60]}` does not return the scope's session")
                continue
            through = []
            for n in g.nodes:
                if n.kind != "stmt":
                    continue
                st = n.stmt
                if isinstance(st, ast.Assign) and any(isinstance(t, ast.Name) and t.id == v.id for t in st.targets) \
                        and isinstance(st.value, ast.Call) and call_name(st.value) == "self.registry" and not st.value.args:
                    through.append(n.id)
                elif isinstance(st, ast.Expr) and isinstance(st.value, ast.Call) and call_name(st.value) == "self.registry.set" \
                        and len(st.value.args) == 1 and isinstance(st.value.args[0], ast.Name) and st.value.args[0].id == v.id:
                    through.append(n.id)
            wit = g.always_preceded(rn.id, through) if through else ["no registry()/registry.set()"]
            if wit is not None:
                probs.append(f"`return {v.id}` is reached without `{v.id}` coming from self.registry() or having been registered "
                             f"with self.registry.set({v.id}): the caller gets a session the scope does not own "
                             f"(path: {' -> '.join(wit[-3:])})")
            # rebinding after registration
            redefs = [n.id for n in g.nodes if n.kind == "stmt" and isinstance(n.stmt, (ast.Assign, ast.AugAssign, ast.AnnAssign))
                      and any(isinstance(t, ast.Name) and t.id == v.id for t in (n.stmt.targets if isinstance(n.stmt, ast.Assign) else [n.stmt.target]))
                      and n.id not in through]
            after = g.reachable(through, edge_ok=no_exc, include_starts=False) if through else set()
            if [i for i in redefs if i in after and rn.id in g.reachable([i], edge_ok=no_exc)]:
                probs.append(f"`{v.id}` is rebound after it was resolved/registered")
        ctx.check(not probs, f"{c.key}:returns-registered", "; ".join(probs), "returns registry() or the session just registered", c.loc)
        # ---- the registered object is the factory's product for these keyword arguments
        sets = [x for x in calls_in(c.node) if call_name(x) == "self.registry.set"]
        probs = []
        if not sets:
            probs.append("no self.registry.set(): a session configured with keyword arguments is never registered for the scope")
        for x in sets:
            a = x.args[0] if len(x.args) == 1 else None
            val = a
            if isinstance(a, ast.Name):
                defs = [n for n in g.nodes if n.kind == "stmt" and isinstance(n.stmt, ast.Assign)
                        and any(isinstance(t, ast.Name) and t.id == a.id for t in n.stmt.targets)]
                setn = g.nodes_containing(x)
                fac = [n.id for n in defs if isinstance(n.stmt.value, ast.Call) and call_name(n.stmt.value) == "self.session_factory"
                       and any(k.arg is None and isinstance(k.value, ast.Name) and k.value.id == kwname for k in n.stmt.value.keywords)]
                if not fac or any(g.always_preceded(i, fac) is not None for i in setn):
                    probs.append(f"self.registry.set({a.id}) does not always register the product of self.session_factory(**{kwname})")
            elif not (isinstance(val, ast.Call) and call_name(val) == "self.session_factory"):
                probs.append(f"self.registry.set(`{unparse(a) if a is not None else ''}`) is not fed by the session factory")
            if (kwname, True) not in _atoms_at(g, x):
                probs.append(f"self.registry.set() is not restricted to calls with keyword arguments (`if {kwname}:`)")
        for x in calls_in(c.node):
            if call_name(x) == "self.registry" and not x.args:
                if (kwname, True) in _atoms_at(g, x):
                    probs.append(f"self.registry() is resolved on the keyword-argument path: the arguments are silently ignored and "
                                 f"the plain call no longer returns the scope's session")
        ctx.check(not probs, f"{c.key}:kw-path-registers-factory-product", "; ".join(probs),
                  f"if {kwname}: set(session_factory(**{kwname})) else registry()", c.loc)
        # ---- conflict raises
        probs = []
        tests = []
        for n in g.nodes:
            if n.kind != "test":
                continue
            own = set(guard_atoms([(n.stmt.test, True)]))
            if not any(a == "self.registry.has()" for a, _ in own):
                continue
            dom = set(guard_atoms(g.edge_guards(n.id)))
            if (kwname, True) in dom and len(own) == 1:
                tests.append((n, ("self.registry.has()", True) in own))
            elif own == {(kwname, True), ("self.registry.has()", True)}:
                tests.append((n, True))
            elif (kwname, True) in dom or any(a == kwname for a, _ in own):
                ctx.error(f"{c.key}: combined test `{unparse(n.stmt.test)}` on registry.has() not understood")
        if not tests:
            probs.append(f"registry.has() is not consulted on the keyword-argument path: a present session would be replaced")
        for t, pol in tests:
            lab = "true" if pol else "false"
            starts = [b for b, l in g.succ[t.id] if l == lab]
            if g.exit in starts or g.witness(starts, [g.exit], edge_ok=no_exc) is not None:
                probs.append("with keyword arguments and a session already present the call returns normally instead of raising "
                             "(the arguments are dropped or the scope's live session is replaced)")
        ctx.check(not probs, f"{c.key}:kw-conflict-raises", "; ".join(probs), "has() under kw -> raise", c.loc)
        # ---- constructor stores what the methods read
        missing, reads = _uninitialised_reads(ctx, cls, [m for n, m in cls.methods.items() if n != "__init__"])
        init = ctx.func(f"{cls.key}.__init__")
        ctx.check(not missing, f"{init.key}:initialises-state",
                  "; ".join(f"self.{a} (read by {w}) is not assigned on every path of the constructor" for a, w in missing.items()),
                  f"initialises {sorted(reads)}", init.loc)


# -------------------------------------------------------------------------------------- self-test
R.mutant("scoped-call-check-then-assign", UC,
         sub("            return self.registry.setdefault(key, self.createfunc())  # type: ignore[no-any-return] # noqa: E501\n",
             "            self.registry[key] = obj = self.createfunc()\n            return obj\n"),
         "C52-R1")
R.mutant("scoped-has-any-scope", UC,
         sub("        return self.scopefunc() in self.registry\n", "        return bool(self.registry)\n"), "C52-R1")
R.mutant("scoped-set-constant-key", UC,
         sub("        self.registry[self.scopefunc()] = obj\n", "        self.registry[None] = obj\n"), "C52-R1")
R.mutant("threadlocal-has-inherited", UC,
         sub("    def has(self) -> bool:\n        return hasattr(self.registry, \"value\")\n\n", ""), "C52-R2")
R.mutant("threadlocal-registry-is-dict", UC,
         sub("        self.registry = threading.local()\n", "        self.registry = {}\n"), "C52-R2")
R.mutant("threadlocal-set-other-attr", UC,
         sub("        self.registry.value = obj\n", "        self.registry.__dict__.update(value=obj)\n"), "C52-R2")
R.mutant("remove-closes-unconditionally", "orm/scoping.py",
         sub("        if self.registry.has():\n            self.registry().close()\n        self.registry.clear()\n",
             "        self.registry().close()\n        self.registry.clear()\n"),
         "C52-R3")
R.mutant("remove-clear-only-if-present", "orm/scoping.py",
         sub("        if self.registry.has():\n            self.registry().close()\n        self.registry.clear()\n",
             "        if self.registry.has():\n            self.registry().close()\n            return\n        self.registry.clear()\n"),
         "C52-R3")
R.mutant("scoped-clear-whole-dict", UC,
         sub("        try:\n            del self.registry[self.scopefunc()]\n        except KeyError:\n            pass\n", "        self.registry.clear()\n"),
         "C52-R3")
R.mutant("async-remove-no-clear", "ext/asyncio/scoping.py",
         sub("            await self.registry().close()\n        self.registry.clear()\n", "            await self.registry().close()\n"), "C52-R3")
R.mutant("init-kinds-swapped", "orm/scoping.py",
         sub("        if scopefunc:\n            self.registry = ScopedRegistry(session_factory, scopefunc)\n        else:\n            self.registry = ThreadLocalRegistry(session_factory)\n",
             "        if not scopefunc:\n            self.registry = ScopedRegistry(session_factory, scopefunc)\n        else:\n            self.registry = ThreadLocalRegistry(session_factory)\n"),
         "C52-R4")
R.mutant("proxied-cached", "orm/scoping.py",
         sub("    @property\n    def _proxied(self) -> _S:\n        return self.registry()\n",
             "    @property\n    def _proxied(self) -> _S:\n        try:\n            return self._cached\n        except AttributeError:\n            self._cached = self.registry()\n            return self._cached\n"),
         "C52-R4")
R.mutant("call-kw-replaces-existing", "orm/scoping.py",
         sub("            if self.registry.has():\n                raise sa_exc.InvalidRequestError(\n                    \"Scoped session is already present; \"\n                    \"no new arguments may be specified.\"\n                )\n            else:\n                sess = self.session_factory(**kw)\n                self.registry.set(sess)\n",
             "            sess = self.session_factory(**kw)\n            self.registry.set(sess)\n"),
         "C52-R4")
# benign
R.mutant("benign-scoped-has-local-key", UC,
         sub("        return self.scopefunc() in self.registry\n", "        key = self.scopefunc()\n        return key in self.registry\n"), None)
R.mutant("benign-remove-local", "orm/scoping.py",
         sub("        if self.registry.has():\n            self.registry().close()\n        self.registry.clear()\n",
             "        present = self.registry.has()\n        if self.registry.has():\n            self.registry().close()\n        self.registry.clear()\n"),
         None)
R.mutant("benign-threadlocal-getattr", UC,
         sub("        return hasattr(self.registry, \"value\")\n", "        return getattr(self.registry, \"value\", None) is not None\n"), None)

# --- seeds (C52_1 is `scoped-call-check-then-assign` above)
_TL_BODY = (
    "    def __init__(self, createfunc: Callable[[], _T]):\n"
    "        self.createfunc = createfunc\n"
    "        self.registry = threading.local()\n"
    "\n"
    "    def __call__(self) -> _T:\n"
    "        try:\n"
    "            return self.registry.value  # type: ignore[no-any-return]\n"
    "        except AttributeError:\n"
    "            val = self.registry.value = self.createfunc()\n"
    "            return val\n"
    "\n"
    "    def has(self) -> bool:\n"
    "        return hasattr(self.registry, \"value\")\n"
    "\n"
    "    def set(self, obj: _T) -> None:\n"
    "        self.registry.value = obj\n"
    "\n"
    "    def clear(self) -> None:\n"
    "        try:\n"
    "            del self.registry.value\n"
    "        except AttributeError:\n"
    "            pass\n"
)
R.mutant("seed-threadlocal-becomes-scoped-on-get-ident", UC,
         sub(_TL_BODY, "    def __init__(self, createfunc: Callable[[], _T]):\n        super().__init__(createfunc, threading.get_ident)\n"),
         "C52-R2")
R.mutant("threadlocal-init-delegates-keeps-accessors", UC,
         sub("        self.createfunc = createfunc\n        self.registry = threading.local()\n",
             "        super().__init__(createfunc, threading.get_ident)\n"), "C52-R2")
# --- C52-R5: accessor contracts (survivors of the generic mutation sweep)
R.mutant("scoped-has-negated", UC,
         sub("        return self.scopefunc() in self.registry\n", "        return self.scopefunc() not in self.registry\n"), "C52-R5")
R.mutant("threadlocal-has-falls-off", UC,
         sub("        return hasattr(self.registry, \"value\")\n", "        hasattr(self.registry, \"value\")\n"), "C52-R5")
R.mutant("threadlocal-call-loses-store", UC,
         sub("            val = self.registry.value = self.createfunc()\n", "            val = self.createfunc()\n"), "C52-R5")
R.mutant("threadlocal-call-returns-none", UC,
         sub("            val = self.registry.value = self.createfunc()\n            return val\n",
             "            val = self.registry.value = self.createfunc()\n            return None\n"), "C52-R5")
R.mutant("threadlocal-set-loses-store", UC,
         sub("        self.registry.value = obj\n", "        pass\n"), "C52-R5")
R.mutant("scoped-set-stores-other-object", UC,
         sub("        self.registry[self.scopefunc()] = obj\n", "        self.registry[self.scopefunc()] = self.createfunc()\n"), "C52-R5")
R.mutant("scopedregistry-init-loses-scopefunc", UC,
         sub("        self.createfunc = createfunc\n        self.scopefunc = scopefunc\n", "        self.createfunc = createfunc\n"), "C52-R5")
R.mutant("scopedregistry-init-swaps-functions", UC,
         sub("        self.createfunc = createfunc\n        self.scopefunc = scopefunc\n",
             "        self.createfunc = scopefunc\n        self.scopefunc = createfunc\n"), "C52-R5")
# --- C52-R6: scoped_session.__call__
R.mutant("call-kw-session-not-registered", "orm/scoping.py",
         sub("                sess = self.session_factory(**kw)\n                self.registry.set(sess)\n",
             "                sess = self.session_factory(**kw)\n"), "C52-R6")
R.mutant("async-call-kw-session-not-registered", "ext/asyncio/scoping.py",
         sub("                sess = self.session_factory(**kw)\n                self.registry.set(sess)\n",
             "                sess = self.session_factory(**kw)\n"), "C52-R6")
R.mutant("call-returns-none", "orm/scoping.py", sub("        return sess\n", "        return None\n"), "C52-R6")
R.mutant("async-call-falls-off", "ext/asyncio/scoping.py", sub("        return sess\n", "        sess\n"), "C52-R6")
R.mutant("call-kw-conflict-no-raise", "orm/scoping.py",
         sub("                raise sa_exc.InvalidRequestError(\n                    \"Scoped session is already present; \"\n                    \"no new arguments may be specified.\"\n                )\n            else:\n                sess = self.session_factory(**kw)\n",
             "                sess = self.registry()\n            else:\n                sess = self.session_factory(**kw)\n"), "C52-R6")
R.mutant("call-kw-test-negated", "orm/scoping.py", sub("        if kw:\n", "        if not kw:\n"), "C52-R6")
R.mutant("async-call-registers-unconfigured-session", "ext/asyncio/scoping.py",
         sub("                sess = self.session_factory(**kw)\n", "                sess = self.session_factory()\n"), "C52-R6")
R.mutant("init-loses-session-factory", "orm/scoping.py",
         sub("        self.session_factory = session_factory\n\n        if scopefunc:\n", "        if scopefunc:\n"), "C52-R6")
# benign
R.mutant("benign-call-raise-without-else", "orm/scoping.py",
         sub("                )\n            else:\n                sess = self.session_factory(**kw)\n                self.registry.set(sess)\n",
             "                )\n            sess = self.session_factory(**kw)\n            self.registry.set(sess)\n"), None)
R.mutant("benign-call-plain-path-first", "ext/asyncio/scoping.py",
         sub("        if kw:\n            if self.registry.has():\n                raise sa_exc.InvalidRequestError(\n                    \"Scoped session is already present; \"\n                    \"no new arguments may be specified.\"\n                )\n            else:\n                sess = self.session_factory(**kw)\n                self.registry.set(sess)\n        else:\n            sess = self.registry()\n",
             "        if not kw:\n            sess = self.registry()\n        elif self.registry.has():\n            raise sa_exc.InvalidRequestError(\n                \"Scoped session is already present; \"\n                \"no new arguments may be specified.\"\n            )\n        else:\n            sess = self.session_factory(**kw)\n            self.registry.set(sess)\n"),
         None)
R.mutant("benign-threadlocal-call-separate-store", UC,
         sub("            val = self.registry.value = self.createfunc()\n            return val\n",
             "            val = self.createfunc()\n            self.registry.value = val\n            return val\n"), None)
R.mutant("benign-scoped-has-get-is-not-none", UC,
         sub("        return self.scopefunc() in self.registry\n", "        return self.registry.get(self.scopefunc()) is not None\n"), None)
R.mutant("benign-threadlocal-set-renamed-param", UC,
         sub("    def set(self, obj: _T) -> None:\n        self.registry.value = obj\n", "    def set(self, value: _T) -> None:\n        self.registry.value = value\n"), None)
R.mutant("benign-scoped-call-created-object-local", UC,
         sub("            return self.registry.setdefault(key, self.createfunc())  # type: ignore[no-any-return] # noqa: E501\n",
             "            obj = self.createfunc()\n            return self.registry.setdefault(key, obj)\n"), None)
R.mutant("scoped-call-setdefault-foreign-default", UC,
         sub("            return self.registry.setdefault(key, self.createfunc())  # type: ignore[no-any-return] # noqa: E501\n",
             "            return self.registry.setdefault(key, self.scopefunc())\n"), "C52-R1")

# ---- robustify (rob-H1): behaviour-preserving refactorings that must stay silent, and the same shapes broken
_CALL_OLD = ("        if kw:\n            if self.registry.has():\n                raise sa_exc.InvalidRequestError(\n"
             "                    \"Scoped session is already present; \"\n                    \"no new arguments may be specified.\"\n"
             "                )\n            else:\n                sess = self.session_factory(**kw)\n                self.registry.set(sess)\n"
             "        else:\n            sess = self.registry()\n")


def _call_new(register="            registry.set(sess)\n", test="registry.has()"):
    return ("        registry = self.registry\n        if not kw:\n            sess = registry()\n        else:\n"
            f"            if {test}:\n                raise sa_exc.InvalidRequestError(\n"
            "                    \"Scoped session is already present; \"\n                    \"no new arguments may be specified.\"\n"
            "                )\n            sess = self.session_factory(**kw)\n" + register)


_REMOVE_OLD = "        if self.registry.has():\n            self.registry().close()\n        self.registry.clear()\n"
_SRCALL_OLD = ("        key = self.scopefunc()\n        try:\n            return self.registry[key]  # type: ignore[no-any-return]\n"
               "        except KeyError:\n            return self.registry.setdefault(key, self.createfunc())  # type: ignore[no-any-return] # noqa: E501\n")


def _srcall_new(helper_body):
    return ("        scope_key = self.scopefunc()\n        try:\n            return self.registry[scope_key]\n"
            "        except KeyError:\n            return self._create_for_scope(scope_key)\n\n"
            "    def _create_for_scope(self, scope_key: Any) -> _T:\n" + helper_body)


# rfH_5: registry alias, inverted if/else on kw, dropped else after raise, registry().close() split with a named local
R.mutant("benign-rob-call-registry-alias-inverted-kw-test", "orm/scoping.py", sub(_CALL_OLD, _call_new()), None)
R.mutant("benign-rob-remove-registry-alias-named-session", "orm/scoping.py",
         sub(_REMOVE_OLD, "        registry = self.registry\n        if registry.has():\n            current = registry()\n            current.close()\n"
                          "        registry.clear()\n"), None)
R.mutant("benign-rob-remove-early-return-when-absent", "orm/scoping.py",
         sub(_REMOVE_OLD, "        if not self.registry.has():\n            self.registry.clear()\n            return\n"
                          "        self.registry().close()\n        self.registry.clear()\n"), None)
R.mutant("benign-rob-async-call-presence-in-local", "ext/asyncio/scoping.py",
         sub("        if kw:\n            if self.registry.has():\n", "        if kw:\n            present = self.registry.has()\n            if present:\n"), None)
R.mutant("benign-rob-init-registry-kind-inverted-none-test", "orm/scoping.py",
         sub("        if scopefunc:\n            self.registry = ScopedRegistry(session_factory, scopefunc)\n        else:\n            self.registry = ThreadLocalRegistry(session_factory)\n",
             "        if scopefunc is None:\n            self.registry = ThreadLocalRegistry(session_factory)\n        else:\n            self.registry = ScopedRegistry(session_factory, scopefunc)\n"),
         None)
R.mutant("rob-remove-alias-closes-unconditionally", "orm/scoping.py",
         sub(_REMOVE_OLD, "        registry = self.registry\n        current = registry()\n        current.close()\n        registry.clear()\n"), "C52-R3")
R.mutant("rob-remove-alias-closes-other-object", "orm/scoping.py",
         sub(_REMOVE_OLD, "        registry = self.registry\n        if registry.has():\n            current = self.session_factory()\n            current.close()\n"
                          "        registry.clear()\n"), "C52-R3")
R.mutant("rob-call-alias-session-not-registered", "orm/scoping.py", sub(_CALL_OLD, _call_new(register="")), "C52-R6")
R.mutant("rob-call-alias-conflict-test-negated", "orm/scoping.py", sub(_CALL_OLD, _call_new(test="not registry.has()")), "C52-R6")
R.mutant("rob-init-registry-kind-none-test-not-inverted", "orm/scoping.py",
         sub("        if scopefunc:\n            self.registry = ScopedRegistry(session_factory, scopefunc)\n        else:\n            self.registry = ThreadLocalRegistry(session_factory)\n",
             "        if scopefunc is not None:\n            self.registry = ThreadLocalRegistry(session_factory)\n        else:\n            self.registry = ScopedRegistry(session_factory, scopefunc)\n"),
         "C52-R4")
# rfH_6: KeyError fallback of ScopedRegistry.__call__ extracted into a helper; chained assignment split
R.mutant("benign-rob-scoped-call-create-in-helper", UC,
         sub(_SRCALL_OLD, _srcall_new("        registry = self.registry\n        return registry.setdefault(scope_key, self.createfunc())\n")), None)
R.mutant("benign-rob-scoped-key-getter", UC,
         chain(sub("        return self.scopefunc() in self.registry\n", "        return self._key() in self.registry\n"),
               sub("        self.registry[self.scopefunc()] = obj\n", "        self.registry[self._key()] = obj\n"),
               sub("    def has(self) -> bool:\n        \"\"\"Return True if an object is present in the current scope.\"\"\"\n",
                   "    def _key(self) -> Any:\n        return self.scopefunc()\n\n    def has(self) -> bool:\n"
                   "        \"\"\"Return True if an object is present in the current scope.\"\"\"\n")), None)
R.mutant("benign-rob-threadlocal-call-registry-alias", UC,
         sub("        try:\n            return self.registry.value  # type: ignore[no-any-return]\n        except AttributeError:\n"
             "            val = self.registry.value = self.createfunc()\n            return val\n",
             "        slot = self.registry\n        try:\n            return slot.value\n        except AttributeError:\n"
             "            created = self.createfunc()\n            slot.value = created\n            return created\n"), None)
R.mutant("rob-scoped-call-helper-check-then-assign", UC,
         sub(_SRCALL_OLD, _srcall_new("        obj = self.createfunc()\n        self.registry[scope_key] = obj\n        return obj\n")), "C52-R1")
R.mutant("rob-scoped-call-helper-foreign-key", UC,
         sub(_SRCALL_OLD, _srcall_new("        return self.registry.setdefault(id(self), self.createfunc())\n")), "C52-R1")
R.mutant("rob-scoped-call-helper-returns-unstored", UC,
         sub(_SRCALL_OLD, _srcall_new("        self.registry.setdefault(scope_key, self.createfunc())\n        return self.createfunc()\n")), "C52-R5")
R.mutant("rob-scoped-key-getter-constant", UC,
         chain(sub("        self.registry[self.scopefunc()] = obj\n", "        self.registry[self._key()] = obj\n"),
               sub("    def has(self) -> bool:\n        \"\"\"Return True if an object is present in the current scope.\"\"\"\n",
                   "    def _key(self) -> Any:\n        return None\n\n    def has(self) -> bool:\n"
                   "        \"\"\"Return True if an object is present in the current scope.\"\"\"\n")), "C52-R1")

# ---- round-2 seeds (str2-v)
_INIT_OLD = ("        if scopefunc:\n            self.registry = ScopedRegistry(session_factory, scopefunc)\n        else:\n"
             "            self.registry = ThreadLocalRegistry(session_factory)\n")
# C52_3: default scope keyed on the (recycled) thread identifier in a plain ScopedRegistry  -> C52-R4 (caught as is)
R.mutant("seed2-init-default-scope-keyed-on-thread-ident", "orm/scoping.py",
         chain(sub("from typing import Any\n", "import threading\nfrom typing import Any\n", count=1),
               sub(_INIT_OLD, "        self.registry = ScopedRegistry(\n            session_factory, scopefunc or threading.get_ident\n        )\n")),
         "C52-R4")
R.mutant("init-else-branch-scoped-on-thread-ident", "orm/scoping.py",
         chain(sub("from typing import Any\n", "import threading\nfrom typing import Any\n", count=1),
               sub("            self.registry = ThreadLocalRegistry(session_factory)\n",
                   "            self.registry = ScopedRegistry(session_factory, threading.get_ident)\n")), "C52-R4")
R.mutant("init-conditional-expression-kinds-swapped", "orm/scoping.py",
         sub(_INIT_OLD, "        self.registry = (\n            ThreadLocalRegistry(session_factory)\n            if scopefunc\n"
                        "            else ScopedRegistry(session_factory, scopefunc)\n        )\n"), "C52-R4")
R.mutant("benign-init-registry-kind-conditional-expression", "orm/scoping.py",
         sub(_INIT_OLD, "        self.registry = (\n            ScopedRegistry(session_factory, scopefunc)\n            if scopefunc\n"
                        "            else ThreadLocalRegistry(session_factory)\n        )\n"), None)
R.mutant("benign-init-registry-kind-early-return", "orm/scoping.py",
         sub(_INIT_OLD, "        if not scopefunc:\n            self.registry = ThreadLocalRegistry(session_factory)\n            return\n"
                        "        self.registry = ScopedRegistry(session_factory, scopefunc)\n"), None)
# C52_4: remove() closes the present session only under a further condition  -> C52-R3 (close on every path when present)
R.mutant("seed2-remove-closes-only-in-transaction", "orm/scoping.py",
         sub(_REMOVE_OLD, "        if self.registry.has():\n            sess = self.registry()\n            if sess.in_transaction():\n"
                          "                sess.close()\n        self.registry.clear()\n"), "C52-R3")
R.mutant("remove-close-needs-second-condition-in-same-test", "orm/scoping.py",
         sub(_REMOVE_OLD, "        if self.registry.has() and self.registry().is_active:\n            self.registry().close()\n"
                          "        self.registry.clear()\n"), "C52-R3")
R.mutant("async-remove-early-return-skips-close", "ext/asyncio/scoping.py",
         sub("        if self.registry.has():\n            await self.registry().close()\n        self.registry.clear()\n",
             "        if self.registry.has():\n            sess = self.registry()\n            if not sess.in_transaction():\n"
             "                self.registry.clear()\n                return\n            await sess.close()\n        self.registry.clear()\n"), "C52-R3")
R.mutant("remove-close-in-helper-with-extra-condition", "orm/scoping.py",
         sub(_REMOVE_OLD, "        if self.registry.has():\n            self._close_current()\n        self.registry.clear()\n\n"
                          "    def _close_current(self) -> None:\n        sess = self.registry()\n        if sess.dirty:\n            sess.close()\n"),
         "C52-R3")
R.mutant("benign-remove-close-in-helper", "orm/scoping.py",
         sub(_REMOVE_OLD, "        if self.registry.has():\n            self._close_current()\n        self.registry.clear()\n\n"
                          "    def _close_current(self) -> None:\n        sess = self.registry()\n        sess.close()\n"), None)
R.mutant("benign-remove-inverted-branch-none-check", "orm/scoping.py",
         sub(_REMOVE_OLD, "        if not self.registry.has():\n            pass\n        else:\n            sess = self.registry()\n"
                          "            if sess is not None:\n                sess.close()\n        self.registry.clear()\n"), None)
R.mutant("benign-async-remove-presence-local-nested", "ext/asyncio/scoping.py",
         sub("        if self.registry.has():\n            await self.registry().close()\n        self.registry.clear()\n",
             "        present = self.registry.has()\n        if present:\n            current = self.registry()\n"
             "            await current.close()\n        self.registry.clear()\n"), None)
