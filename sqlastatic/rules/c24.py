"""C24 -- Pooled connections carry no state from a previous checkout (reset-before-return)."""

from __future__ import annotations

import ast

from ..astutil import call_name, calls_in, dotted, name_stores, test_atoms, unparse, walk_local
from ..cfg import no_exc
from ..report import Registry, sub
from ._helpers_rules_c import (
    PathSense, both, call_nodes, calls_ending, cut_edges, cut_normal_out, is_true, kw_or_pos,
    loc_of, must_pass, own_calls, rcfg, test_edges,
)

R = Registry(
    "C24",
    title="Pooled connections carry no state from a previous checkout",
    decides=(
        "reset-before-return shape of the check-in path: _finalize_fairy resets (or invalidates) before "
        "every check-in of a live connection; _ConnectionFairy._reset rolls back / commits under the "
        "configured reset style and skips only when the transaction was already reset; Connection.close "
        "claims transaction_reset only after closing its transaction; every connection characteristic "
        "that is set has a registered reset finaliser which check-in drains before returning the record."
    ),
    not_decided="backend-visible transaction / isolation state; custom reset event handlers; reset_on_return=None.",
)

POOL = "pool/base.py"
ENG = "engine/base.py"
DEF = "engine/default.py"
CHR = "engine/characteristics.py"


# ---------------------------------------------------------------------- C24-R1 (shared with C26-R5)
def finalize_fairy_reset(ctx):
    f = ctx.func(f"{POOL}::_finalize_fairy")
    g = rcfg(ctx, f)
    ps = PathSense(g)
    ctx.require(len(f.params) >= 2, "_finalize_fairy lost its (dbapi_connection, connection_record) parameters")
    dbapi, rec = f.params[0], f.params[1]
    checkin = call_nodes(g, lambda nm, c: nm == f"{rec}.checkin")
    reset = calls_ending(g, "_reset")
    inval = call_nodes(g, lambda nm, c: nm == f"{rec}.invalidate")
    ctx.require(checkin, f"no {rec}.checkin() call in _finalize_fairy")
    ctx.require(reset, "no ._reset() call in _finalize_fairy")
    live = test_edges(g, lambda t, p: t == f"{dbapi} is None" and p is False)
    ctx.require(live, f"no `{dbapi} is not None` branch in _finalize_fairy")
    live_tests = {a for a, _, _ in live}
    # (a) a live connection reaches check-in only after a completed reset or an invalidation
    w = None
    for n in checkin:
        w = g.always_preceded(n, live_tests)
        if w:
            break
    key = f.key + ":reset-before-checkin"
    if w:
        ctx.violation(key, f"check-in is reachable without testing whether {dbapi} is live", f.loc, w)
    else:
        w = ps.witness([b for _, _, b in live], checkin, avoid=inval, edge_ok=cut_normal_out(reset))
        # the start nodes themselves may be reset nodes: witness() does not test starts against avoid
        ctx.check(w is None, key,
                  "a live connection can be checked in without a completed reset and without being invalidated",
                  "every path live-connection -> checkin passes a completed _reset() or record.invalidate()", f.loc, w)
    # (b) an exception out of _reset reaches check-in only through invalidate
    w = ps.witness(reset, checkin, avoid=inval, start_edge_ok=lambda a, b, lab: lab == "exc")
    ctx.check(w is None, f.key + ":reset-failure-invalidates",
              "an exception raised by _reset() can reach checkin() without record.invalidate()",
              "reset failure -> invalidate(e) -> checkin", f.loc, w)
    # (c) the invalidation receives the caught exception and happens for every exception class
    hs = [n for n in g.nodes if n.kind == "handler" and set(g.reachable([n.id], edge_ok=no_exc)) & set(inval)]
    ok = bool(hs)
    for h in hs:
        t = h.stmt.type
        tn = dotted(t) if t is not None else "BaseException"
        if tn is None or tn.split(".")[-1] != "BaseException":
            ok = False
    ctx.check(ok, f.key + ":handler-catches-all",
              "the handler that invalidates after a failed reset does not catch BaseException "
              "(a cancelled / interrupted reset would skip invalidation)",
              "except BaseException -> invalidate", f.loc)


@R.rule("C24-R1", floor=3, template="T-PATH",
        desc="_finalize_fairy: a live connection is reset (or its record invalidated) before every "
             "check-in; a failing reset leads to record.invalidate(e) before check-in")
def r1(ctx):
    finalize_fairy_reset(ctx)


# ---------------------------------------------------------------------- C24-R2
def _style_edges(g, style):
    def pred(t, p):
        if not p or " is " not in t:
            return False
        left, _, right = t.partition(" is ")
        return left.endswith("_reset_on_return") and right.split(".")[-1] == style
    return test_edges(g, pred)


@R.rule("C24-R2", floor=3, template="T-GUARD",
        desc="_ConnectionFairy._reset: under reset_rollback do_rollback is skipped only when "
             "transaction_was_reset; under reset_commit do_commit runs; the reset event is dispatched "
             "on every call")
def r2(ctx):
    f = ctx.func(f"{POOL}::_ConnectionFairy._reset")
    g = ctx.cfg(f)
    ctx.require("transaction_was_reset" in f.params and "asyncio_safe" in f.params,
                "_reset lost its transaction_was_reset / asyncio_safe parameters")
    rb = calls_ending(g, "do_rollback")
    cm = calls_ending(g, "do_commit")
    # rollback
    e_rb = _style_edges(g, "reset_rollback")
    ctx.require(e_rb, "no `_reset_on_return is reset_rollback` branch in _reset")
    skip = test_edges(g, lambda t, p: t == "transaction_was_reset" and p is True)
    w = must_pass(g, [b for _, _, b in e_rb], [g.exit], rb, edge_ok=both(no_exc, cut_edges(skip)))
    ctx.check(w is None, f.key + ":rollback",
              "under reset_rollback a path returns without do_rollback() although the transaction was not reset",
              "reset_rollback: do_rollback unless transaction_was_reset", f.loc, w)
    # commit
    e_cm = _style_edges(g, "reset_commit")
    ctx.require(e_cm, "no `_reset_on_return is reset_commit` branch in _reset")
    w = must_pass(g, [b for _, _, b in e_cm], [g.exit], cm, edge_ok=no_exc)
    ctx.check(w is None, f.key + ":commit", "under reset_commit a path returns without do_commit()",
              "reset_commit: do_commit on every path", f.loc, w)
    # reset event on every call (an empty listener collection needs no dispatch)
    disp = call_nodes(g, lambda nm, c: nm.endswith("dispatch.reset"))
    ctx.require(disp, "no dispatch.reset(...) call in _reset")
    empty = test_edges(g, lambda t, p: t.endswith("dispatch.reset") and p is False)
    w = must_pass(g, [g.entry], [g.exit], disp, edge_ok=both(no_exc, cut_edges(empty)))
    ctx.check(w is None, f.key + ":reset-event",
              "a path through _reset returns without dispatching the reset event although listeners exist",
              "dispatch.reset on every call", f.loc, w)


# ---------------------------------------------------------------------- C24-R3
@R.rule("C24-R3", floor=2, template="T-GUARD",
        desc="Connection.close: _close_special(transaction_reset=True) only after self._transaction.close(); "
             "otherwise the pooled connection is closed with a full reset")
def r3(ctx):
    f = ctx.func(f"{ENG}::Connection.close")
    g = ctx.cfg(f)
    ps = PathSense(g)
    special = call_nodes(
        g, lambda nm, c: nm.endswith("._close_special") and is_true(kw_or_pos(c, "transaction_reset", 0) or ast.Constant(False)))
    tclose = call_nodes(g, lambda nm, c: nm == "self._transaction.close")
    ctx.require(special, "no _close_special(transaction_reset=True) call in Connection.close")
    w = ps.witness([g.entry], special, avoid=tclose)
    ctx.check(w is None, f.key + ":transaction_reset",
              "_close_special(transaction_reset=True) is reachable without self._transaction.close() having run "
              "(the pool would skip its rollback on a connection that still has a transaction)",
              "transaction_reset=True only after self._transaction.close()", f.loc, w)
    # the path without a transaction releases the pooled connection through a resetting close()
    conn_names = {n for n, v, _ in name_stores(f.node) if v is not None and dotted(v) == "self._dbapi_connection"}
    full = call_nodes(
        g, lambda nm, c: nm == "self._dbapi_connection.close"
        or (nm.endswith(".close") and nm.rsplit(".", 1)[0] in conn_names))
    notrans = test_edges(g, lambda t, p: t == "self._transaction" and p is False)
    ctx.require(notrans, "no `if self._transaction` branch in Connection.close")
    gone = test_edges(g, lambda t, p: t == "self._dbapi_connection is None" and p is True)
    w = ps.witness([b for _, _, b in notrans], [g.exit], avoid=full + special, edge_ok=both(no_exc, cut_edges(gone)))
    w2 = ps.witness([b for _, _, b in notrans], special)
    ctx.check(w is None and w2 is None, f.key + ":plain-close",
              "without an open transaction the pooled connection is not released through close() (full reset)",
              "no transaction -> conn.close() (reset with transaction_was_reset=False)", f.loc, w or w2)


# ---------------------------------------------------------------------- C24-R4
@R.rule("C24-R4", floor=5, template="T-PATH",
        desc="every set_connection_characteristic is paired with a registered _reset_characteristics "
             "finaliser (also when a later characteristic fails); checkin drains finalize_callback before "
             "_return_conn; __close clears it")
def r4(ctx):
    f = ctx.func(f"{DEF}::DefaultDialect._set_connection_characteristics")
    g = ctx.cfg(f)
    setc = calls_ending(g, "set_connection_characteristic")
    ctx.require(setc, "no set_connection_characteristic() call in _set_connection_characteristics")

    def is_register(nm, c):
        if not nm.endswith("finalize_callback.append") and not nm.endswith("finalize_callback.appendleft"):
            return False
        return any(isinstance(x, ast.Attribute) and x.attr == "_reset_characteristics" for a in c.args for x in ast.walk(a))
    reg = call_nodes(g, is_register)
    # registered on every normal path after the set call, or already registered before any set call runs
    pending = [n for n in setc if not reg or g.always_preceded(n, reg) is not None]
    w = (must_pass(g, pending, [g.exit], reg, edge_ok=no_exc) if pending else None) if reg \
        else ['no finaliser registration at all']
    ctx.check(bool(reg) and w is None, f.key + ":finaliser-registered",
              "a path sets a connection characteristic and returns without registering the "
              "_reset_characteristics finaliser on the connection record",
              "set_connection_characteristic -> finalize_callback.append(partial(_reset_characteristics))", f.loc, w)
    # exceptional exit after at least one characteristic was set: the finaliser must already be registered
    # (the first set call has nothing to undo if it raises itself; a later one leaves earlier settings behind)
    if reg:
        bad = None
        for n in setc:
            if g.always_preceded(n, reg) is None:
                continue
            # can this node run again after having completed once (loop) and then raise?
            again = n in g.reachable([b for b, lab in g.succ[n] if lab != "exc"], avoid=reg, edge_ok=no_exc)
            later = [m for m in setc if m != n and m in g.reachable([b for b, lab in g.succ[n] if lab != "exc"], avoid=reg, edge_ok=no_exc)]
            if again or later:
                src = [n] if again else later
                bad = g.must_pass(src, [g.raise_exit], reg, start_edge_ok=lambda a, b, lab: lab == "exc")
                if bad:
                    bad = ["(after a previous set_connection_characteristic completed)"] + bad
                    break
        ctx.check(bad is None, f.key + ":finaliser-on-error",
                  "when a later set_connection_characteristic() raises, characteristics already set on the DBAPI "
                  "connection have no reset finaliser registered: the connection returns to the pool with them",
                  "finaliser registered before any characteristic can be left set", f.loc, bad)
    # checkin drains the callbacks before returning the record
    fc = ctx.func(f"{POOL}::_ConnectionRecord.checkin")
    gc_ = ctx.cfg(fc)
    ret = calls_ending(gc_, "_return_conn")
    ctx.require(ret, "no _return_conn() call in _ConnectionRecord.checkin")
    drained = True
    for n in ret:
        atoms = []
        for t, pol in gc_.edge_guards(n):
            atoms.extend(test_atoms(t, pol))
        if ("self.finalize_callback", False) not in atoms:
            drained = False
    ctx.check(drained, fc.key + ":drain-before-return",
              "_return_conn() is reachable while finalize_callback may still hold finalisers",
              "_return_conn dominated by `finalize_callback` empty", fc.loc)
    # each popped finaliser is invoked (on a live connection)
    popped = {n for n, v, _ in name_stores(fc.node)
              if isinstance(v, ast.Call) and (call_name(v) or "").rsplit(".", 1)[0].endswith("finalize_callback")
              and (call_name(v) or "").rsplit(".", 1)[-1] in ("pop", "popleft")}
    ctx.require(popped, "checkin does not pop finalisers from finalize_callback")
    pops = call_nodes(gc_, lambda nm, c: nm.endswith("finalize_callback.pop") or nm.endswith("finalize_callback.popleft"))
    invoke = call_nodes(gc_, lambda nm, c: nm in popped)
    conn_names = {n for n, v, _ in name_stores(fc.node) if v is not None and dotted(v) == "self.dbapi_connection"}
    dead = test_edges(gc_, lambda t, p: p is True and t.endswith(" is None")
                      and (t[:-8] in conn_names or t[:-8] == "self.dbapi_connection"))
    loop_heads = [n.id for n in gc_.nodes if n.kind == "test" and isinstance(n.stmt, ast.While)]
    w = must_pass(gc_, pops, loop_heads + [gc_.exit], invoke, edge_ok=both(no_exc, cut_edges(dead)))
    ctx.check(bool(invoke) and w is None, fc.key + ":finaliser-invoked",
              "a finaliser popped from finalize_callback is dropped without being called on a live connection",
              "every popped finaliser is called with the DBAPI connection", fc.loc, w)
    # __close discards pending finalisers (the connection they would reset is gone)
    fx = ctx.func(f"{POOL}::_ConnectionRecord.__close")
    gx = ctx.cfg(fx)
    clr = call_nodes(gx, lambda nm, c: nm.endswith("finalize_callback.clear"))
    w = must_pass(gx, [gx.entry], [gx.exit], clr, edge_ok=no_exc)
    ctx.check(bool(clr) and w is None, fx.key + ":clear",
              "__close can complete without clearing finalize_callback (stale finalisers would run on the next connection)",
              "finalize_callback.clear() on every normal path", fx.loc, w)


# ---------------------------------------------------------------------- C24-R5
def _is_abstract_or_unimplemented(fi) -> bool:
    if any(d.split(".")[-1] == "abstractmethod" for d in fi.decorators):
        return True
    body = [s for s in fi.node.body if not (isinstance(s, ast.Expr) and isinstance(s.value, ast.Constant))]
    if len(body) == 1 and isinstance(body[0], ast.Raise):
        nm = body[0].exc
        if isinstance(nm, ast.Call):
            nm = nm.func
        return (dotted(nm) or "").split(".")[-1] == "NotImplementedError"
    return False


@R.rule("C24-R5", floor=8, template="T-EXHAUST",
        desc="every ConnectionCharacteristic subclass implements a working set_connection_characteristic "
             "and reset_characteristic; every connection_characteristics entry is such a class")
def r5(ctx):
    ix = ctx.index
    base = ix.cls(f"{CHR}::ConnectionCharacteristic")
    subs = ix.subclasses(base)
    ctx.require(subs, "no ConnectionCharacteristic subclasses found")
    base_setconn = base.methods.get("set_connection_characteristic")
    ctx.require(base_setconn is not None, "ConnectionCharacteristic.set_connection_characteristic missing")
    delegates = {(call_name(c) or "") for c in calls_in(base_setconn.node)}
    ctx.require("self.set_characteristic" in delegates,
                "base set_connection_characteristic no longer delegates to self.set_characteristic")
    good = set()
    for c in subs:
        problems = []
        rs = ix.resolve_method(c, "reset_characteristic")
        if rs is None or _is_abstract_or_unimplemented(rs):
            problems.append("reset_characteristic is not implemented")
        sc = ix.resolve_method(c, "set_connection_characteristic")
        if sc is None or _is_abstract_or_unimplemented(sc):
            problems.append("set_connection_characteristic is not implemented")
        elif sc is base_setconn:
            s2 = ix.resolve_method(c, "set_characteristic")
            if s2 is None or _is_abstract_or_unimplemented(s2):
                problems.append("set_characteristic (used by the inherited set_connection_characteristic) is not implemented")
        if not problems:
            good.add(c)
        ctx.check(not problems, c.key, "; ".join(problems), "set + reset implemented", c.loc)
    # tables
    dialect = ix.cls(f"{DEF}::DefaultDialect")
    n_entries = 0
    for c in [dialect] + ix.subclasses(dialect):
        for val in c.assigns.get("connection_characteristics", []):
            for d in [x for x in ast.walk(val) if isinstance(x, ast.Dict)]:
                for k, v in zip(d.keys, d.values):
                    ctx.require(k is not None and isinstance(k, ast.Constant) and isinstance(k.value, str),
                                f"{c.key}.connection_characteristics: non-literal key {unparse(k) if k else '**'}")
                    key = f"{c.key}.connection_characteristics[{k.value}]"
                    n_entries += 1
                    tgt = None
                    if isinstance(v, ast.Call) and dotted(v.func):
                        tgt = ix.resolve(c.module, dotted(v.func))
                    ctx.check(tgt in good, key,
                              f"entry `{unparse(v)}` is not an instance of a ConnectionCharacteristic class with set+reset",
                              f"-> {getattr(tgt, 'name', '?')}", f"{c.module.path}:{v.lineno}")
    ctx.require(n_entries, "no connection_characteristics dict entries found")


# ---------------------------------------------------------------------- self-test battery
_RESET_CALL = (
    "            fairy._reset(\n"
    "                pool,\n"
    "                transaction_was_reset=transaction_was_reset,\n"
    "                terminate_only=detach,\n"
    "                asyncio_safe=can_manipulate_connection,\n"
    "            )\n"
)
R.mutant("finalize-reset-only-when-detached", POOL,
         sub(_RESET_CALL + "\n            if detach:\n",
             "            if detach:\n" + _RESET_CALL.replace("            ", "                ")), "C24-R1")
R.mutant("finalize-no-invalidate-on-reset-error", POOL,
         sub("            if connection_record:\n                connection_record.invalidate(e=e)\n            if not isinstance(e, Exception):\n                raise\n        finally:",
             "            if not isinstance(e, Exception):\n                raise\n        finally:"), "C24-R1")
R.mutant("finalize-invalidate-only-when-echo", POOL,
         sub("            if connection_record:\n                connection_record.invalidate(e=e)\n            if not isinstance(e, Exception):",
             "            if connection_record and echo:\n                connection_record.invalidate(e=e)\n            if not isinstance(e, Exception):"), "C24-R1")
R.mutant("finalize-handler-except-exception", POOL,
         sub("        except BaseException as e:\n            pool.logger.error(\n                \"Exception during reset or similar\"",
             "        except Exception as e:\n            pool.logger.error(\n                \"Exception during reset or similar\""), "C24-R1")
R.mutant("reset-rollback-only-when-echo", POOL,
         sub("                        self.dbapi_connection,\n                    )\n                pool._dialect.do_rollback(self)\n",
             "                        self.dbapi_connection,\n                    )\n                    pool._dialect.do_rollback(self)\n"), "C24-R2")
R.mutant("reset-rollback-condition-flipped", POOL,
         sub("            if transaction_was_reset:\n                if self._echo:", "            if not transaction_was_reset:\n                if self._echo:"), "C24-R2")
R.mutant("reset-commit-dropped", POOL,
         sub("            pool._dialect.do_commit(self)\n", "            pass\n"), "C24-R2")
R.mutant("reset-event-skipped-when-not-asyncio-safe", POOL,
         sub("        if pool.dispatch.reset:\n            pool.dispatch.reset(", "        if pool.dispatch.reset and asyncio_safe:\n            pool.dispatch.reset("), "C24-R2")
R.mutant("close-skip-reset-always", ENG,
         sub("            skip_reset = True\n        else:\n            skip_reset = False\n", "            skip_reset = True\n        else:\n            skip_reset = True\n"), "C24-R3")
R.mutant("close-special-without-transaction-close", ENG,
         sub("        if self._transaction:\n            self._transaction.close()\n            skip_reset = True\n",
             "        if self._transaction:\n            skip_reset = True\n"), "C24-R3")
R.mutant("close-plain-close-dropped", ENG,
         sub("            else:\n                conn.close()\n\n            # There is a slight chance", "            else:\n                pass\n\n            # There is a slight chance"), "C24-R3")
R.mutant("characteristics-finaliser-only-in-transaction", DEF,
         sub("        connection.connection._connection_record.finalize_callback.append(\n            functools.partial(self._reset_characteristics, characteristics)\n        )\n",
             "        if connection.in_transaction():\n            connection.connection._connection_record.finalize_callback.append(\n                functools.partial(self._reset_characteristics, characteristics)\n            )\n"), "C24-R4")
R.mutant("checkin-return-before-drain", POOL,
         sub("        while self.finalize_callback:\n            finalizer = self.finalize_callback.pop()\n            if connection is not None:\n                finalizer(connection)\n        if pool.dispatch.checkin:\n            pool.dispatch.checkin(connection, self)\n\n        pool._return_conn(self)\n",
             "        if pool.dispatch.checkin:\n            pool.dispatch.checkin(connection, self)\n\n        pool._return_conn(self)\n        while self.finalize_callback:\n            finalizer = self.finalize_callback.pop()\n            if connection is not None:\n                finalizer(connection)\n"), "C24-R4")
R.mutant("checkin-drain-if-not-while", POOL,
         sub("        while self.finalize_callback:\n            finalizer = self.finalize_callback.pop()", "        if self.finalize_callback:\n            finalizer = self.finalize_callback.pop()"), "C24-R4")
R.mutant("checkin-finaliser-not-called", POOL,
         sub("            if connection is not None:\n                finalizer(connection)\n", "            if connection is not None and pool._pre_ping:\n                finalizer(connection)\n"), "C24-R4")
R.mutant("close-does-not-clear-finalisers", POOL,
         sub("        self.finalize_callback.clear()\n        if self.__pool.dispatch.close:", "        if self.__pool.dispatch.close:"), "C24-R4")
R.mutant("characteristic-reset-removed", "dialects/postgresql/base.py",
         sub("    def reset_characteristic(self, dialect, dbapi_conn):\n        dialect.set_deferrable(dbapi_conn, False)\n\n", ""), "C24-R5")
R.mutant("characteristic-table-wrong-class", DEF,
         sub('"logging_token": characteristics.LoggingTokenCharacteristic(),', '"logging_token": characteristics.ConnectionCharacteristic(),'), "C24-R5")
R.mutant("characteristic-set-unimplemented", CHR,
         sub("    def set_connection_characteristic(\n        self,\n        dialect: Dialect,\n        conn: Connection,\n        dbapi_conn: DBAPIConnection,\n        value: Any,\n    ) -> None:\n        if value:\n            conn._message_formatter = lambda msg: \"[%s] %s\" % (value, msg)\n        else:\n            del conn._message_formatter\n\n", ""), "C24-R5")
# benign refactors
R.mutant("benign-rename-skip-reset", ENG, sub("skip_reset", "trans_closed", count=3), None)
R.mutant("benign-finalize-extra-logging", POOL,
         sub("            assert fairy.dbapi_connection is dbapi_connection\n", "            assert fairy.dbapi_connection is dbapi_connection\n            pool.logger.debug(\"resetting %r\", dbapi_connection)\n"), None)
R.mutant("benign-checkin-rename-finalizer", POOL,
         sub("            finalizer = self.finalize_callback.pop()\n            if connection is not None:\n                finalizer(connection)\n",
             "            fn = self.finalize_callback.pop()\n            if connection is not None:\n                fn(connection)\n"), None)
R.mutant("benign-reset-reorder-echo", POOL,
         sub("            if self._echo:\n                pool.logger.debug(\n                    \"Connection %s commit-on-return\",\n                    self.dbapi_connection,\n                )\n            pool._dialect.do_commit(self)\n",
             "            pool._dialect.do_commit(self)\n            if self._echo:\n                pool.logger.debug(\n                    \"Connection %s commit-on-return\",\n                    self.dbapi_connection,\n                )\n"), None)
